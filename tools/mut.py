#!/usr/bin/env python3
"""apply a textual mutation to a scratch copy of the repository package (outside /repo and
/verif), run a check against it, delete the copy.
usage: tools/mut.py <Cxx> <relative file> <old text> <new text> [--only substr] [--tier t]"""
import os, shutil, subprocess, sys, tempfile
prop, rel, old, new, *rest = sys.argv[1:]
d = tempfile.mkdtemp(prefix="pyvc_mut_")
try:
    shutil.copytree("/repo/trimesh", os.path.join(d, "trimesh"))
    p = os.path.join(d, rel)
    s = open(p).read()
    if s.count(old) != 1:
        print("mutation site not unique: %d occurrences" % s.count(old)); sys.exit(9)
    open(p, "w").write(s.replace(old, new))
    env = dict(os.environ, VERIF_REPO=d)
    r = subprocess.run(["/verif/check", prop, "--no-evidence", *rest], env=env)
    print("exit", r.returncode)
    sys.exit(r.returncode)
finally:
    shutil.rmtree(d, ignore_errors=True)
