#!/usr/bin/env python3
"""validate MANIFEST.json and every evidence file against the given schemas (run with .venv/bin/python)"""
import glob, json, sys
import jsonschema
ok = True
try:
    jsonschema.validate(json.load(open('/verif/MANIFEST.json')), json.load(open('/root/.vp/MANIFEST.schema.json')))
    print("MANIFEST ok")
except Exception as e:
    ok = False; print("MANIFEST INVALID", str(e)[:500])
es = json.load(open('/root/.vp/EVIDENCE.schema.json'))
for f in sorted(glob.glob('/verif/evidence/*.json')):
    try:
        jsonschema.validate(json.load(open(f)), es); print(f, "ok")
    except Exception as e:
        ok = False; print(f, "INVALID", str(e)[:500])
sys.exit(0 if ok else 1)
