#!/usr/bin/env python3
"""writes /verif/MANIFEST.json from the table below (kept in one place so that the
manifest, the checks and DESIGN.md do not drift)"""
import json, os
V = os.path.dirname(os.path.dirname(os.path.abspath(__file__)))
TB = "pyvc (symbolic executor, numpy shim, mirror loader) and z3/cvc5 are trusted; float64 treated as exact reals; external libraries (numpy kernels beyond the shim's definitional semantics, scipy, qhull, rtree, networkx, shapely) are assumed contracts"
CLAIMED = {
    "C01": dict(
        category="proof",
        text="Representation-invariant proof of the cache protocol: the mirrored source of caching.Cache and cache_decorator is run from every abstract pre-state satisfying INV (entries tagged with the data version they were computed from; id_function injective) for every protocol method, with and without an intervening data change: INV is preserved and every read returns Spec_k(D_current), i.e. values are history-independent; id_set/__exit__/update/direct stores/locks are classified as the only bypass primitives. An AST inventory of the whole package must find exactly the 41 contracted sites that use a bypass primitive or store a claimed value (a new site is a failed obligation). Effect inference over the AST shows each of the 65 cached properties of Trimesh/Geometry3D reads only tracked data, derived properties or immutable configuration (no visuals, metadata, attributes, RNG). The transport obligations of the sites (values deliberately kept across apply_transform, invert, update_faces/vertices, process, copy ...) are a bounded stand-in: read -> mutate -> read on real meshes compared with a freshly built mesh, 6 meshes x 30 mutators x 27 pre-read sets x ~60 keys.",
        design_ref="DESIGN.md §4 C01",
        note="assumed: C02 (hash reflects bytes) and T5; effect inference assumes no computed attribute names/exec (E); site transport obligations are bounded, not proved; ray/proximity structures are covered only through their dependency on the data hash.",
        technique="contract-based verification of a representation invariant (abstract-state enumeration over the mirrored Cache source, AST bypass-site inventory, AST effect inference) + bounded history template on the real classes",
    ),
    "C02": dict(
        category="proof",
        text="Inductive invariant `not dirty => stored hash = H(bytes)` over an abstract machine whose transitions are numpy mutation routes (35 routes x 5 alias configurations) and whose hook bodies are the contracts of the real TrackedArray methods, themselves discharged on every run by executing the verbatim class text on a ghost base (each of the 27 overridden mutators sets the dirty flag before delegating; __array_finalize__ dirties self and a tracked parent; __hash__ recomputes when dirty and caches only when clean). The numpy dispatch table is regenerated from the installed numpy each run and model/real agreement is enforced. 147 (route, alias) obligations fail today and are the four recorded known findings; any other failing obligation is a violation replayed on the real class.",
        design_ref="DESIGN.md §4 C02",
        note="assumed: numpy's hook dispatch as observed on the installed version; hash collision freedom (T5); routes outside the table are not covered. Container hashes (DataStore, Trimesh, Path, Scene, ColorVisuals) are a bounded check.",
        technique="contract-based verification of a representation invariant: method contracts discharged by ghost execution of the extracted class text, invariant preservation per operation class, replay on the real class",
    ),
    "C04": dict(
        category="proof",
        text="transformations.transform_points is proved equal to M.p+t for every point count N (symbolic length) and every real matrix in 2-D and 3-D, with and without translation, including the identity shortcut and its 1e-8 slack; the inverse and composition laws are lemmas over that contract. flips_winding <=> det<0 for every random draw is in the thorough tier (hint lemmas: adjugate certificates). The behaviour of the real classes (Trimesh, PointCloud, Path2D/3D, Scene, VoxelGrid, primitives) under a fixed family of matrices (rigid, scale, mirror, non-uniform, shear, near-identity) is a bounded stand-in: vertices, winding flip iff det<0, attributes, |det| volume, centre of mass, s^2 area, s^5 R I R^T inertia, inverse, composition.",
        design_ref="DESIGN.md §4 C04",
        note=TB + "; class-level clauses are bounded (fixed family), not proved.",
        technique="contract-based deductive verification (lambda-array symbolic execution, z3/cvc5) + bounded contract evaluation on the real classes",
    ),
    "C05": dict(
        category="proof",
        text="geometry.faces_to_edges is proved for EVERY face count N and every integer index (lambda arrays: edge 3i+k = (F[i,k], F[i,k+1 mod 3]), face index 3i+k = i, 3N edges), Trimesh.edges_sorted = row-wise (min,max) for every N, Trimesh.euler_number = |referenced vertices| - |unique edges| + |faces| (ghost self). Everything that needs cardinalities over a partition or an external graph engine - unique edges and their inverse, face adjacency with shared edge and unshared vertices, referenced vertices, watertightness, winding consistency, vertex neighbours / incident faces / degree, body count, connected components and split with both engines - is decided by EXHAUSTIVE enumeration on the real classes against a direct-counting oracle: every face array with one or two faces over six vertices (the queries depend only on the order/equality pattern of the index slots, so two faces are covered for all indices), every three-face array over three vertices (four in the thorough tier), a seeded sample of 3-5 faces over 3-6 vertices; Gauss-Bonnet on closed manifold meshes of genus 0/1 and two bodies.",
        design_ref="DESIGN.md §4 C05",
        note=TB + "; (M4) connected-components engines are assumed contracts compared against a union-find oracle; the adjacency/watertightness part is bounded (exhaustive small scope), not proved: a symbolic run of face_adjacency for two faces explodes into >10^4 orderings and did not finish.",
        technique="contract-based deductive verification (lambda-array symbolic execution for faces_to_edges/edges_sorted, ghost-self contract for euler_number) + exhaustive small-scope contract evaluation on the real classes against a direct-counting oracle",
    ),
    "C06": dict(
        category="proof",
        text="grouping.hashable_rows is proved injective and equality-preserving on int64 rows of 1-4 columns for ALL 2^64 values per element (z3 bit-vectors, the column loop executed), float_to_int against the rounding definition; group, unique_rows (both orders), group_rows (with/without require_count), unique_ordered, unique_bincount, merge_runs, unique_value_in_row, blocks (incl. wrap/only_nonzero), group_min are proved against direct element-by-element definitions for all integer values at small fixed lengths (bounded shape, every ordering/equality pattern explored) with hashable_rows replaced by its proved contract; the same contract texts are then evaluated exhaustively on the real code over small alphabets and at the bit-packing limits.",
        design_ref="DESIGN.md §4 C06",
        note=TB + "; array lengths 3-4 are a stated bound for all functions except hashable_rows/float_to_int (row-local).",
        technique="contract-based deductive verification (symbolic execution with BitVec(64)/Int, z3) + exhaustive small-scope contract evaluation on the real code",
    ),
    "C03": dict(
        category="proof",
        text="The real triangles.cross / area / mass_properties and inertia.transform_inertia are executed on an (N,3,3) array with N symbolic; every clause (volume, mass, centre of mass incl. the |V|<tol.zero branch and the override, inertia = density*J(raw moments, centre) i.e. the parallel-axis step, symmetry, density linearity, rotation and parallel-axis law for frames) is discharged for all N and all real coordinates against a spec generated from the Dirichlet simplex formula.",
        design_ref="DESIGN.md §4 C03",
        note=TB + "; (M1) divergence theorem and (M2) Dirichlet formula are mathematical assumptions linking per-triangle flux identities to solid integrals; sums over the symbolic axis are opaque with extensionality+scaling only.",
        technique="contract-based deductive verification: lambda-array symbolic execution of the unmodified source (unbounded triangle count), VCs discharged by z3/cvc5",
    ),
    "C07": dict(
        category="proof",
        text="util.append_faces is proved, for every coordinate and every in-range index at fixed small group sizes (incl. groups with vertices but no faces, in the middle and at the front), to stack vertices in order and to offset block m of the faces by the vertex counts of ALL preceding groups. Trimesh.update_vertices is proved modularly on a ghost self for every boolean mask over four vertices and integer masks (permutations, sub-selection, repetition, identity): every face corner keeps its position, indices stay in range, the tagged per-vertex attribute and the cached vertex normals follow their vertex, the visual is told the same mask, attributes of foreign length are untouched (all real coordinates / attribute values, all in-range face indices). The statement itself is checked bounded on the real classes: a family of 9-12 meshes (solids, open patch, duplicate / degenerate / unreferenced / non-finite / nearly duplicate elements) whose faces and vertices carry identity tags in face_attributes, vertex_attributes, face or vertex colours and cached normals, through update_faces (boolean, integer, repeated, permuted), update_vertices, remove_unreferenced_vertices, merge_vertices (5 option sets), unmerge_vertices, unique/nondegenerate faces, remove_infinite_values, process; submesh, split (repair off, both engines) + concatenate = original triangle multiset, concatenation with face-less members.",
        design_ref="DESIGN.md §4 C07",
        note=TB + "; (b) is modular over ghost stand-ins for visuals/cache/attribute stores; array sizes in (a),(b) are a stated bound; the whole-class statement is bounded.",
        technique="contract-based deductive verification (symbolic execution of append_faces and of Trimesh.update_vertices on a ghost self, z3) + bounded contract evaluation with identity tags on the real classes",
    ),
    "C09": dict(
        category="proof",
        text="Inductive proof of the scene-graph representation invariant and of `get = product of the current edge matrices along the path` on the mirrored source of SceneGraph/EnforcedForest: from every abstract pre-state (every forest shape over four named frames plus a fresh one, caches empty / fully populated / base-frame only / hash only) every mutator (update of an edge by matrix or translation, __setitem__, unchanged update, geometry change, add leaf under every node, re-parent to every admissible node, remove_node of every node, base_frame change, remove_geometries, clear) is applied with fresh SYMBOLIC affine matrices (12 reals per edge, so all real matrices at once); afterwards the real fields equal the ghost view (edge keys, parents, nodes, hash memo absent-or-current, path cache current) and every query - all ordered pairs, base-frame form, nodes, geometry maps, children, successors, to_flattened, to_edgelist/from_edgelist - equals the spec on the new view. The identity filter of get (factors within 1e-8 of I dropped) is explored on every path for all ordered pairs of every shape. kwargs_to_matrix (precedence, quaternion / axis-angle / translation content) and fix_rigid outside its repair band are proved for all real inputs. Forest shape (4+1 frames) is a stated bound; matrices and histories are not bounded.",
        design_ref="DESIGN.md §4 C09",
        note=TB + "; numpy.linalg.inv is an uninterpreted function (assumed contract); the algebraic laws T(a,a)=I, T(a,b)T(b,a)=I, T(a,c)=T(a,b)T(b,c) follow from the product spec by matrix algebra and are only evaluated numerically in the bounded tier; symbolic tier runs repair_rigid=None, the default is covered by seeded random histories on the real classes.",
        technique="contract-based deductive verification of a representation invariant (ghost abstract view, per-operation preservation from arbitrary invariant states on the mirrored source, symbolic matrices, z3) + bounded random histories on the real classes",
    ),
    "C10": dict(
        category="proof",
        text="Scene.bounds_corners and Scene.bounds are proved on a ghost self for EVERY vertex count N and every real affine world matrix: every placed vertex W.p lies inside the reported corners of its node (nodes whose geometry is missing are skipped), the scene bounds contain and attain the node corners (lambda arrays, extremum axioms; graph[node] is C09's contract). The statement as a whole is checked bounded on the real classes against its own oracle - a copy of each geometry placed with its node's world transform: nine scenes (single, instanced x3, nested frames, scaled / similarity nodes, mirrored node, unused geometry, identical twin geometries, face-less member, mesh + point cloud + path) x 14 quantities (bounds, extents, centroid, scale, triangles, triangles_node, area, volume, center_mass, moment_inertia, dump, dump(concatenate), to_mesh, convex_hull) read fresh and again after the same edit of every geometry, a single-vertex edit, a graph edit and a node removal (scene cache); copy, scaled (uniform x3, per-axis x2), apply_transform, subscene, +, rezero, convert_units preserve the placements (moved accordingly) and leave the source scene's placements, geometry hashes and edge list untouched. Three defects found this way were repaired, three are recorded known findings.",
        design_ref="DESIGN.md §4 C10",
        note=TB + "; the whole-scene statement is bounded (fixed scene family); qhull on both sides for the hull.",
        technique="contract-based deductive verification (lambda-array symbolic execution of bounds_corners/bounds on a ghost self) + bounded contract evaluation on the real classes against the explicit-placement oracle",
    ),
    "C11": dict(
        category="proof",
        text="intersections.plane_lines (one line, every real input of ordinary magnitude): a returned point is a + (t/b).dir^, lies on the plane (n^.(x-o)=0 with n = |n|.n^) and on the line through the end points; nothing is returned when the line is rejected - discharged through hint lemmas, z3 and a sympy Groebner back end for the rational identities. intersections.mesh_plane on a ghost mesh with one triangle, one contract per sign pattern (all 27): the number of segments is the one the pattern demands (two crossed edges, vertex + opposite edge, edge in the plane from the positive side, otherwise none) and the end points are exactly the on-plane vertices and plane_lines' intersections of the edges whose end points lie strictly on different sides (modular over plane_lines; general position: a straddling edge is not within 1e-6 of parallel). intersections.mesh_multiplane hands mesh_plane, for every height, cached dots equal to the dots with the shifted origin for the very normal it passes, parallel to the requested one and at the requested signed offset (every real, non-unit normals included). Bounded: 7 meshes (convex, torus, two bodies, cone, open patch, solid with cavity) x 8 planes (generic, axis, non-unit normal, through a vertex, along an edge, in a face, missing): section points on plane and surface, closed for watertight meshes in general position, face subsets, multiplane = section per height, opposite slices add up to the area, capped halves add up to the volume and are watertight for convex solids with the earcut, triangle and manifold engines.",
        design_ref="DESIGN.md §4 C11",
        note=TB + "; per-triangle contracts are modular over plane_lines and assume general position; loop closure, capping and the triangulation engines are bounded only; slice_faces_plane is covered by the bounded tier only.",
        technique="contract-based deductive verification (symbolic execution with sqrt axioms, hint lemmas, z3 + sympy Groebner reduction) + bounded contract evaluation on the real classes",
    ),
    "C12": dict(
        category="proof",
        text="ray_triangle.ray_bounds is proved, for a unit direction and every real origin / bounds / primary axis, to return a box that contains every point o + t.d (t >= 0) lying inside the tree bounds - the pruning box is never too tight; the precondition |d| = 1 this needs is a call-site obligation on ray_triangle_id, which failed on the unchanged tree (genuine defect, repaired: hits next to the origin were lost for non-unit directions) and is now discharged. intersections.planes_lines: valid <=> |d.n| > 1e-5, the location is o + distance.d and lies on the plane; triangles.points_to_barycentric (cramer and cross): weights sum to one and equal the plane coordinates of the point, for every proper triangle. Bounded: six meshes x seeded rays in general position (origins inside / outside, axis-aligned / oblique, unit, 1000x and 0.001x directions) against an all-triangles Moeller-Trumbore oracle for both engines (hit set, location on ray and triangle, first hit = nearest, intersects_any); closest point, distance and signed distance against the minimum over all triangles; containment and sign against the half-space test on convex solids.",
        design_ref="DESIGN.md §4 C12",
        note=TB + "; (M4) rtree / kd-tree are assumed contracts; the embree engine is only compared with the oracle; the acceptance test of ray_triangle_id and triangles.closest_point are covered by the bounded tier only.",
        technique="contract-based deductive verification (symbolic execution, z3/sympy) with a call-site precondition obligation + bounded contract evaluation against an exhaustive oracle on the real classes",
    ),
    "C13": dict(
        category="proof",
        text="Run-length codecs against the abstract view dec(runs)[p] (value of the run containing position p, p a universally quantified integer): merge_brle_lengths, rle_to_brle (incl. its ValueError condition), merge_rle_lengths, brle_logical_not, brle_reverse, rle_reverse, brle_strip, rle_strip, brle_to_rle, brle_length/rle_length are proved lossless for EVERY non-negative integer count at each fixed run count 1..5 (bounded shape), split_long_brle/rle_lengths for uint8 with every count below 3*255 (case split on the quotient). The lazy index maps (FlippedEncoding, TransposedEncoding, ShapedEncoding, FlattenedEncoding): _to_base_indices equals numpy's flip / transpose / reshape index arithmetic for every integer index inside the shape and _from_base_indices is its inverse (symbolic indices, concrete small shapes incl. 3-cycles). ops.indices_to_points/points_to_indices are mutually inverse and voxel Transform.transform_points = M.i, unit_volume = det for every real axis-aligned transform (proof, unbounded); inverse_transform_points/rounding in the thorough tier. Bounded tier: every boolean array of shapes (5,),(2,3),(2,2,2) and integer arrays over {0,1,2} through Dense/Sparse/RLE/BRLE and every flip/transpose/flatten/reshape view, 11 reads each against the dense numpy array; every boolean sequence up to length 9 and ternary sequence up to length 6 through every codec, gather (array and list indices) and mask function; runs at max-1, max, max+1, 2max+1 for every count dtype. Nine defects found this way were repaired (fix: commits), four are recorded known findings.",
        design_ref="DESIGN.md §4 C13",
        note=TB + "; generator-based functions (rle_mask, brle_mask, sorted_*_gather_1d) and dense<->run-length converters are covered by the exhaustive bounded tier only; run counts 1..5 are a stated bound for the symbolic codecs.",
        technique="contract-based deductive verification (symbolic execution of the unmodified source over integer run lists and index arrays, position-wise decode spec, z3 LIA) + exhaustive small-scope contract evaluation on the real classes",
    ),
    "C14": dict(
        category="proof",
        text="What contracts decide here is small and said so: arc.arc_center is proved for every non-collinear triple of planar points - the reported centre is equidistant from the three points (hint lemma: the denominator is 4|e1 x e2|^2; rational identities by the sympy Groebner back end, ValueError allowed for nearly collinear input). The statement itself - invariance of the reconstructed regions - runs through networkx cycle extraction and shapely polygon construction and is checked BOUNDED on the real classes: six curve sets (square, square with hole, squares nested three deep, L, two disjoint regions, triangle + L), every boundary split into 1..4 polylines at two offsets, ALL entity permutations and direction assignments (exhaustive up to 6 entities, capped at 250 / 3000 per configuration beyond), disc and annulus from 2 and 3 arcs per circle: number of regions, holes per region, area and length equal the exact values and do not depend on splitting, order or direction; rigid / similarity / mirror / shrinking transforms with five different sets of derived values read beforehand scale area by s^2 and length by s and agree with a freshly built path; DXF, SVG and dict round trips keep area, length and regions. Two defects found this way were repaired (Arc.length doubled; dict export not loadable).",
        design_ref="DESIGN.md §4 C14",
        note=TB + "; cycle extraction (networkx) and polygon repair / nesting (shapely) are outside the reach of contracts on the repository's Python: bounded only. The 3-D arc_center identity was tried and is undecided (not registered).",
        technique="contract-based deductive verification of arc_center (symbolic execution, hint lemma, sympy Groebner reduction) + bounded (largely exhaustive) contract evaluation of the region invariants on the real classes",
    ),
    "C15": dict(
        category="proof",
        text="creation.box is executed symbolically for EVERY positive extents (and in its bounds form): the twelve concrete faces are closed and consistently wound, the eight vertices are exactly the distinct corners of the requested box, the signed-tetrahedron volume of the real faces over the symbolic vertices is the product of the extents and the area 2(ab+bc+ca) (Trimesh constructor replaced by a recording ghost; placement is C04's contract). Analytic measures on a ghost self for every real parameter: Cylinder volume and inertia, Sphere volume / area / inertia, Box volume, inertia.cylinder_inertia and sphere_inertia against the textbook closed forms. Bounded on the real code: cylinder, cone, annulus for section counts 3..32 (64 thorough), box, capsule, uv_sphere, torus, icosphere, extrusions of a square / holed / L-shaped polygon, partial revolutions with caps x identity / rigid / mirror / mirror+rotation placements: watertight, consistently wound, positive volume, volume and area equal to the closed form of the inscribed tessellation; six resolution sequences converge monotonically from below to the smooth volume; five primitive kinds x three placements x sequences of one or two parameter edits x three pre-reads x ten first reads after the edit: the mesh equals that of a freshly built primitive. One defect found this way (inside-out revolved shapes under mirroring transforms) was repaired.",
        design_ref="DESIGN.md §4 C15",
        note=TB + "; revolved, swept and extruded shapes are bounded (parameter grids and section counts are fixed lists); sweep_polygon is not covered.",
        technique="contract-based deductive verification (symbolic execution of creation.box with a ghost constructor, ghost-self contracts for the analytic measures, z3) + bounded contract evaluation on the real code against inscribed-tessellation closed forms",
    ),
    "C16": dict(
        category="proof",
        text="Trimesh.bounds is proved for EVERY vertex count N: each referenced vertex lies inside [min, max] (lambda arrays, filter and extremum axioms; None only when nothing is referenced). nsphere.minimum_nsphere is put under a modular contract (hull_points, fit_nsphere, the Voronoi diagram are ghosts returning arbitrary values): on both return paths that hand back the least-squares centre the reported radius is the LARGEST centre-to-point distance, so the sphere contains every point whatever the fit returned (the Voronoi-vertex path is bounded only). convex.convex_hull's own re-indexing is proved on a ghost qhull result (six symbolic input points, four symbolic hull vertex ids, four symbolic simplices; bounded shape): every face corner is the point qhull named, every vertex is an input point, indices in range. Bounded on the real code: 11 point sets (random, lattice with ties, shifted lattice, clustered, nearly flat, far from the origin, tiny, huge, sparse elongated, cospherical, tetrahedron with interior points) as point cloud and as hull mesh: hull watertight / outward / convex / vertices are input points / contains every input; AABB; oriented box without and with a given normal and unordered (rigid transform, points inside the reported extents, box centred at the origin), bounding_box_oriented; minimum_nsphere and bounding_sphere containment, minimality against a brute-force minimal enclosing sphere on small sets; bounding cylinder; 2-D rectangle and circle. Two known findings (sphere not minimal; flat input raises).",
        design_ref="DESIGN.md §4 C16",
        note=TB + "; (M4) qhull's own guarantees are assumed and compared bounded; oriented_bounds' search and apply_obb are bounded only; the Voronoi return path of minimum_nsphere is bounded only (the solvers did not decide sqrt of an argmin-selected maximum).",
        technique="contract-based deductive verification (lambda arrays for Trimesh.bounds, modular ghost contracts for minimum_nsphere and the hull re-indexing, z3) + bounded contract evaluation on the real code",
    ),
    "C17": dict(
        category="proof",
        text="Ownership contract of every copy routine evaluated on the real objects: for 18 objects/states (meshes fresh / with every cached value read / face colours + nested metadata + attributes / vertex colours / texture / density and centre-of-mass overrides; Box, Cylinder(sections=7), Sphere(subdivisions=1), Capsule, Extrusion, primitive with overrides; Path2D with polygons read, Path3D, PointCloud, nested Scene, dense and run-length VoxelGrid) x copy(), copy.copy, copy.deepcopy (+ include_cache=True): (faithful) every field of the abstract state - arrays, primitive parameters, overrides, attributes, visuals, metadata, scene graph - is equal; (fresh) NO mutable object (writeable array, dict, list, set, geometry / visual / graph / tree object) is reachable from both objects, over every reference path of both object graphs; (frame) up to ten edits, in place and through the API, applied to either object leave every value the other reports - read before and computed after - unchanged. The static obligations (proof-level, tiny): the copy routine of each of the 13 classes named by the statement exists in the current source and never returns self or a bare attribute of self. Seven defects found this way were repaired; sharing of cached objects by include_cache / copy.copy(mesh) is a recorded known finding.",
        design_ref="DESIGN.md §4 C17",
        note="the reachability and frame obligations are run-time contract checks over a fixed family (bounded), complete over reference paths but not over objects; only the AST inventory is discharged statically; third-party objects (shapely, networkx, rtree, PIL) count as mutable.",
        technique="contract-based verification: ownership (fresh) and frame contracts checked by object-graph reachability on the real classes + AST inventory of the copy routines",
    ),
    "C18": dict(
        category="proof",
        text="remesh.subdivide is executed symbolically on one triangle (the whole domain of the per-face statement) and on two triangles sharing an edge, for every real vertex position: the old vertices stay at their indices, the new vertices are exactly the edge midpoints, every child has the orientation and a quarter of the vector area of a parent, the total vector area and all ten flux integrals of C03's generated spec (volume, first and second moments) are preserved, and the two parents use ONE midpoint index on the common edge (no crack). remesh.subdivide_to_size on one triangle with max_iter 0 and 1, every real vertex and bound: either ValueError or every returned edge is at most the bound, indices in range, vector area preserved. repair.fix_inversion on a ghost mesh with 1, 2, 3 bodies and every real body volume: a single body is inverted iff its volume is negative, of several bodies exactly the negative ones are re-wound (modular over components / mass_properties / invert). Bounded on the real classes: 7 meshes (tetra, box, icosphere, torus, two bodies, open patch, large sphere + small box + small torus): subdivide all / subset / single / twice / loop keeps vertices, area, volume, watertightness, Euler number; subdivide_to_size at scales 1e-4..1e3 and four bounds; fix_normals on every subset of re-wound faces of the tetrahedron (and cube in the thorough tier), seeded subsets elsewhere, every combination of whole bodies inverted; fill_holes after every single and adjacent-pair face removal.",
        design_ref="DESIGN.md §4 C18",
        note=TB + "; whole-mesh winding repair (graph traversal, M4) and hole filling are bounded; subdivide on two faces, subdivide_to_size and fix_inversion contracts are bounded-shape / modular.",
        technique="contract-based deductive verification (symbolic execution of subdivide / subdivide_to_size, modular ghost contract for fix_inversion, z3) + bounded contract evaluation on the real classes",
    ),
    "C19": dict(
        category="proof",
        text="Every obligation generated from the current source of trimesh/transformations.py (rotation_matrix, quaternion_*, euler_* for all 24 conventions, compose/decompose, transform_points, planar/scale/translate helpers) is discharged by z3/cvc5 for all real inputs: orthonormality, det=+1, round trips, representation agreement, fixed points. Fixed-size matrices, so no bound on inputs.",
        design_ref="DESIGN.md §4 C19",
        note=TB + "; trig/sqrt via algebraic defining axioms; euler gimbal band 0<cy<=_EPS excluded; eig/svd-based functions not under contract.",
        technique="contract-based deductive verification: symbolic execution of the unmodified source, VCs discharged by z3/cvc5 (QF_NRA)",
    ),
    "C20": dict(
        category="proof",
        text="What contracts decide here is control flow around the parsers, not time or memory. (a) open/close typestate: load_scene, load_mesh, load and load_path are run with `open` replaced by a handle-tracking ghost and every registered loader replaced by a havoc stub (returns / ValueError / custom exception / KeyError / MemoryError) for every file-type category (mesh stl, ply, glb; path dxf, svg; archive; voxel; unsupported), by path and by caller's file object: on every path every handle the loader opened is closed when the call leaves, the caller's object is never closed, only ordinary exceptions escape (274 obligations). (b) the while loops of the loader modules are exactly the contracted ones, each with a stated variant (AST inventory: a new loop is a failed obligation); the two loops that read from the file (PLY header scan, GLB chunk scan) leave within one iteration at end-of-file for every enumerated prefix of header lines (9-line alphabet, length <= 2, 3 thorough) / chunk records. (c) binary STL accepts a header count only if count*50 equals the bytes that follow, at the 32-bit limits (the wrap-around accepted before the repair), so no allocation is sized by an unvalidated field. Bounded: one small exported file per format (15 formats): every truncation point of short files / 60 cuts otherwise, seeded single-byte corruptions, blown-up 32-bit fields, by file object and by path, with a 10 s per-case limit under a 6 GiB address-space limit: returns or raises an ordinary exception, no handle left open. Two defects found this way were repaired.",
        design_ref="DESIGN.md §4 C20",
        note="the obligations are discharged by ghost execution of the real entry points with havoc stubs (finite case enumeration, complete for the modelled outcome classes), not by a solver; parsers, zip/tar/xml/json libraries and numpy are external; wall-clock and memory proportionality and interpreter crashes are outside what contracts on the Python express and are only sampled in the bounded tier.",
        technique="contract-based verification of typestate and termination obligations by ghost execution of the real loader entry points (havoc stubs for the parsers, ghost files), AST loop inventory + bounded truncation / corruption enumeration with limits",
    ),
}
REASON_PENDING = "no check registered yet in this commit (framework under construction; see DESIGN.md §6 for the build order)"
ALL = ["C%02d" % i for i in range(1, 21)]
m = {
    "version": 1,
    "setup_cmd": "sh ./setup.sh",
    "hooks": {
        "guard": "TRIMESH_VERIF",
        "enable": "none needed: the verifier mirrors the unmodified source text of /repo's working tree; no hook commits exist",
        "baseline_off_cmd": "cd /repo && /venv/bin/python -m pytest -ra -q -p no:cacheprovider --timeout=900 --continue-on-collection-errors",
        "source_commits": [],
        "add_only": True,
    },
    "engines": [
        {"name": "pyvc", "path": "pyvc/", "serves_properties": sorted(CLAIMED), "kind_free_text": "contract-based deductive verifier for Python/numpy built for this task: mirrors the real source, executes it on symbolic values, generates verification conditions per contract clause and path, discharges with z3 and cvc5; counterexamples are replayed on the really imported trimesh"}
    ],
    "checks": [],
    "not_applicable": [],
    "notes": "exit codes of ./check: 0 all obligations discharged; 1 VIOLATION (replay file written); 2 undecided only (solver unknown / construct outside the shim) ; 3 checker self-check failed",
}
for p in ALL:
    if p in CLAIMED:
        c = CLAIMED[p]
        m["checks"].append({
            "property_id": p,
            "quick_cmd": "./check %s --tier quick" % p,
            "thorough_cmd": "./check %s --tier thorough" % p,
            "evidence_file": "evidence/%s.json" % p,
            "replay_cmd_template": "./check %s --replay {path}" % p,
            "engine": "pyvc",
            "level_claimed": {"category": c["category"], "text": c["text"], "design_ref": c["design_ref"]},
            "level_note": c["note"],
            "technique": c["technique"],
        })
    else:
        m["not_applicable"].append({"property_id": p, "reason": REASON_PENDING})
json.dump(m, open(os.path.join(V, "MANIFEST.json"), "w"), indent=1)
print("MANIFEST.json written:", len(m["checks"]), "checks,", len(m["not_applicable"]), "not applicable")
