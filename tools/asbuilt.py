#!/usr/bin/env python3
"""regenerate the generated tables of DESIGN.md (between the GENERATED markers) from what is
committed: evidence/*.json (last run of every check), known_findings.json, seeded/*/meta.json.
usage: python3 tools/asbuilt.py   (idempotent; hand-written text is not touched)"""
import glob
import json
import os
import re

ROOT = os.path.dirname(os.path.dirname(os.path.abspath(__file__)))


def evidence_table():
    rows = ["| property | obligations discharged (all sizes / fixed-size objects) | bounded-shape obligations (all values, stated small shape) | bounded runs (cases on the real classes) | back ends | functions under contract | solver s | wall s |", "|---|---|---|---|---|---|---|---|"]
    for f in sorted(glob.glob(os.path.join(ROOT, "evidence", "C*.json"))):
        d = json.load(open(f))
        c = d["coverage"]
        bs = c.get("bounded_shape_obligations", {})
        bounded = c.get("bounded", [])
        cases = sum(b.get("cases", 0) for b in bounded)
        be = ", ".join("%s %s" % (k, v) for k, v in sorted(c.get("backends", {}).items()))
        fns = sorted(c.get("functions_under_contract", {}))
        short = ", ".join("`%s`" % x.replace("trimesh.", "") for x in fns[:6]) + (" … (%d)" % len(fns) if len(fns) > 6 else "")
        rows.append("| %s | %s / %s | %s / %s | %d (%d) | %s | %s | %s | %s |" % (d["property_id"], c.get("discharged", 0), c.get("obligations", 0), bs.get("discharged", 0), bs.get("count", 0), len(bounded), cases, be or "real-run", short or "—", c.get("solver_s", 0), d.get("wall_s")))
    return "\n".join(rows)


def findings_table():
    k = json.load(open(os.path.join(ROOT, "known_findings.json")))
    rows = ["| id | property | status | what | commit / pinned by |", "|---|---|---|---|---|"]
    for f in sorted(k["findings"], key=lambda f: (f["property"], f["status"], f["id"])):
        what = re.sub(r"\s+", " ", f.get("what", ""))[:260].replace("|", "\\|")
        rows.append("| %s | %s | %s | %s | %s |" % (f["id"], f["property"], f["status"], what, (f.get("commit") or f.get("why_not_fixed") or "").replace("|", "\\|")[:160]))
    return "\n".join(rows)


def seeded_table():
    rows = ["| seeded change | property | caught by | obligations that fail (first three) |", "|---|---|---|---|"]
    for d in sorted(glob.glob(os.path.join(ROOT, "seeded", "*"))):
        mp = os.path.join(d, "meta.json")
        if not os.path.exists(mp):
            continue
        m = json.load(open(mp))
        obl = []
        for p, c in sorted(m.get("checks", {}).items()):
            for o in c.get("obligations", []):
                o = o.replace("obligation=", "")
                if o not in obl:
                    obl.append(o)
        caught = ", ".join(m.get("caught_by", [])) or "**not caught**"
        rows.append("| %s | %s | %s | %s |" % (m.get("id", os.path.basename(d)), m.get("breaks_property", ""), caught, "<br>".join("`%s`" % o[:150] for o in obl[:3])))
    return "\n".join(rows)


def mutation_table():
    rows = ["| property | mutants sampled (of candidates) | killed (exit 1) | noticed without verdict (exit 2/3) | survived | survivors |", "|---|---|---|---|---|---|"]
    for f in sorted(glob.glob(os.path.join(ROOT, "mutation", "C*.json"))):
        d = json.load(open(f))
        su = d["summary"]
        surv = [m["desc"].replace("trimesh.", "") for m in d["mutants"] if m["status"] == "survived"]
        rows.append("| %s | %d (%d) | %d | %d | %d | %s |" % (d["property"], d["sampled"], d["candidates"], su.get("killed", 0), su.get("undecided", 0) + su.get("checker-error", 0), su.get("survived", 0), "<br>".join("`%s`" % x[:110] for x in surv[:12])))
    return "\n".join(rows)


def main():
    p = os.path.join(ROOT, "DESIGN.md")
    s = open(p).read()
    for name, fn in (("evidence", evidence_table), ("findings", findings_table), ("seeded", seeded_table), ("mutation", mutation_table)):
        a, b = "<!-- BEGIN GENERATED:%s -->" % name, "<!-- END GENERATED:%s -->" % name
        if a not in s:
            print("marker missing:", name)
            continue
        i, j = s.index(a) + len(a), s.index(b)
        s = s[:i] + "\n" + fn() + "\n" + s[j:]
    open(p, "w").write(s)
    print("DESIGN.md tables regenerated")


if __name__ == "__main__":
    main()
