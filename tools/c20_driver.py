#!/usr/bin/env python3
"""driver for the C20 structured-corruption tier: loads the case files named on stdin, one per
line (`<name>\t<file type>\t<path>`), each under a CPU-time alarm (so that a busy machine does not
turn into a time-out; a generous wall-clock alarm catches blocking) and an address-space limit,
and prints `START <name>` before and `END <name>\t<outcome>` after each. If this process dies
(segmentation fault, abort) the parent knows which case did it from the last START line."""
import io
import os
import resource
import signal
import sys
import warnings

warnings.simplefilter("ignore")
limit_s = float(os.environ.get("C20_CASE_LIMIT_S", "10"))
gib = float(os.environ.get("C20_MEM_GB", "4"))
try:
    soft, hard = resource.getrlimit(resource.RLIMIT_AS)
    resource.setrlimit(resource.RLIMIT_AS, (int(gib * 2**30), hard))
except (ValueError, OSError):
    pass
import trimesh  # noqa: E402

trimesh.util.log.setLevel(50)


def on_alarm(*a):
    raise TimeoutError("per-case time limit")


signal.signal(signal.SIGALRM, on_alarm)
signal.signal(signal.SIGVTALRM, on_alarm)
for line in sys.stdin:
    line = line.rstrip("\n")
    if not line:
        continue
    name, ft, path = line.split("\t")
    print("START %s" % name, flush=True)
    data = open(path, "rb").read()
    signal.setitimer(signal.ITIMER_VIRTUAL, limit_s)
    signal.setitimer(signal.ITIMER_REAL, limit_s * 12)
    try:
        try:
            r = trimesh.load(io.BytesIO(data), file_type=ft)
            # touch the geometry: lazily sliced data must be readable
            detail = ""
            geoms = list(r.geometry.values()) if hasattr(r, "geometry") else [r]
            for g in geoms:
                v = getattr(g, "vertices", None)
                if v is not None and len(v):
                    detail = "%d vertices, max |coordinate| %.6g" % (len(v), float(abs(v).max()))
            outcome = "returned %s %s" % (type(r).__name__, detail)
        except TimeoutError:
            outcome = "TIMEOUT"
        except MemoryError:
            outcome = "raised MemoryError"
        except Exception as ex:  # noqa: BLE001
            outcome = "raised %s" % type(ex).__name__
        except BaseException as ex:  # noqa: BLE001
            outcome = "NON-ORDINARY %s" % type(ex).__name__
    finally:
        signal.setitimer(signal.ITIMER_VIRTUAL, 0)
        signal.setitimer(signal.ITIMER_REAL, 0)
    print("END %s\t%s" % (name, outcome), flush=True)
