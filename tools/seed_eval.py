#!/usr/bin/env python3
"""evaluate one seeded change (a sub-agent's patch + demonstration) in a scratch git worktree
outside /repo and /verif:
  1. demo passes on the clean tree, fails with the patch
  2. (--tests) the repository's test-suite still passes with the patch (known failures ignored)
  3. which of our checks report a VIOLATION when pointed at the patched tree (VERIF_REPO)
Writes <seed dir>/eval.json; with --keep <id> copies patch/demo/meta into /verif/seeded/<id>/.
usage: tools/seed_eval.py <seed dir> <Cxx>[,Cyy...] [--tests] [--tier quick|thorough] [--keep ID] [--only substr]
"""
import argparse, json, os, shutil, subprocess, sys, tempfile, time

KNOWN_FAIL = {"tests/test_ray.py::RayTests::test_on_edge", "tests/test_primitives.py::PrimitiveTest::test_primitives"}
PY = "/venv/bin/python"


def sh(cmd, cwd=None, env=None, timeout=3600):
    p = subprocess.run(cmd, cwd=cwd, env=env, capture_output=True, text=True, timeout=timeout)
    return p.returncode, (p.stdout + p.stderr)


def main():
    ap = argparse.ArgumentParser()
    ap.add_argument("seed")
    ap.add_argument("props")
    ap.add_argument("--tests", action="store_true")
    ap.add_argument("--tier", default="quick")
    ap.add_argument("--keep")
    ap.add_argument("--only")
    a = ap.parse_args()
    seed = os.path.abspath(a.seed)
    patch = os.path.join(seed, "patch.diff")
    demo = os.path.join(seed, "demo.py")
    wt = tempfile.mkdtemp(prefix="pyvc_seed_")
    os.rmdir(wt)
    res = {"seed": seed, "at": time.strftime("%Y-%m-%d %H:%M:%S")}
    prev = os.path.join(seed, "eval.json")
    if not a.tests and os.path.exists(prev):
        try:
            old = json.load(open(prev))
            if "tests" in old:
                res["tests"] = dict(old["tests"], note="test-suite result carried over from the evaluation at %s" % old.get("at"))
        except Exception:
            pass
    try:
        rc, out = sh(["git", "-C", "/repo", "worktree", "add", "--detach", wt, "HEAD"])
        assert rc == 0, out
        env = dict(os.environ, PYTHONPATH=wt)
        rc0, out0 = sh([PY, demo], cwd=wt, env=env)
        res["demo_clean"] = {"exit": rc0, "tail": out0[-300:]}
        rc, out = sh(["git", "apply", patch], cwd=wt)
        res["patch_applies"] = rc == 0
        if rc != 0:
            res["apply_error"] = out[-500:]
        rc1, out1 = sh([PY, demo], cwd=wt, env=env)
        res["demo_patched"] = {"exit": rc1, "tail": out1[-600:]}
        if a.tests:
            rc, out = sh([PY, "-m", "pytest", "-q", "-p", "no:cacheprovider", "--timeout=900", "-n", "6"], cwd=wt, timeout=3600)
            failed = sorted({l.split(" ")[1] for l in out.splitlines() if l.startswith("FAILED ") or l.startswith("ERROR ")})
            res["tests"] = {"failed": failed, "new_failures": [f for f in failed if f not in KNOWN_FAIL], "tail": out.strip().splitlines()[-1:]}
        res["checks"] = {}
        for prop in a.props.split(","):
            cmd = ["/verif/check", prop, "--tier", a.tier, "--no-evidence"] + (["--only", a.only] if a.only else [])
            t0 = time.time()
            rc, out = sh(cmd, cwd="/verif", env=dict(os.environ, VERIF_REPO=wt), timeout=7200)
            lines = out.splitlines()
            viol = [l for l in lines if l.startswith("VIOLATION")]
            obl = [l.strip() for l in lines if l.strip().startswith("obligation=")]
            res["checks"][prop] = {"exit": rc, "violations": len(viol), "obligations": obl[:12], "undecided": len([l for l in lines if l.startswith("UNDECIDED")]), "errors": [l for l in lines if l.startswith("CHECKER-ERROR")][:3], "summary": lines[-1] if lines else "", "wall_s": round(time.time() - t0, 1), "first_violation": viol[:2]}
        res["caught_by"] = [p for p, r in res["checks"].items() if r["exit"] == 1 and r["violations"] > 0]
    finally:
        sh(["git", "-C", "/repo", "worktree", "remove", "--force", wt])
        shutil.rmtree(wt, ignore_errors=True)
    json.dump(res, open(os.path.join(seed, "eval.json"), "w"), indent=1)
    print(json.dumps({k: res[k] for k in ("demo_clean", "demo_patched", "caught_by") if k in res}, indent=1)[:1500])
    if "tests" in res:
        print("tests new failures:", res["tests"]["new_failures"], res["tests"]["tail"])
    for p, r in res.get("checks", {}).items():
        print(p, "exit", r["exit"], r["summary"])
        for o in r["obligations"][:6]:
            print("   ", o)
    if a.keep:
        dst = os.path.join("/verif/seeded", a.keep)
        os.makedirs(dst, exist_ok=True)
        shutil.copy(patch, os.path.join(dst, "patch.diff"))
        shutil.copy(demo, os.path.join(dst, "demo.py"))
        if os.path.exists(os.path.join(seed, "notes.md")):
            shutil.copy(os.path.join(seed, "notes.md"), os.path.join(dst, "notes.md"))
        meta = {
            "id": a.keep,
            "breaks_property": a.props.split(",")[0],
            "needs_to_manifest": open(os.path.join(seed, "notes.md")).read()[:1500] if os.path.exists(os.path.join(seed, "notes.md")) else "",
            "confirmed": {
                "demo_on_clean_tree_exit": res["demo_clean"]["exit"],
                "demo_with_patch_exit": res["demo_patched"]["exit"],
                "test_suite_new_failures_with_patch": res.get("tests", {}).get("new_failures", "not run by this evaluation"),
                "ran": "scratch git worktree of /repo HEAD under /tmp (removed afterwards): demo on clean tree, git apply patch.diff, demo again, pytest -n 6, then ./check <prop> with VERIF_REPO pointing at the patched worktree",
            },
            "checks": {p: {"exit": r["exit"], "violations": r["violations"], "obligations": r["obligations"][:6], "summary": r["summary"]} for p, r in res["checks"].items()},
            "caught_by": res["caught_by"],
        }
        json.dump(meta, open(os.path.join(dst, "meta.json"), "w"), indent=1)
        print("kept as", dst)


if __name__ == "__main__":
    main()
