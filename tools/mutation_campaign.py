#!/usr/bin/env python3
"""mutation campaign: how many small syntactic changes inside the functions a check has under
contract does that check notice?

For every function listed under `functions_under_contract` in evidence/<Cxx>.json, AST-located
mutants are generated (comparison / arithmetic / boolean operator swaps, constants, dropped
`not`, constant subscripts); a seeded sample of them is applied, one at a time, to a scratch copy
of /repo's trimesh package outside /repo and /verif, and `./check Cxx` is run against the copy
(VERIF_REPO). exit 1 = killed, 0 = survived, 2/3 = noticed without a verdict (undecided /
checker error). Survivors are listed for review: each is either an equivalent mutant or a gap.

usage: tools/mutation_campaign.py Cxx[,Cyy] [--per-prop N] [--parallel K] [--seed S] [--functions substr]
writes /verif/mutation/<Cxx>.json ; scratch copies are removed."""
import argparse
import ast
import concurrent.futures as cf
import importlib.util
import json
import os
import random
import shutil
import subprocess
import sys
import tempfile
import time

VERIF = os.path.dirname(os.path.dirname(os.path.abspath(__file__)))
REPO = "/repo"

CMP = {ast.Lt: "<=", ast.LtE: "<", ast.Gt: ">=", ast.GtE: ">", ast.Eq: "!=", ast.NotEq: "=="}
CMP_TXT = {ast.Lt: "<", ast.LtE: "<=", ast.Gt: ">", ast.GtE: ">=", ast.Eq: "==", ast.NotEq: "!="}
BIN = {ast.Add: "-", ast.Sub: "+", ast.Mult: "/", ast.Div: "*", ast.FloorDiv: "/", ast.Mod: "//"}
BIN_TXT = {ast.Add: "+", ast.Sub: "-", ast.Mult: "*", ast.Div: "/", ast.FloorDiv: "//", ast.Mod: "%"}


def _offsets(src):
    out = [0]
    for line in src.splitlines(keepends=True):
        out.append(out[-1] + len(line))
    return out


def _pos(offs, lineno, col, line_bytes):
    # col offsets are utf-8 byte offsets; the sources are ascii in practice, fall back to chars
    return offs[lineno - 1] + col


def find_function(tree, qual):
    """qual = 'func' or 'Class.method'"""
    parts = qual.split(".")
    body = tree.body
    node = None
    for p in parts:
        node = next((n for n in body if isinstance(n, (ast.FunctionDef, ast.ClassDef)) and n.name == p), None)
        if node is None:
            return None
        body = node.body
    return node if isinstance(node, ast.FunctionDef) else None


def mutants_of(src, fn):
    """yield (description, start, end, replacement) for function node fn"""
    offs = _offsets(src)

    def span(n):
        return offs[n.lineno - 1] + n.col_offset, offs[n.end_lineno - 1] + n.end_col_offset

    doc = ast.get_docstring(fn, clean=False)
    for n in ast.walk(fn):
        if isinstance(n, ast.Compare) and len(n.ops) == 1 and type(n.ops[0]) in CMP:
            a, b = span(n.left)[1], span(n.comparators[0])[0]
            txt = src[a:b]
            op = CMP_TXT[type(n.ops[0])]
            if txt.count(op) == 1 and txt.strip() == op:
                i = a + txt.index(op)
                yield ("L%d: %s -> %s" % (n.lineno, op, CMP[type(n.ops[0])]), i, i + len(op), CMP[type(n.ops[0])])
        elif isinstance(n, ast.BinOp) and type(n.op) in BIN:
            a, b = span(n.left)[1], span(n.right)[0]
            txt = src[a:b]
            op = BIN_TXT[type(n.op)]
            if txt.strip().strip("()").strip() == op and txt.count(op) == 1:
                i = a + txt.index(op)
                yield ("L%d: %s -> %s" % (n.lineno, op, BIN[type(n.op)]), i, i + len(op), BIN[type(n.op)])
        elif isinstance(n, ast.BoolOp):
            op = "and" if isinstance(n.op, ast.And) else "or"
            a, b = span(n.values[0])[1], span(n.values[1])[0]
            txt = src[a:b]
            if txt.strip().strip("()").strip() == op:
                i = a + txt.index(op)
                yield ("L%d: %s -> %s" % (n.lineno, op, "or" if op == "and" else "and"), i, i + len(op), "or" if op == "and" else "and")
        elif isinstance(n, ast.UnaryOp) and isinstance(n.op, ast.Not):
            a, b = span(n)
            inner = span(n.operand)
            yield ("L%d: drop not" % n.lineno, a, inner[0], "")
        elif isinstance(n, ast.Constant) and isinstance(n.value, (int, float)) and not isinstance(n.value, bool):
            if doc is not None and isinstance(n.value, str):
                continue
            a, b = span(n)
            v = n.value
            if isinstance(v, int):
                rep = str(v + 1) if v != 1 else "0"
            else:
                rep = repr(v * 10.0) if v != 0 else "1.0"
            yield ("L%d: constant %r -> %s" % (n.lineno, v, rep), a, b, rep)
        elif isinstance(n, ast.UnaryOp) and isinstance(n.op, ast.USub) and not isinstance(n.operand, ast.Constant):
            a, b = span(n)
            inner = span(n.operand)
            yield ("L%d: drop unary minus" % n.lineno, a, inner[0], "")


def module_file(modname):
    rel = modname.replace(".", "/")
    for cand in (rel + ".py", rel + "/__init__.py"):
        if os.path.exists(os.path.join(REPO, cand)):
            return cand
    return None


# functions a check exercises through objects it builds itself (not through h.fn / h.method),
# which the evidence's functions_under_contract therefore does not name
EXTRA = {
    "C09": ["trimesh.scene.transforms.SceneGraph.update", "trimesh.scene.transforms.SceneGraph.get", "trimesh.scene.transforms.EnforcedForest.add_edge", "trimesh.scene.transforms.EnforcedForest.remove_node", "trimesh.scene.transforms.EnforcedForest.shortest_path", "trimesh.scene.transforms.EnforcedForest.successors"],
    "C08": ["trimesh.scene.transforms.SceneGraph.to_gltf", "trimesh.exchange.gltf._build_views", "trimesh.exchange.gltf._build_accessor", "trimesh.exchange.gltf._byte_pad", "trimesh.exchange.ply.export_ply", "trimesh.exchange.stl.export_stl", "trimesh.exchange.off.export_off", "trimesh.exchange.binvox.export_binvox"],
    "C13": ["trimesh.voxel.base.VoxelGrid.points_to_indices", "trimesh.voxel.base.VoxelGrid.is_filled", "trimesh.voxel.runlength.brle_to_dense", "trimesh.voxel.runlength.rle_to_dense", "trimesh.voxel.runlength.dense_to_brle", "trimesh.voxel.runlength.dense_to_rle"],
    "C16": ["trimesh.bounds.oriented_bounds_2D", "trimesh.bounds.oriented_bounds", "trimesh.bounds.minimum_cylinder"],
    "C17": ["trimesh.base.Trimesh.copy", "trimesh.scene.scene.Scene.copy", "trimesh.visual.color.ColorVisuals.copy"],
}


def targets_for(prop, only=None):
    ev = json.load(open(os.path.join(VERIF, "evidence", prop + ".json")))
    out = []
    for q in sorted(set(ev["coverage"].get("functions_under_contract", {})) | set(EXTRA.get(prop, []))):
        if only and only not in q:
            continue
        parts = q.split(".")
        # longest prefix that is a module
        for k in range(len(parts) - 1, 0, -1):
            rel = module_file(".".join(parts[:k]))
            if rel:
                out.append((q, rel, ".".join(parts[k:])))
                break
    return out


def run_one(prop, rel, start, end, rep, desc, jobs, deadline):
    d = tempfile.mkdtemp(prefix="pyvc_mutc_")
    t0 = time.time()
    try:
        shutil.copytree(os.path.join(REPO, "trimesh"), os.path.join(d, "trimesh"))
        p = os.path.join(d, rel)
        s = open(p).read()
        s2 = s[:start] + rep + s[end:]
        try:
            compile(s2, p, "exec")
        except SyntaxError:
            return {"desc": desc, "status": "invalid"}
        open(p, "w").write(s2)
        env = dict(os.environ, VERIF_REPO=d, VERIF_JOBS=str(jobs), VERIF_DEADLINE_S=str(deadline))
        r = subprocess.run([os.path.join(VERIF, "check"), prop, "--tier", "quick", "--no-evidence"], env=env, capture_output=True, text=True, timeout=deadline + 300)
        first = next((l for l in r.stdout.splitlines() if l.strip().startswith("obligation=")), "")
        status = {0: "survived", 1: "killed", 2: "undecided", 3: "checker-error"}.get(r.returncode, "exit %d" % r.returncode)
        return {"desc": desc, "status": status, "first_obligation": first.strip()[:200], "wall_s": round(time.time() - t0, 1)}
    except subprocess.TimeoutExpired:
        return {"desc": desc, "status": "checker-error", "first_obligation": "timeout", "wall_s": round(time.time() - t0, 1)}
    finally:
        shutil.rmtree(d, ignore_errors=True)


def main():
    ap = argparse.ArgumentParser()
    ap.add_argument("props")
    ap.add_argument("--per-prop", type=int, default=16)
    ap.add_argument("--parallel", type=int, default=3)
    ap.add_argument("--seed", type=int, default=1)
    ap.add_argument("--functions")
    ap.add_argument("--deadline", type=int, default=900)
    a = ap.parse_args()
    os.makedirs(os.path.join(VERIF, "mutation"), exist_ok=True)
    for prop in a.props.split(","):
        rng = random.Random(a.seed * 1000 + int(prop[1:]))
        cands = []
        for q, rel, inner in targets_for(prop, a.functions):
            src = open(os.path.join(REPO, rel)).read()
            fn = find_function(ast.parse(src), inner)
            if fn is None:
                continue
            for desc, s, e, rep in mutants_of(src, fn):
                cands.append((q, rel, s, e, rep, "%s %s" % (q, desc)))
        rng.shuffle(cands)
        # spread over functions: round-robin by function
        byfn = {}
        for c in cands:
            byfn.setdefault(c[0], []).append(c)
        picked = []
        while len(picked) < a.per_prop and any(byfn.values()):
            for q in sorted(byfn):
                if byfn[q] and len(picked) < a.per_prop:
                    picked.append(byfn[q].pop())
        results = []
        jobs = max(2, 16 // a.parallel)
        with cf.ThreadPoolExecutor(a.parallel) as ex:
            futs = [ex.submit(run_one, prop, rel, s, e, rep, desc, jobs, a.deadline) for q, rel, s, e, rep, desc in picked]
            for f in futs:
                r = f.result()
                results.append(r)
                print(prop, r["status"], r["desc"], r.get("first_obligation", "")[:100], flush=True)
        valid = [r for r in results if r["status"] != "invalid"]
        summary = {k: sum(1 for r in valid if r["status"] == k) for k in ("killed", "survived", "undecided", "checker-error")}
        out = {"property": prop, "at": time.strftime("%Y-%m-%d %H:%M:%S"), "repo_head": subprocess.run(["git", "-C", REPO, "rev-parse", "--short", "HEAD"], capture_output=True, text=True).stdout.strip(), "candidates": len(cands), "sampled": len(valid), "summary": summary, "mutants": results, "how": "AST operator / constant mutants inside the functions under contract (evidence functions_under_contract); ./check %s --tier quick with VERIF_REPO on a scratch copy" % prop}
        json.dump(out, open(os.path.join(VERIF, "mutation", prop + ".json"), "w"), indent=1)
        print(prop, "SUMMARY", summary, "of", len(cands), "candidates", flush=True)


if __name__ == "__main__":
    main()
