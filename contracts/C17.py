"""
C17 — Copies are faithful and share no mutable state with the original.

Ownership contract of every copy routine, evaluated on the real objects:
  fresh(copy):   the set of MUTABLE objects reachable from the copy (writeable ndarrays,
                 dicts, lists, sets, bytearrays, geometry / visual / graph objects) is
                 disjoint from the set reachable from the source; read-only arrays and
                 immutable values may be shared.
  faithful(copy): every field of the abstract state (geometry arrays, primitive parameters,
                 visuals, metadata, scene graph) of the copy equals the source's.
  frame:         a battery of edits (in place and through the API) applied to either object
                 leaves every value the other one reports unchanged - values read before the
                 edit and values computed afterwards.
The reachability obligation quantifies over EVERY reference path of the two object graphs
(not over sampled edits), for a family of objects x states x copy routes.  It is a run-time
contract check (bounded by the family), not a proof; the deductive part is the call-graph
obligation (a): every copy routine reaches its data through deepcopy / ndarray.copy /
constructors only, checked on the AST of the current source.
"""
import ast
import copy as pycopy
import os
import types

import numpy as rnp

from contracts import common
from pyvc import mirror
from pyvc.engine import bounded, protocol

META = {
    "level": "proof",
    "assumptions": [
        "the object families and states are fixed lists (bounded); within them the reachability obligation covers every reference path",
        "objects of third-party libraries reached from geometry (shapely polygons, networkx graphs, rtree indexes, PIL images) are treated as mutable unless they are known value types",
    ],
    "trusted_base": ["Python object graph walk (gc-free: __dict__/slots/containers)", "Python ast for the copy-route inventory"],
}

IMMUTABLE = (str, bytes, int, float, complex, bool, type(None), types.FunctionType, types.BuiltinFunctionType, types.MethodType, type, rnp.generic, rnp.dtype, frozenset, range, types.ModuleType)


def _children(o):
    """(name, child) pairs"""
    if isinstance(o, dict):
        for k, v in o.items():
            yield "[%s]" % (k if isinstance(k, str) else type(k).__name__), v
            if not isinstance(k, IMMUTABLE):
                yield "key", k
    elif isinstance(o, (list, tuple, set, frozenset)):
        for c in o:
            yield "[]", c
    elif isinstance(o, rnp.ndarray):
        if o.dtype == object:
            for c in o.ravel().tolist():
                yield "[]", c
        if o.base is not None and isinstance(o.base, rnp.ndarray):
            yield "base", o.base
    else:
        d = getattr(o, "__dict__", None)
        if isinstance(d, dict):
            yield from d.items()
        for cls in type(o).__mro__:
            for s_ in getattr(cls, "__slots__", ()) or ():
                if isinstance(s_, str) and hasattr(o, s_):
                    try:
                        yield s_, getattr(o, s_)
                    except Exception:  # noqa: BLE001
                        pass


def mutable_reach(root):
    """id -> (object, path of attribute names) of every mutable object reachable from root"""
    seen = {}
    out = {}
    stack = [(root, ())]
    while stack:
        o, path = stack.pop()
        if id(o) in seen or isinstance(o, IMMUTABLE):
            continue
        seen[id(o)] = o
        mod = type(o).__module__ or ""
        if isinstance(o, rnp.ndarray):
            if o.flags.writeable and o.size > 0:
                out[id(o)] = (o, path)
        elif isinstance(o, (dict, list, set, bytearray)):
            out[id(o)] = (o, path)
        elif isinstance(o, tuple):
            pass
        elif mod.split(".")[0] in ("trimesh", "networkx", "shapely", "PIL", "rtree", "scipy", "embreex", "pyembree"):
            out[id(o)] = (o, path)
        for name, c in _children(o):
            stack.append((c, path + (str(name),)))
    return out


SHARED_OK_TYPES = ("function", "module")


def shared_mutables(a, b):
    """[(type name, path from a, path from b)] of mutable objects reachable from both"""
    ra, rb = mutable_reach(a), mutable_reach(b)
    out = []
    for i in set(ra) & set(rb):
        o, path = ra[i]
        out.append((type(o).__name__, path, rb[i][1]))
    return out


def _field_of(path):
    """the part of the object a reference path starts in: first attribute, plus the cache key
    / data key where that is what identifies the value"""
    p = [x for x in path]
    if not p:
        return "self"
    head = p[0]
    if head in ("_cache",):
        return "_cache"
    if head in ("_data",) and len(p) >= 3 and p[1] == "data":
        return "_data%s" % p[2]
    if head in ("metadata", "geometry", "face_attributes", "vertex_attributes") and len(p) >= 2:
        return head + (p[1] if head != "geometry" else "")
    return head


# ----------------------------------------------------------------------------- families


def _mesh_states():
    import trimesh

    def plain():
        return trimesh.creation.box(extents=[1.0, 2.0, 3.0])

    def read_all():
        m = trimesh.creation.icosphere(subdivisions=1)
        for k in ("face_normals", "vertex_normals", "edges_unique", "face_adjacency", "bounds", "volume", "convex_hull", "vertex_neighbors", "vertex_adjacency_graph", "triangles_tree", "kdtree", "facets", "principal_inertia_transform"):
            getattr(m, k)
        m.ray, m.nearest
        m.ray.intersects_any([[0, 0, -5.0]], [[0, 0, 1.0]])
        m.nearest.on_surface([[2.0, 0, 0]])
        return m

    def colored_faces():
        m = trimesh.creation.box()
        m.visual.face_colors = rnp.tile([10, 20, 30, 255], (len(m.faces), 1))
        m.metadata["tag"] = {"nested": [1, 2, 3]}
        m.face_attributes["fid"] = rnp.arange(len(m.faces))
        m.vertex_attributes["vid"] = rnp.arange(len(m.vertices))
        return m

    def colored_vertices():
        m = trimesh.creation.icosphere(subdivisions=1)
        m.visual.vertex_colors = rnp.tile([1, 2, 3, 255], (len(m.vertices), 1))
        m.vertex_normals
        return m

    def textured():
        from PIL import Image

        m = trimesh.creation.box()
        uv = rnp.random.default_rng(0).random((len(m.vertices), 2))
        mat = trimesh.visual.material.SimpleMaterial(image=Image.new("RGB", (4, 4), (200, 10, 10)))
        m.visual = trimesh.visual.TextureVisuals(uv=uv, material=mat)
        return m

    def overrides():
        m = trimesh.creation.box()
        m.density = 3.5
        m.center_mass = [0.1, 0.2, 0.3]
        m.mass_properties
        return m

    def default_colours_edited():
        # no colours assigned: the defaults live in the visual's cache; an in-place edit is
        # only moved into the data store on the next read
        m = trimesh.creation.box()
        m.visual.face_colors
        vc = m.visual.vertex_colors
        vc[0] = [255, 0, 0, 255]
        return m

    return [("plain", plain), ("default-colours-read-then-vertex-colours-edited", default_colours_edited), ("everything-read", read_all), ("face-colours+metadata+attributes", colored_faces), ("vertex-colours", colored_vertices), ("textured", textured), ("density+center_mass", overrides)]


def _other_states():
    import trimesh
    import trimesh.transformations as tf

    def box_p():
        b = trimesh.primitives.Box(extents=[1.0, 2.0, 3.0], transform=tf.rotation_matrix(0.3, [1, 1, 0], [1, 2, 3]))
        b.metadata["k"] = {"deep": [1]}
        return b

    def cyl_p():
        c = trimesh.primitives.Cylinder(radius=0.7, height=2.0, sections=7)
        c.vertices
        return c

    def sphere_p():
        return trimesh.primitives.Sphere(radius=1.5, subdivisions=1, center=[1, 2, 3])

    def capsule_p():
        return trimesh.primitives.Capsule(radius=0.5, height=2.0, sections=9)

    def extrusion_p():
        from shapely.geometry import Polygon

        return trimesh.primitives.Extrusion(polygon=Polygon([(0, 0), (2, 0), (2, 1), (0, 1)]), height=1.5)

    def prim_overridden():
        b = trimesh.primitives.Box(extents=[1.0, 1.0, 1.0])
        b.center_mass = [0.1, 0.0, 0.0]
        b.density = 2.0
        return b

    def path2d():
        p = trimesh.load_path(rnp.array([[0, 0], [2, 0], [2, 1], [0, 1], [0, 0]], dtype=float))
        p.polygons_full, p.area
        p.metadata["m"] = [1, 2]
        return p

    def path3d():
        return trimesh.load_path(rnp.array([[0, 0, 0], [1, 0, 0], [1, 1, 0.5], [0, 0, 0]], dtype=float))

    def cloud():
        c = trimesh.PointCloud(rnp.random.default_rng(1).random((6, 3)), colors=rnp.tile([9, 8, 7, 255], (6, 1)))
        c.metadata["m"] = {"a": [1]}
        c.bounds
        return c

    def scene():
        s = trimesh.Scene()
        s.add_geometry(trimesh.creation.box(), node_name="a", geom_name="box", transform=tf.translation_matrix([1.0, 0, 0]))
        s.add_geometry(trimesh.creation.icosphere(subdivisions=1), node_name="b", geom_name="ico", parent_node_name="a", transform=tf.rotation_matrix(0.4, [0, 0, 1]))
        s.graph.update(frame_to="c", frame_from="b", matrix=tf.translation_matrix([0, 2.0, 0]), geometry="box")
        s.metadata["m"] = {"x": [1, 2]}
        s.bounds, s.graph.get("c")
        return s

    def voxel():
        v = trimesh.voxel.VoxelGrid(rnp.random.default_rng(2).random((3, 4, 2)) > 0.5, transform=tf.scale_and_translate(0.5, [1, 2, 3]))
        v.metadata["m"] = [1]
        v.points
        return v

    def voxel_rle():
        from trimesh.voxel import encoding as E

        d = rnp.random.default_rng(3).random((3, 2, 2)) > 0.4
        return trimesh.voxel.VoxelGrid(E.BinaryRunLengthEncoding.from_dense(d.reshape(-1)).reshape(d.shape))

    def voxel_transposed():
        # a lazily transposed encoding (non-dense base) with a 3-cycle permutation
        from trimesh.voxel import encoding as E

        d = rnp.random.default_rng(4).random((2, 3, 4)) > 0.5
        base = E.SparseBinaryEncoding(rnp.column_stack(rnp.nonzero(d)), shape=d.shape)
        return trimesh.voxel.VoxelGrid(base.transpose((1, 2, 0)), transform=tf.scale_and_translate(0.5, [1, 2, 3]))

    return [("VoxelGrid(sparse, transposed 1-2-0)", voxel_transposed), ("Box", box_p), ("Cylinder(sections=7)", cyl_p), ("Sphere(subdivisions=1)", sphere_p), ("Capsule(sections=9)", capsule_p), ("Extrusion", extrusion_p), ("Box+overrides", prim_overridden), ("Path2D", path2d), ("Path3D", path3d), ("PointCloud", cloud), ("Scene(nested)", scene), ("VoxelGrid(dense)", voxel), ("VoxelGrid(rle)", voxel_rle)]


def _routes(obj):
    import trimesh

    r = [("copy()", lambda o: o.copy()), ("copy.deepcopy", lambda o: pycopy.deepcopy(o)), ("copy.copy", lambda o: pycopy.copy(o))]
    if type(obj) is trimesh.Trimesh:
        r.append(("copy(include_cache=True)", lambda o: o.copy(include_cache=True)))
    return r


# ----------------------------------------------------------------------------- abstract state + reported values


def abstract_state(o):
    """the fields the statement lists: geometry, parameters, visuals, metadata (+ graph)"""
    import trimesh

    st = {"type": type(o).__name__}

    def arr(x):
        return None if x is None else rnp.array(x).tolist()

    if isinstance(o, trimesh.Scene):
        st["geometry"] = {k: abstract_state(g) for k, g in o.geometry.items()}
        st["edges"] = sorted((str(a), str(b), rnp.round(rnp.array(d.get("matrix", rnp.eye(4))), 9).tolist(), d.get("geometry")) for a, b, d in o.graph.to_edgelist())
        st["base"] = o.graph.base_frame
        st["metadata"] = repr(sorted(o.metadata.items(), key=str))
        return st
    if isinstance(o, trimesh.voxel.VoxelGrid):
        st["dense"] = arr(o.encoding.dense)
        st["transform"] = arr(o.transform)
        st["metadata"] = repr(sorted(o.metadata.items(), key=str))
        return st
    if hasattr(o, "vertices"):
        st["vertices"] = arr(o.vertices)
    if hasattr(o, "faces"):
        st["faces"] = arr(o.faces)
    if hasattr(o, "entities"):
        st["entities"] = [(type(e).__name__, arr(e.points), bool(getattr(e, "closed", False))) for e in o.entities]
    if isinstance(o, trimesh.primitives.Primitive):
        st["primitive"] = {k: (arr(v) if hasattr(v, "shape") else repr(v)) for k, v in o.primitive._data.data.items()}
        for k in ("center_mass", "density"):
            if k in o._data.data:
                st["override:" + k] = arr(o._data.data[k]) if hasattr(o._data.data[k], "shape") else o._data.data[k]
    elif isinstance(o, trimesh.Trimesh):
        for k in ("center_mass", "density"):
            if k in o._data.data:
                st["override:" + k] = arr(o._data.data[k]) if hasattr(o._data.data[k], "shape") else o._data.data[k]
        st["face_attributes"] = {k: arr(v) for k, v in o.face_attributes.items()}
        st["vertex_attributes"] = {k: arr(v) for k, v in o.vertex_attributes.items()}
    if hasattr(o, "visual") and o.visual is not None:
        v = o.visual
        st["visual.kind"] = v.kind
        if v.kind in ("face", "vertex"):
            st["visual.colors"] = arr(v.face_colors if v.kind == "face" else v.vertex_colors)
        elif v.kind is None and hasattr(v, "vertex_colors"):
            st["visual.colors"] = arr(v.vertex_colors)
        elif v.kind == "texture":
            st["visual.uv"] = arr(v.uv)
            img = getattr(v.material, "image", None)
            st["visual.image"] = None if img is None else (img.size, img.mode, img.tobytes().hex()[:64])
    if hasattr(o, "colors") and not isinstance(o, trimesh.Trimesh):
        st["colors"] = arr(o.colors)
    st["metadata"] = repr(sorted(getattr(o, "metadata", {}).items(), key=str))
    return st


def reported(o):
    """a sample of the values the object reports (computed on demand)"""
    import trimesh

    r = {}

    def t(name, f):
        try:
            v = f()
            r[name] = rnp.round(rnp.asarray(v, dtype=float), 9).tolist() if not isinstance(v, (str, type(None), bool)) else v
        except Exception as ex:  # noqa: BLE001
            r[name] = "EXC " + type(ex).__name__

    t("bounds", lambda: o.bounds)
    if isinstance(o, trimesh.Trimesh):
        t("area", lambda: o.area)
        t("volume", lambda: o.volume)
        t("center_mass", lambda: o.center_mass)
        t("face_normals", lambda: o.face_normals)
        t("euler", lambda: o.euler_number)
        t("hull_volume", lambda: o.convex_hull.volume)
        t("hull_bounds", lambda: o.convex_hull.bounds)
        t("neighbors", lambda: [len(n) for n in o.vertex_neighbors])
        t("graph_edges", lambda: o.vertex_adjacency_graph.number_of_edges())
        t("nearest", lambda: o.nearest.on_surface([[9.0, 9.0, 9.0]])[0])
        t("colors", lambda: o.visual.face_colors if o.visual.kind != "texture" else o.visual.uv)
    elif isinstance(o, trimesh.Scene):
        t("extents", lambda: o.extents)
        t("area", lambda: o.area)
        t("T(c)", lambda: o.graph.get(o.graph.nodes_geometry[-1])[0])
    elif isinstance(o, trimesh.voxel.VoxelGrid):
        t("filled", lambda: o.filled_count)
        t("points", lambda: o.points)
    elif hasattr(o, "entities"):
        t("length", lambda: o.length)
        if o.vertices.shape[1] == 2:
            t("area", lambda: o.area)
    elif isinstance(o, trimesh.PointCloud):
        t("centroid", lambda: o.centroid)
        t("colors", lambda: o.colors)
    r["metadata"] = repr(sorted(getattr(o, "metadata", {}).items(), key=str))
    return r


def edits(o):
    """(name, fn) edits: in place and through the API"""
    import trimesh
    import trimesh.transformations as tf

    M = tf.rotation_matrix(0.5, [0, 1, 0], [1, 1, 1]) @ tf.translation_matrix([3.0, -1.0, 2.0])
    es = []
    if isinstance(o, trimesh.Scene):
        es += [("geometry-vertices-in-place", lambda s: next(iter(s.geometry.values())).vertices.__imul__(2.0)), ("graph-update", lambda s: s.graph.update(frame_to=s.graph.nodes_geometry[0], matrix=tf.translation_matrix([9.0, 9, 9]))), ("apply_transform", lambda s: s.apply_transform(M)), ("metadata-nested-append", lambda s: s.metadata.get("m", {}).get("x", []).append(99) if isinstance(s.metadata.get("m"), dict) else None)]
        return es
    if isinstance(o, trimesh.voxel.VoxelGrid):
        es += [("apply_transform", lambda v: v.apply_transform(tf.scale_matrix(2.0))), ("encoding-data-in-place", lambda v: _flip_dense(v)), ("metadata-append", lambda v: v.metadata.get("m", []).append(5) if isinstance(v.metadata.get("m"), list) else None)]
        return es
    es.append(("apply_transform", lambda g: g.apply_transform(M if rnp.asarray(g.vertices).shape[1] == 3 else tf.planar_matrix(offset=[1.0, 2.0], theta=0.3))))
    if isinstance(o, trimesh.primitives.Primitive):
        es.append(("primitive-parameter", lambda p: _bump_param(p)))
        es.append(("metadata-nested", lambda p: p.metadata.get("k", {}).get("deep", []).append(7) if isinstance(p.metadata.get("k"), dict) else None))
        es.append(("center_mass-override-in-place", lambda p: p._data.data["center_mass"].__setitem__(0, 55.0) if "center_mass" in p._data.data else None))
        return es
    es.append(("vertices-in-place", lambda g: g.vertices.__setitem__(0, rnp.asarray(g.vertices[0]) + 7.0)))
    if isinstance(o, trimesh.Trimesh):
        es += [("faces-in-place", lambda m: m.faces.__setitem__(0, m.faces[0][::-1].copy())), ("update_faces", lambda m: m.update_faces(rnp.arange(len(m.faces)) > 1)), ("invert", lambda m: m.invert()), ("colours-in-place", lambda m: (m.visual.face_colors.__setitem__((0, 0), 77) if m.visual.kind in ("face", "vertex") else (m.visual.uv.__setitem__((0, 0), 0.777) if m.visual.kind == "texture" else None))), ("metadata-nested", lambda m: m.metadata.get("tag", {}).get("nested", []).append(4) if isinstance(m.metadata.get("tag"), dict) else m.metadata.__setitem__("new", 1)), ("attribute-in-place", lambda m: m.face_attributes["fid"].__setitem__(0, 999) if "fid" in m.face_attributes else None), ("hull-in-place", lambda m: m.convex_hull.vertices.__imul__(3.0) if "convex_hull" in m._cache.cache else None), ("cached-neighbours-in-place", lambda m: m._cache.cache["vertex_neighbors"][0].append(12345) if "vertex_neighbors" in m._cache.cache else None), ("density", lambda m: setattr(m, "density", 9.0))]
    elif hasattr(o, "entities"):
        es += [("entity-points-in-place", lambda p: p.entities[0].points.__setitem__(0, p.entities[0].points[-1]) if len(p.entities[0].points) > 2 else None), ("metadata-append", lambda p: p.metadata.get("m", []).append(3) if isinstance(p.metadata.get("m"), list) else None)]
    elif isinstance(o, trimesh.PointCloud):
        es += [("colors-in-place", lambda c: c.colors.__setitem__((0, 0), 200)), ("metadata-nested", lambda c: c.metadata.get("m", {}).get("a", []).append(2) if isinstance(c.metadata.get("m"), dict) else None)]
    return es


def _flip_dense(v):
    d = v.encoding.data if hasattr(v.encoding, "data") else None
    if isinstance(d, rnp.ndarray) and d.flags.writeable and d.size:
        d.flat[0] = not d.flat[0] if d.dtype == bool else d.flat[0] + 1


def _bump_param(p):
    pr = p.primitive
    for k in ("extents", "radius", "height"):
        if hasattr(pr, k):
            setattr(pr, k, rnp.asarray(getattr(pr, k)) * 1.5)
            return


@bounded("C17", name="real-code:copies-faithful-and-separate", note="18 objects/states x 3-4 copy routes: abstract state equal; no mutable object reachable from both (every reference path); edits of either side leave the other side's reported values - read before and after - unchanged")
def copies(tier, seed):
    import warnings

    cells = {}
    cases = 0

    def fail(key, obj, route, detail=""):
        c = cells.setdefault(key, {"what": key, "cell": key, "object": obj, "route": route, "detail": str(detail)[:300], "count": 0})
        c["count"] += 1

    fam = [("Trimesh:" + n, mk) for n, mk in _mesh_states()] + _other_states()
    for oname, mk in fam:
        kind = oname.split(":")[0].split("(")[0].split("+")[0]
        probe = mk()
        for rname, route in _routes(probe):
            with warnings.catch_warnings():
                warnings.simplefilter("ignore")
                cases += 1
                src = mk()
                try:
                    cp = route(src)
                except Exception as ex:  # noqa: BLE001
                    fail("%s:%s:raised %s" % (kind, rname, type(ex).__name__), oname, rname, ex)
                    continue
                # faithful
                try:
                    a, b = abstract_state(src), abstract_state(cp)
                    if a != b:
                        diff = [k for k in a if a.get(k) != b.get(k)] + [k for k in b if k not in a]
                        for k in diff[:4]:
                            fail("%s:%s:not-faithful:%s" % (kind, rname, k.split(".")[0] if k.startswith("visual") else k), oname, rname, "%r vs %r" % (str(a.get(k))[:80], str(b.get(k))[:80]))
                except Exception as ex:  # noqa: BLE001
                    fail("%s:%s:state-unreadable %s" % (kind, rname, type(ex).__name__), oname, rname, ex)
                # separate: every reference path
                try:
                    fields = {}
                    for tn, pa, pb in shared_mutables(src, cp):
                        fields.setdefault(_field_of(pa), []).append("%s at %s" % (tn, ".".join(pa)))
                    for fld, items in sorted(fields.items()):
                        fail("%s:%s:shares-mutable:%s" % (kind, rname, fld), oname, rname, "; ".join(sorted(items)[:4]))
                except Exception as ex:  # noqa: BLE001
                    fail("%s:%s:reach-failed %s" % (kind, rname, type(ex).__name__), oname, rname, ex)
                # frame: edits on one side, reported values of the other side
                for ename, edit in edits(src):
                    for side in ("edit-copy", "edit-source"):
                        cases += 1
                        s2 = mk()
                        try:
                            c2 = route(s2)
                            victim, target = (s2, c2) if side == "edit-copy" else (c2, s2)
                            before = reported(victim)
                            edit(target)
                            after = reported(victim)
                            if before != after:
                                ch = [k for k in before if before[k] != after.get(k)]
                                fail("%s:%s:%s:%s-changes-the-other:%s" % (kind, rname, side, ename, ch[0]), oname, rname, ch)
                        except Exception as ex:  # noqa: BLE001
                            fail("%s:%s:%s:%s raised %s" % (kind, rname, side, ename, type(ex).__name__), oname, rname, ex)
    fails = sorted(cells.values(), key=lambda c: c["cell"])
    r = common.result(cases, cases, fails, "%d objects/states x copy(), copy.copy, copy.deepcopy (+ include_cache) x (state equality, reachability over all reference paths, up to 10 edits on either side)" % len(fam), exhaustive=True)
    r["failures"] = fails
    return r


# ----------------------------------------------------------------------------- (a) copy-route inventory on the AST

COPY_ROUTINES = {
    "trimesh/base.py": ["Trimesh.copy", "Trimesh.__copy__", "Trimesh.__deepcopy__"],
    "trimesh/primitives.py": ["Primitive.copy"],
    "trimesh/path/path.py": ["Path.copy"],
    "trimesh/path/entities.py": ["Entity.copy"],
    "trimesh/points.py": ["PointCloud.copy"],
    "trimesh/scene/scene.py": ["Scene.copy"],
    "trimesh/scene/transforms.py": ["SceneGraph.copy"],
    "trimesh/voxel/base.py": ["VoxelGrid.copy"],
    "trimesh/voxel/transforms.py": ["Transform.copy"],
    "trimesh/visual/color.py": ["ColorVisuals.copy"],
    "trimesh/visual/texture.py": ["TextureVisuals.copy"],
}


@protocol("C17", name="copy-routines-inventory", note="every copy routine named by the statement exists in the current source, returns a new object of its own class and does not return self or a bare attribute of self")
def inventory(tier, seed, open_ids):
    obls = []
    for rel, names in COPY_ROUTINES.items():
        path = os.path.join(mirror.REPO, rel)
        try:
            tree = ast.parse(open(path).read())
        except Exception as ex:  # noqa: BLE001
            obls.append({"id": "C17/%s/parse" % rel, "status": "undecided", "backend": "ast", "detail": repr(ex)})
            continue
        classes = {n.name: n for n in ast.walk(tree) if isinstance(n, ast.ClassDef)}
        for qn in names:
            cls, meth = qn.split(".")
            oid = "C17/%s:%s/returns-a-new-object" % (rel, qn)
            fn = next((f for f in classes.get(cls, ast.ClassDef(name="", bases=[], keywords=[], body=[], decorator_list=[])).body if isinstance(f, ast.FunctionDef) and f.name == meth), None)
            if fn is None:
                obls.append({"id": oid, "status": "violated", "backend": "ast", "detail": "copy routine missing", "witness": {"routine": qn}, "replayed": False})
                continue
            rets = [r for r in ast.walk(fn) if isinstance(r, ast.Return) and r.value is not None]
            bad = [ast.unparse(r.value) for r in rets if (isinstance(r.value, ast.Name) and r.value.id == "self") or (isinstance(r.value, ast.Attribute) and isinstance(r.value.value, ast.Name) and r.value.value.id == "self")]
            ok = bool(rets) and not bad
            obls.append({"id": oid, "status": "discharged" if ok else "violated", "backend": "ast", "detail": "returns: %s" % [ast.unparse(r.value)[:60] for r in rets], "witness": {"routine": qn, "returns": bad}, "replayed": False})
    return {"obligations": obls, "trusted": ["python ast"], "functions": ["trimesh.%s" % n for ns in COPY_ROUTINES.values() for n in ns]}
