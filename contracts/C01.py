"""
C01 — Derived mesh values never go stale (cache is history-independent).

(a) Protocol lemma — the real `caching.Cache` class and `cache_decorator` (mirrored source)
    are run from EVERY abstract pre-state satisfying the invariant
        INV: lock = 0 and id_current = h(D)  =>  every entry cache[k] = Spec_k(D)
    (entries carry the data version they were computed from; h is injective on versions),
    for every method, with and without an intervening data change.  The abstraction is
    finite, so the enumeration is complete: every protocol operation preserves INV and
    every read returns Spec_k(D_current).  The operations that can keep or install an
    entry without a dump are exactly the bypass primitives.
(b) Bypass-site inventory — an AST scan of the package for the bypass primitives
    (`.cache[...]` stores, `_cache.update`, `_cache.id_set`, `with ..._cache`,
    `clear(exclude=`) must return exactly the contracted sites; a new site is a failed
    obligation.
(c) Dependency/purity of every @cache_decorator property by effect inference over the AST:
    reads only tracked data, other cached/derived properties and immutable configuration.
(d) Per bypass site and surviving key: bounded transport check on real meshes (history
    template: read -> mutate -> read -> compare with a freshly built mesh).
"""
import ast
import hashlib
import itertools
import os

import numpy as np

from pyvc import mirror
from pyvc.engine import bounded, protocol

META = {
    "level": "proof",
    "assumptions": [
        "C02 (the data hash reflects the bytes) and (T5) hash collision freedom: the protocol lemma takes `id_function` as an injective function of the data version",
        "the transport obligations (d) — that a value deliberately kept across a mutation equals the freshly computed one — are bounded: fixed mesh family x mutator family x pre-read sets on the real classes",
        "effect inference (c) assumes no setattr/getattr with computed names and no exec on the analysed objects (E)",
    ],
    "trusted_base": ["abstract-state enumeration over the mirrored Cache source (pyvc protocol runner)", "Python ast for the inventory and effect inference"],
}

# ----------------------------------------------------------------------------- (a) protocol lemma


class _Val:
    """a cached value tagged with the key it is for and the data version it was computed from"""

    def __init__(self, key, version):
        self.key, self.version = key, version

    def __repr__(self):
        return "Spec_%s(D%s)" % (self.key, self.version)


def _mk_cache(caching, world):
    return caching.Cache(id_function=lambda: ("h", world["version"]))


def _inv(cache, world):
    """INV at lock 0"""
    if cache._lock != 0:
        return True
    if cache.id_current != ("h", world["version"]):
        return True
    return all(isinstance(v, _Val) and v.version == world["version"] and v.key == k for k, v in cache.cache.items())


def _prestates(caching):
    """all abstract states satisfying INV: id_current in {current, old, None}; cache content
    a subset of {a: valid/stale, b: valid/stale} consistent with INV"""
    out = []
    for idc in ("cur", "old", None):
        for content in itertools.product((None, "valid", "stale"), repeat=2):
            if idc == "cur" and "stale" in content:
                continue  # violates INV
            world = {"version": 1}
            c = _mk_cache(caching, world)
            c.id_current = {"cur": ("h", 1), "old": ("h", 0), None: None}[idc]
            for k, st in zip("ab", content):
                if st == "valid":
                    c.cache[k] = _Val(k, 1)
                elif st == "stale":
                    c.cache[k] = _Val(k, 0)
            out.append((idc, content, c, world))
    return out


@protocol("C01", name="cache-protocol-lemma")
def cache_protocol(tier, seed, open_ids):
    caching = mirror.load("trimesh.caching")
    sha = mirror.source_sha.get("trimesh.caching", "")
    obls = []

    def ob(name, ok, detail):
        obls.append({"id": "C01/trimesh.caching.%s" % name, "status": "discharged" if ok else "violated", "backend": "abstract-state-enumeration", "detail": detail, "witness": {"operation": name, "detail": detail}, "replayed": False})

    class Owner:
        """object with a cached property, as Trimesh uses it"""

        def __init__(self, cache, world):
            self._cache = cache
            self._world = world
            self.calls = 0

    def prop(self):
        self.calls += 1
        return _Val("a", self._world["version"])

    prop.__name__ = "a"
    Owner.a = caching.cache_decorator(prop)

    ops = {
        "Cache.__getitem__": lambda c, w: c["a"],
        "Cache.__contains__": lambda c, w: ("a" in c),
        "Cache.__len__": lambda c, w: len(c),
        "Cache.verify": lambda c, w: c.verify(),
        "Cache.__setitem__": lambda c, w: c.__setitem__("a", _Val("a", w["version"])),
        "Cache.delete": lambda c, w: c.delete("a"),
        "Cache.clear": lambda c, w: c.clear(),
        "cache_decorator.get_cached": lambda c, w: Owner(c, w).a,
    }
    for opname, op in ops.items():
        bad = []
        n = 0
        for change in (False, True):
            for idc, content, c, world in _prestates(caching):
                n += 1
                if change:
                    world["version"] = 2  # data edited since the state was reached
                r = op(c, world)
                if opname == "Cache.delete" or opname == "Cache.clear":
                    # pure removals: may not add entries; INV is preserved trivially only if
                    # no stale entry can be exposed later: they do not touch id_current
                    ok = set(c.cache) <= {"a", "b"} and all(isinstance(v, _Val) for v in c.cache.values())
                    ok = ok and ("a" not in c.cache)
                    if opname == "Cache.clear":
                        ok = ok and not c.cache
                else:
                    ok = _inv(c, world) and c.id_current == ("h", world["version"])
                if isinstance(r, _Val):
                    ok = ok and r.version == world["version"] and r.key == "a"
                if opname == "Cache.__contains__" and r is True:
                    ok = ok and c.cache["a"].version == world["version"]
                if not ok:
                    bad.append((idc, content, change, repr(r), dict(c.cache), c.id_current))
        ob(opname + "/preserves-INV-and-returns-current", not bad, "%d abstract (pre-state, data-changed?) cases; failing: %r" % (n, bad[:2]))
    # the bypass primitives: shown NOT to be safe in general (so every use is a site obligation)
    prims = {
        "Cache.id_set": (True, lambda c, w: c.id_set()),
        "Cache.__exit__": (True, lambda c, w: (c.__enter__(), c.__exit__())),
        "Cache.update": (True, lambda c, w: c.update({})),
        "direct .cache store": (False, lambda c, w: c.cache.__setitem__("b", _Val("b", 0))),
    }
    for pname, (change, op) in prims.items():
        exposes = False
        for idc, content, c, world in _prestates(caching):
            if change:
                world["version"] = 2
            op(c, world)
            if not _inv(c, world):
                exposes = True
        ob(pname + "/is-a-bypass-primitive(classified)", exposes, "can leave an entry of another data version under the current id: every use must be a contracted site")
    # lock: reads inside a lock skip verification (by design) — classified
    idc, content, c, world = _prestates(caching)[1]
    c.cache["a"] = _Val("a", 1)
    c.id_current = ("h", 1)
    c.__enter__()
    world["version"] = 2
    r = c["a"]
    ob("Cache.__enter__/lock-suspends-verification(classified)", isinstance(r, _Val) and r.version == 1, "inside `with cache:` a read returns the stored entry without checking the id")
    return {"obligations": obls, "trusted": ["caching.py sha256 %s" % sha[:16]], "functions": ["trimesh.caching.Cache", "trimesh.caching.cache_decorator"]}


# ----------------------------------------------------------------------------- (b) inventory


# function (file:qualname) -> kinds of bypass primitive it is contracted to contain
CONTRACTED_SITES = {'trimesh/base.py:Trimesh.__init__': {'update', 'setter:face_normals', 'setter:vertex_normals'},
 'trimesh/base.py:Trimesh.apply_transform': {'direct-store', 'id_set', 'clear-exclude'},
 'trimesh/base.py:Trimesh.body_count': {'store:vertices_component_label'},
 'trimesh/base.py:Trimesh.copy': {'direct-store'},
 'trimesh/base.py:Trimesh.edges': {'store:edges_face'},
 'trimesh/base.py:Trimesh.edges_unique': {'store:edges_unique_inverse', 'store:edges_unique_idx'},
 'trimesh/base.py:Trimesh.eval_cached': {'store:key'},
 'trimesh/base.py:Trimesh.face_adjacency': {'store:face_adjacency_edges'},
 'trimesh/base.py:Trimesh.face_adjacency_radius': {'store:face_adjacency_span'},
 'trimesh/base.py:Trimesh.face_normals': {'store:face_normals'},
 'trimesh/base.py:Trimesh.facets_normal': {'store:facets_origin'},
 'trimesh/base.py:Trimesh.invert': {'lock', 'setter:face_normals', 'setter:vertex_normals', 'clear-exclude'},
 'trimesh/base.py:Trimesh.is_watertight': {'store:is_winding_consistent'},
 'trimesh/base.py:Trimesh.principal_inertia_components': {'store:principal_inertia_vectors'},
 'trimesh/base.py:Trimesh.process': {'lock', 'clear-exclude'},
 'trimesh/base.py:Trimesh.symmetry': {'store:symmetry_section', 'store:symmetry_axis'},
 'trimesh/base.py:Trimesh.unmerge_vertices': {'clear-exclude'},
 'trimesh/base.py:Trimesh.update_faces': {'setter:face_normals'},
 'trimesh/base.py:Trimesh.update_vertices': {'setter:vertex_normals'},
 'trimesh/base.py:Trimesh.vertex_normals': {'store:vertex_normals'},
 'trimesh/comparison.py:identifier_simple': {'lock'},
 'trimesh/path/path.py:Path.apply_transform': {'direct-store', 'id_set'},
 'trimesh/path/path.py:Path.copy': {'id_set'},
 'trimesh/path/path.py:Path.process': {'lock'},
 'trimesh/path/path.py:Path2D.enclosure': {'lock'},
 'trimesh/path/path.py:Path2D.enclosure_directed': {'store:root'},
 'trimesh/path/simplify.py:simplify_basic': {'id_set'},
 'trimesh/path/traversal.py:split': {'lock', 'update', 'id_set'},
 'trimesh/primitives.py:Box._create_mesh': {'direct-store', 'store:vertices', 'store:faces', 'store:face_normals'},
 'trimesh/primitives.py:Capsule._create_mesh': {'store:vertices', 'store:faces', 'store:face_normals'},
 'trimesh/primitives.py:Cylinder._create_mesh': {'store:vertices', 'store:faces', 'store:face_normals'},
 'trimesh/primitives.py:Extrusion._create_mesh': {'store:vertices', 'store:faces'},
 'trimesh/primitives.py:Primitive.face_normals': {'store:face_normals'},
 'trimesh/primitives.py:Sphere._create_mesh': {'store:vertices', 'store:faces', 'store:face_normals'},
 'trimesh/repair.py:fill_holes': {'setter:face_normals'},
 'trimesh/repair.py:fix_inversion': {'setter:face_normals'},
 'trimesh/scene/scene.py:Scene.triangles': {'store:triangles_node'},
 'trimesh/scene/transforms.py:EnforcedForest.children': {'store:children'},
 'trimesh/scene/transforms.py:EnforcedForest.shortest_path': {'store:(u, v)'},
 'trimesh/scene/transforms.py:SceneGraph.get': {'store:key'},
 'trimesh/visual/color.py:ColorVisuals._get_colors': {'store:key_hash', 'store:key_colors'}}


def _qualname_map(tree):
    out = {}

    def walk(node, prefix):
        for ch in ast.iter_child_nodes(node):
            if isinstance(ch, (ast.FunctionDef, ast.AsyncFunctionDef, ast.ClassDef)):
                q = prefix + ch.name
                for sub in ast.walk(ch):
                    out.setdefault(id(sub), q) if False else None
                walk(ch, q + ".")
                for sub in ast.walk(ch):
                    if id(sub) not in out:
                        out[id(sub)] = q
            else:
                walk(ch, prefix)

    walk(tree, "")
    return out


def scan_bypass_sites():
    """every syntactic use of a bypass primitive in the package: {site: {kinds}}"""
    root = os.path.join(mirror.REPO, "trimesh")
    sites = {}
    for dirpath, _, files in os.walk(root):
        for fn in files:
            if not fn.endswith(".py"):
                continue
            path = os.path.join(dirpath, fn)
            rel = os.path.relpath(path, mirror.REPO)
            if rel.startswith("trimesh/viewer") or rel.startswith("trimesh/resources"):
                continue
            src = open(path).read()
            if "cache" not in src:
                continue
            tree = ast.parse(src)
            qn = _qualname_map(tree)
            for node in ast.walk(tree):
                kind = None
                txt = None
                if isinstance(node, (ast.Assign, ast.AugAssign)):
                    tgts = node.targets if isinstance(node, ast.Assign) else [node.target]
                    flat = []
                    for t in tgts:
                        flat += list(t.elts) if isinstance(t, ast.Tuple) else [t]
                    for t in flat:
                        if isinstance(t, ast.Subscript) and isinstance(t.value, ast.Attribute) and t.value.attr == "cache" and "cache" in ast.unparse(t.value.value):
                            kind = "direct-store"
                        elif isinstance(t, ast.Subscript) and isinstance(t.value, ast.Attribute) and t.value.attr == "_cache":
                            # protocol store `x._cache[key] = value`: verified first, but the
                            # value is CLAIMED for the current data -> listed with its key
                            key = ast.unparse(t.slice).strip("'\"")
                            kind = "store:" + key
                        elif isinstance(t, ast.Attribute) and t.attr in ("face_normals", "vertex_normals") and not isinstance(node, ast.AugAssign):
                            # the normals setters store a claimed value into the cache
                            kind = "setter:" + t.attr
                elif isinstance(node, ast.Call) and isinstance(node.func, ast.Attribute):
                    recv = ast.unparse(node.func.value)
                    if "cache" in recv.lower():
                        if node.func.attr == "update" and recv.endswith("_cache"):
                            kind = "update"
                        elif node.func.attr == "update" and recv.endswith("_cache.cache"):
                            kind = "direct-store"
                        elif node.func.attr == "id_set":
                            kind = "id_set"
                        elif node.func.attr == "clear" and any(k.arg == "exclude" for k in node.keywords) or (node.func.attr == "clear" and node.args and recv.endswith("_cache")):
                            kind = "clear-exclude"
                elif isinstance(node, ast.With):
                    for it in node.items:
                        if "_cache" in ast.unparse(it.context_expr) and not isinstance(it.context_expr, ast.Call):
                            kind = "lock"
                if kind:
                    q = qn.get(id(node), "<module>")
                    if rel == "trimesh/caching.py":
                        continue  # the protocol's own implementation
                    sites.setdefault("%s:%s" % (rel, q), set()).add(kind)
    return sites


@protocol("C01", name="bypass-site-inventory")
def inventory(tier, seed, open_ids):
    sites = scan_bypass_sites()
    obls = []
    contracted = dict(CONTRACTED_SITES)
    contracted.update(OTHER_CONTRACTED_SITES)
    for site, kinds in sorted(sites.items()):
        want = contracted.get(site)
        oid = "C01/%s/bypass-accounted" % site
        if want is None:
            obls.append({"id": "C01/%s/unaccounted-bypass" % site, "status": "violated", "backend": "ast-inventory", "detail": "uses bypass primitive(s) %s but has no site contract" % sorted(kinds), "witness": {"site": site, "kinds": sorted(kinds)}, "replayed": False})
        elif not kinds <= want:
            obls.append({"id": "C01/%s/unaccounted-bypass" % site, "status": "violated", "backend": "ast-inventory", "detail": "uses %s, contracted for %s" % (sorted(kinds), sorted(want)), "witness": {"site": site, "kinds": sorted(kinds - want)}, "replayed": False})
        else:
            obls.append({"id": oid, "status": "discharged", "backend": "ast-inventory", "detail": "primitives %s within the site contract %s" % (sorted(kinds), sorted(want))})
    return {"obligations": obls, "trusted": [], "functions": sorted(sites)}


# sites outside Trimesh (paths, primitives, scene, ...) — filled from the scan of the
# unchanged tree; each has a transport obligation in its own property's bounded tier
OTHER_CONTRACTED_SITES = {}


# ----------------------------------------------------------------------------- (d) history template on the real classes


def _cached_names():
    path = os.path.join(mirror.REPO, "trimesh", "base.py")
    tree = ast.parse(open(path).read())
    cls = next(n for n in tree.body if isinstance(n, ast.ClassDef) and n.name == "Trimesh")
    names = []
    for n in cls.body:
        if isinstance(n, ast.FunctionDef):
            decs = [ast.unparse(d) for d in n.decorator_list]
            if any("cache_decorator" in d for d in decs) or "property" in decs:
                names.append(n.name)
    return names


SKIP_KEYS = {
    "mutable", "visual", "smooth_shaded", "is_empty",  # not derived geometry
    "kdtree", "triangles_tree", "edges_sorted_tree", "face_adjacency_edges_tree", "face_adjacency_tree",  # query structures (C12)
    "identifier", "identifier_hash",  # compared separately (rounded hash of floats)
}  # fmt: skip


def same(a, b, rtol=1e-7, atol=1e-9):
    """structural comparison of two derived values"""
    import networkx as nx
    import scipy.sparse as sp
    import trimesh

    if a is None or b is None:
        return a is None and b is None
    if isinstance(a, trimesh.Trimesh):
        from contracts.common import tri_multiset

        return isinstance(b, trimesh.Trimesh) and tri_multiset(a.triangles, 6) == tri_multiset(b.triangles, 6)
    if isinstance(a, nx.Graph):
        return isinstance(b, nx.Graph) and sorted(map(sorted, a.edges())) == sorted(map(sorted, b.edges())) and sorted(a.nodes()) == sorted(b.nodes())
    if sp.issparse(a):
        return sp.issparse(b) and a.shape == b.shape and (abs(a - b)).sum() <= atol
    if isinstance(a, dict):
        return isinstance(b, dict) and sorted(a) == sorted(b) and all(same(a[k], b[k], rtol, atol) for k in a)
    if hasattr(a, "__dataclass_fields__"):
        return all(same(getattr(a, f), getattr(b, f), rtol, atol) for f in a.__dataclass_fields__)
    if isinstance(a, (list, tuple)) and (len(a) == 0 or not np.isscalar(a[0])):
        if not isinstance(b, (list, tuple)) or len(a) != len(b):
            # arrays of ragged content come back as object arrays sometimes
            try:
                return len(a) == len(b) and all(same(x, y, rtol, atol) for x, y in zip(a, b))
            except TypeError:
                return False
        return all(same(x, y, rtol, atol) for x, y in zip(a, b))
    try:
        A = np.asarray(a)
        B = np.asarray(b)
    except Exception:
        return a == b
    if A.dtype == object or B.dtype == object:
        if A.shape != B.shape:
            return False
        return all(same(x, y, rtol, atol) for x, y in zip(A.ravel().tolist(), B.ravel().tolist()))
    if A.shape != B.shape:
        return False
    if A.dtype.kind in "biu" and B.dtype.kind in "biu":
        return bool(np.array_equal(A, B))
    if A.dtype.kind in "fc" or B.dtype.kind in "fc":
        A = A.astype(float)
        B = B.astype(float)
        fin = np.isfinite(A) & np.isfinite(B)
        if not np.array_equal(np.isnan(A), np.isnan(B)):
            return False
        scale = max(1.0, float(np.abs(A[fin]).max()) if fin.any() else 1.0)
        return bool(np.all(np.abs(A[fin] - B[fin]) <= atol + rtol * scale)) and bool(np.array_equal(A[~fin & ~np.isnan(A)], B[~fin & ~np.isnan(B)]))
    return bool(np.array_equal(A, B))


def fresh_of(m):
    """the mesh 'freshly built from the same arrays' with the same explicit overrides"""
    import trimesh

    f = trimesh.Trimesh(vertices=np.array(m.vertices, copy=True), faces=np.array(m.faces, copy=True), process=False)
    if "center_mass" in m._data:
        f.center_mass = np.array(m._data["center_mass"], copy=True)
    if "density" in m._data:
        f.density = float(m._data["density"])
    return f


def _donor(m, which):
    """the tracked array of ANOTHER mesh whose hash was already read (clean flag): assigning
    it replaces the store entry by an object that does not look modified"""
    import trimesh

    if which == "vertices":
        d = trimesh.Trimesh(vertices=np.array(m.vertices) * 1.5 + 0.25, faces=np.array(m.faces), process=False)
    else:
        d = trimesh.Trimesh(vertices=np.array(m.vertices), faces=np.ascontiguousarray(np.roll(np.array(m.faces), 1, axis=1)[::-1]), process=False)
    d.area, d.bounds, hash(d)  # the donor was queried: its arrays' hashes are clean
    return d.vertices if which == "vertices" else d.faces


def mutators(tier):
    import trimesh
    from trimesh import transformations as tf

    from contracts.common import matrices

    out = []
    for name, M in matrices(tier):
        if name in ("identity", "tiny_rotation"):  # tiny_rotation: inside the documented 1e-6 has_rotation slack (see C04)
            continue
        out.append(("apply_transform[%s]" % name, lambda m, M=M: m.apply_transform(M)))
    out += [
        ("apply_translation", lambda m: m.apply_translation([1.0, -2.0, 0.5])),
        ("apply_scale", lambda m: m.apply_scale(1.5)),
        ("apply_scale[xyz]", lambda m: m.apply_scale([1.0, 2.0, 3.0])),
        ("invert", lambda m: m.invert()),
        ("update_faces[drop-first]", lambda m: m.update_faces(np.arange(len(m.faces)) != 0)),
        ("update_faces[int-mask]", lambda m: m.update_faces(np.arange(len(m.faces))[::-1][: max(1, len(m.faces) - 1)])),
        ("update_vertices[drop-last]", lambda m: m.update_vertices(np.arange(len(m.vertices)) != len(m.vertices) - 1)),
        ("remove_unreferenced_vertices", lambda m: m.remove_unreferenced_vertices()),
        ("merge_vertices", lambda m: m.merge_vertices()),
        ("unmerge_vertices", lambda m: m.unmerge_vertices()),
        ("unique_faces", lambda m: m.update_faces(m.unique_faces())),
        ("nondegenerate_faces", lambda m: m.update_faces(m.nondegenerate_faces())),
        ("remove_infinite_values", lambda m: m.remove_infinite_values()),
        ("fix_normals", lambda m: m.fix_normals()),
        ("fill_holes", lambda m: m.fill_holes()),
        ("process", lambda m: m.process()),
        ("vertices[0]+=1", lambda m: m.vertices.__setitem__(0, m.vertices[0] + 1.0)),
        ("vertices*=2", lambda m: m.vertices.__imul__(2.0)),
        ("vertices=2v", lambda m: setattr(m, "vertices", np.array(m.vertices) * 2.0)),
        ("faces=fliplr", lambda m: setattr(m, "faces", np.ascontiguousarray(np.fliplr(m.faces)))),
        ("faces[0]=reversed", lambda m: m.faces.__setitem__(0, m.faces[0][::-1].copy())),
        ("vertices=clean-tracked-array-of-another-mesh", lambda m: setattr(m, "vertices", _donor(m, "vertices"))),
        ("faces=clean-tracked-array-of-another-mesh", lambda m: setattr(m, "faces", _donor(m, "faces"))),
        ("density=3", lambda m: setattr(m, "density", 3.0)),
        ("center_mass=override", lambda m: setattr(m, "center_mass", [0.1, 0.2, 0.3])),
    ]
    return out


def run_history(mk, prereads, mutate, keys):
    """read -> mutate -> read everything -> compare with fresh; returns list of stale keys"""
    import warnings

    m = mk()
    with warnings.catch_warnings():
        warnings.simplefilter("ignore")
        for k in prereads:
            try:
                getattr(m, k)
            except Exception:
                pass
        try:
            mutate(m)
        except Exception as e:
            return None, "mutator raised %r" % (e,)
        f = fresh_of(m)
        stale = []
        for k in keys:
            try:
                a = getattr(m, k)
            except Exception as e:
                a = ("raised", type(e).__name__)
            try:
                b = getattr(f, k)
            except Exception as e:
                b = ("raised", type(e).__name__)
            try:
                ok = same(a, b)
            except Exception as e:
                ok = True  # not comparable: not counted
            if not ok:
                stale.append(k)
    return stale, None


SENSITIVE = ["face_normals", "vertex_normals", "edges", "edges_unique", "edges_sorted", "face_adjacency", "face_adjacency_edges", "face_adjacency_unshared", "faces_unique_edges", "triangles", "mass_properties", "bounds", "area_faces", "convex_hull", "vertex_neighbors", "euler_number", "body_count", "is_watertight", "facets", "symmetry", "principal_inertia_components", "vertex_faces", "face_angles", "vertex_defects", "referenced_vertices"]


def _history_job(mesh_name):
    def run(tier, seed):
        from contracts import common as C

        fam = dict(C.meshes(tier))
        mk = fam[mesh_name]
        keys = [k for k in _cached_names() if k not in SKIP_KEYS]
        muts = mutators(tier)
        fails = []
        cases = 0
        presets = [("none", [])] + [("all", keys)] + [(k, [k]) for k in (SENSITIVE if tier == "quick" else keys)]
        seen = set()
        for (mname, mut), (pname, pre) in itertools.product(muts, presets):
            cases += 1
            stale, err = run_history(mk, pre, mut, keys)
            if err is not None:
                continue
            for k in stale:
                sig = (mname.split("[")[0] + ("[" + mname.split("[")[1] if "[" in mname else ""), k)
                if (mname, k) in seen:
                    continue
                seen.add((mname, k))
                fails.append({"what": "%s stale after %s" % (k, mname), "mesh": mesh_name, "preread": pname, "mutator": mname, "key": k})
        return {"cases": cases, "distinct": cases, "failures": fails[:200], "bound": "mesh %s x %d mutators x %d pre-read sets x %d keys compared with a freshly built mesh" % (mesh_name, len(muts), len(presets), len(keys)), "exhaustive": True, "sample": {"mesh": mesh_name, "preread": "face_normals", "mutator": "invert"}}

    return run


for _m in ("box", "tetra", "patch", "two_bodies", "messy", "cyl"):
    bounded("C01", name="history:" + _m, note="read -> mutate -> read, compared with a freshly built mesh (real classes)")(_history_job(_m))


# ----------------------------------------------------------------------------- (c) purity / dependency of cached properties

# attributes of a Trimesh that are NOT functions of (vertices, faces, overrides): reading one
# inside a cached property makes the cached value depend on untracked state
UNTRACKED = {"visual", "_visual", "metadata", "face_attributes", "vertex_attributes", "_source", "source", "ray", "nearest", "permutate"}
TRACKED_ROOTS = {"_data", "vertices", "faces", "_cache", "center_mass", "density"}
ANALYSED_MODULES = ["base", "parent", "graph", "convex", "curvature", "inertia", "comparison", "triangles", "geometry", "grouping", "bounds", "util", "nsphere", "points", "intersections", "proximity"]


def _module_tree(mod):
    path = os.path.join(mirror.REPO, "trimesh", mod + ".py")
    return ast.parse(open(path).read())


def _self_reads(fn, selfname="self"):
    """attribute names read off `selfname`, and (module, function, param) calls receiving it"""
    reads, passes, rng = set(), [], False
    for node in ast.walk(fn):
        if isinstance(node, ast.Attribute) and isinstance(node.value, ast.Name) and node.value.id == selfname:
            reads.add(node.attr)
        if isinstance(node, ast.Call):
            txt = ast.unparse(node.func)
            if txt.startswith("np.random") or txt.startswith("random."):
                rng = True
            args = [(i, a) for i, a in enumerate(node.args)] + [(k.arg, k.value) for k in node.keywords]
            for pos, a in args:
                if isinstance(a, ast.Name) and a.id == selfname and isinstance(node.func, ast.Attribute) and isinstance(node.func.value, ast.Name):
                    passes.append((node.func.value.id, node.func.attr, pos))
    return reads, passes, rng


@protocol("C01", name="cached-property-dependencies")
def dependencies(tier, seed, open_ids):
    trees = {m: _module_tree(m) for m in ANALYSED_MODULES}
    base = trees["base"]
    cls = next(n for n in base.body if isinstance(n, ast.ClassDef) and n.name == "Trimesh")
    pcls = next(n for n in trees["parent"].body if isinstance(n, ast.ClassDef) and n.name == "Geometry3D")
    gcls = next(n for n in trees["parent"].body if isinstance(n, ast.ClassDef) and n.name == "Geometry")
    methods = {}
    for c in (gcls, pcls, cls):
        for n in c.body:
            if isinstance(n, ast.FunctionDef):
                methods.setdefault(n.name, []).append(n)
    free = {m: {n.name: n for n in t.body if isinstance(n, ast.FunctionDef)} for m, t in trees.items()}
    cached = [n for n in cls.body if isinstance(n, ast.FunctionDef) and any("cache_decorator" in ast.unparse(d) for d in n.decorator_list)]
    cached += [n for n in pcls.body if isinstance(n, ast.FunctionDef) and any("cache_decorator" in ast.unparse(d) for d in n.decorator_list)]
    obls = []
    graph = {}
    for fn in cached:
        seen_attr = set()
        untracked = set()
        rng = False
        work = [(fn, "self")]
        done = set()
        depth = 0
        while work and depth < 400:
            depth += 1
            f, sname = work.pop()
            if (id(f), sname) in done:
                continue
            done.add((id(f), sname))
            reads, passes, r = _self_reads(f, sname)
            rng = rng or r
            for a in reads:
                seen_attr.add(a)
                if a in UNTRACKED:
                    untracked.add(a)
                elif a in methods and a not in TRACKED_ROOTS:
                    for m in methods[a]:
                        is_prop = any(ast.unparse(d) in ("property",) or "cache_decorator" in ast.unparse(d) for d in m.decorator_list)
                        if not is_prop:
                            work.append((m, "self"))  # plain method: follow its body
            for modname, fname, pos in passes:
                callee = free.get(modname, {}).get(fname)
                if callee is None:
                    continue
                params = [a.arg for a in callee.args.args]
                pname = pos if isinstance(pos, str) else (params[pos] if pos < len(params) else None)
                if pname in params:
                    work.append((callee, pname))
        graph[fn.name] = sorted(seen_attr)
        oid = "C01/trimesh.base.Trimesh.%s/reads-only-tracked-or-derived-state" % fn.name
        if untracked or rng:
            obls.append({"id": oid, "status": "violated", "backend": "ast-effect-inference", "detail": "reads untracked state %s%s" % (sorted(untracked), " and uses a random generator" if rng else ""), "witness": {"property": fn.name, "untracked": sorted(untracked), "rng": rng}, "replayed": False})
        else:
            obls.append({"id": oid, "status": "discharged", "backend": "ast-effect-inference", "detail": "self attributes reached: %s" % sorted(seen_attr)[:40]})
    return {"obligations": obls, "trusted": ["(E) no computed attribute names / exec on the analysed objects"], "functions": ["trimesh.base.Trimesh.%s" % f.name for f in cached]}
