"""
C08 — Export then load round-trips geometry in every supported format.

Float formatting / parsing, XML / JSON / zip libraries and numpy's byte views are outside what
the solvers decide; what contracts state here is checked by enumeration on the real code:

(a) frame obligation per registered exporter (protocol): exporting leaves the exported object
    untouched - data hash, vertex / face arrays, visuals, metadata, scene graph - for every
    exporter of meshes, scenes, point clouds, paths and voxel grids.
(b) util.array_to_encoded / encoded_to_array are mutually inverse, bit for bit, for every dtype
    the exporters use x shapes (0..3 dims incl. empty) x both encodings (protocol).
(c) bounded: geometry family (single face, cube with face colours, vertex colours, extreme
    and negative coordinates, large face indices, two bodies, instanced scene with a face-less
    geometry before the others, nested frames, point cloud, planar path with arcs, voxel grid
    with runs of exactly k*255 cells) x every exporter / loader pair x encoding options: same
    triangles in the same order to the precision the format stores (bit-exact for dict,
    dict64, and float32-exact for binary STL / PLY / GLB), same colours, same instance
    placements.
"""
import io
import itertools
import json

import numpy as rnp

from contracts import common
from pyvc.engine import bounded, protocol

META = {
    "level": "proof",
    "assumptions": [
        "text formats (ascii STL/PLY, OFF, OBJ, XYZ, DXF, SVG, DAE, 3MF, glTF JSON) are compared to the precision the exporter writes (bounded)",
        "base64, zlib, json, lxml, PIL are external",
    ],
    "trusted_base": ["real-run enumeration of the exporters (finite registries)", "numpy byte views"],
}


def _geoms():
    import trimesh
    import trimesh.transformations as tf

    def single():
        return trimesh.Trimesh(vertices=[[0, 0, 0], [1, 0, 0], [0, 1, 0]], faces=[[0, 1, 2]], process=False)

    def cube_face_colors():
        m = trimesh.creation.box(extents=[1.0, 2.0, 3.0])
        c = rnp.zeros((12, 4), dtype=rnp.uint8)
        c[:, 0] = rnp.arange(12) * 20
        c[:, 1] = 255 - rnp.arange(12) * 7
        c[:, 3] = 255
        m.visual.face_colors = c
        return m

    def vertex_colors():
        m = trimesh.creation.icosphere(subdivisions=1)
        c = rnp.zeros((len(m.vertices), 4), dtype=rnp.uint8)
        c[:, 2] = rnp.arange(len(m.vertices)) % 256
        c[:, 3] = 255
        m.visual.vertex_colors = c
        return m

    def extreme():
        m = trimesh.creation.box()
        m.vertices *= [1e-3, 1.0, 1e4]
        m.vertices += [-12345.678, 0.000123, 98765.4321]
        return m

    def reordered():
        m = trimesh.creation.icosphere(subdivisions=1)
        m.faces = m.faces[::-1].copy()
        return m

    def two_bodies():
        return dict(common.meshes("quick"))["two_bodies"]()

    def large_index():
        # 70 000 vertices, faces use indices beyond 16 bits
        v = rnp.random.default_rng(9).random((70000, 3))
        f = rnp.array([[0, 69999, 35000], [65535, 65536, 65537], [69998, 1, 66000], [256, 65280, 69000]])
        return trimesh.Trimesh(vertices=v, faces=f, process=False)

    def empty():
        return trimesh.Trimesh()

    return [("single-face", single), ("large-indices", large_index), ("empty", empty), ("cube-face-colours", cube_face_colors), ("vertex-colours", vertex_colors), ("extreme-coordinates", extreme), ("faces-reversed-order", reordered), ("two-bodies", two_bodies)]


def _scenes():
    import trimesh
    import trimesh.transformations as tf

    def instanced():
        s = trimesh.Scene()
        b = trimesh.creation.box()
        s.add_geometry(b, node_name="b0", geom_name="box", transform=tf.translation_matrix([1.0, 0, 0]))
        s.graph.update(frame_to="b1", matrix=tf.rotation_matrix(0.5, [0, 0, 1], [0, 1, 0]) @ tf.translation_matrix([0, 3.0, 0]), geometry="box")
        s.add_geometry(trimesh.creation.icosphere(subdivisions=0), node_name="i0", geom_name="ico", transform=tf.translation_matrix([0, 0, 4.0]))
        return s

    def with_faceless_first():
        s = trimesh.Scene()
        e = trimesh.creation.box()
        e.update_faces(rnp.zeros(len(e.faces), dtype=bool))
        s.add_geometry(trimesh.creation.box(), node_name="b0", geom_name="box", transform=tf.translation_matrix([1.0, 0, 0]))
        s.add_geometry(e, node_name="e0", geom_name="empty")
        s.add_geometry(trimesh.creation.icosphere(subdivisions=0), node_name="i0", geom_name="ico", transform=tf.translation_matrix([0, 0, 4.0]))
        s.graph.update(frame_to="i1", matrix=tf.translation_matrix([0, 5.0, 4.0]), geometry="ico")
        s.add_geometry(trimesh.creation.cylinder(0.5, 1.0, sections=6), node_name="c0", geom_name="cyl", transform=tf.translation_matrix([-3.0, 0, 0]))
        return s

    def nested():
        s = trimesh.Scene()
        s.add_geometry(trimesh.creation.box(), node_name="a", geom_name="box", transform=tf.rotation_matrix(0.7, [1, 2, 3]))
        s.add_geometry(trimesh.creation.icosphere(subdivisions=0), node_name="b", geom_name="ico", parent_node_name="a", transform=tf.translation_matrix([2.0, 0, 0]))
        return s

    return [("instanced", instanced), ("faceless-geometry-in-the-middle", with_faceless_first), ("nested", nested)]


def _corner_colours(m):
    """(F, 3, 4) colour of every triangle corner; None when the mesh has no colours"""
    if m.visual.kind == "face":
        return rnp.repeat(rnp.asarray(m.visual.face_colors)[:, None, :], 3, axis=1)
    if m.visual.kind == "vertex":
        return rnp.asarray(m.visual.vertex_colors)[rnp.asarray(m.faces)]
    return None


def _world_tris(obj):
    """triangles in world space, per instance, order kept inside an instance"""
    import trimesh

    if isinstance(obj, trimesh.Scene):
        out = []
        for n in obj.graph.nodes_geometry:
            T, g = obj.graph.get(n)
            geom = obj.geometry[g]
            if isinstance(geom, trimesh.Trimesh) and len(geom.faces):
                out.append(trimesh.transformations.transform_points(geom.triangles.reshape(-1, 3), T).reshape(-1, 3, 3))
        return out
    return [rnp.asarray(obj.triangles)]


def _same_instances(a, b, tol):
    """same multiset of instances; inside an instance the same triangles in the same order"""
    if len(a) != len(b):
        return "instance count %d vs %d" % (len(a), len(b))
    used = set()
    for x in a:
        hit = None
        for j, y in enumerate(b):
            if j in used or x.shape != y.shape:
                continue
            if x.size == 0 or float(rnp.abs(x - y).max()) <= tol * max(1.0, float(rnp.abs(x).max())):
                hit = j
                break
        if hit is None:
            # same triangles in another order?
            for j, y in enumerate(b):
                if j not in used and x.shape == y.shape and common.tri_multiset(x, 4) == common.tri_multiset(y, 4):
                    return "triangles of an instance come back in a different order"
            return "an instance is missing or its triangles moved"
        used.add(hit)
    return None


# ----------------------------------------------------------------------------- (a) exporters do not modify the object


@protocol("C08", name="export-does-not-modify", note="every registered exporter of every geometry kind: hash, arrays, visuals, metadata, graph unchanged after export")
def export_frame(tier, seed, open_ids):
    import warnings

    import trimesh
    from trimesh.exchange import export as E

    obls = []

    def snapshot(o):
        import copy

        if isinstance(o, trimesh.Scene):
            return (str(o.graph.to_edgelist()), {k: snapshot(g) for k, g in o.geometry.items()}, repr(sorted(o.metadata.items(), key=str)))
        st = [hash(o) if not isinstance(o, trimesh.voxel.VoxelGrid) else 0]
        for k in ("vertices", "faces"):
            if hasattr(o, k):
                st.append(rnp.array(getattr(o, k)).tobytes())
        if hasattr(o, "visual") and o.visual is not None and getattr(o.visual, "kind", None) in ("face", "vertex"):
            st.append(rnp.array(o.visual.face_colors if o.visual.kind == "face" else o.visual.vertex_colors).tobytes())
        if isinstance(o, trimesh.voxel.VoxelGrid):
            st.append(rnp.array(o.encoding.dense).tobytes())
            st.append(rnp.array(o.transform).tobytes())
        st.append(repr(sorted(getattr(o, "metadata", {}).items(), key=str)))
        return st

    targets = []
    for gname, mk in _geoms()[:3]:
        for ft in sorted(E._mesh_exporters.keys()):
            targets.append(("Trimesh[%s]" % gname, mk, ft, {}))
    for sname, mk in _scenes():
        for ft in ("glb", "gltf", "dict", "obj", "stl", "ply", "3mf"):
            targets.append(("Scene[%s]" % sname, mk, ft, {}))
    targets.append(("PointCloud", lambda: trimesh.PointCloud(rnp.random.default_rng(0).random((5, 3)), colors=rnp.tile([1, 2, 3, 255], (5, 1))), "xyz", {}))
    targets.append(("PointCloud", lambda: trimesh.PointCloud(rnp.random.default_rng(0).random((5, 3))), "ply", {}))
    for ft in ("dxf", "svg", "dict"):
        targets.append(("Path2D", lambda: trimesh.load_path(rnp.array([[0, 0], [2, 0], [2, 1], [0, 1], [0, 0]], dtype=float)), ft, {}))
    targets.append(("VoxelGrid", lambda: trimesh.voxel.VoxelGrid(rnp.random.default_rng(1).random((3, 4, 2)) > 0.5), "binvox", {}))
    for oname, mk, ft, kw in targets:
        oid = "C08/export[%s]/leaves-%s-unchanged" % (ft, oname)
        with warnings.catch_warnings():
            warnings.simplefilter("ignore")
            try:
                o = mk()
                before = snapshot(o)
                try:
                    o.export(file_type=ft, **kw)
                    how = "exported"
                except Exception as ex:  # noqa: BLE001
                    how = "export raised %s" % type(ex).__name__
                after = snapshot(o)
                ok = str(before) == str(after)
                obls.append({"id": oid, "status": "discharged" if ok else "violated", "backend": "real-run", "detail": "%s; snapshot (hash, arrays, colours, metadata, graph) identical before and after" % how if ok else "%s; the object changed" % how, "witness": {"object": oname, "file_type": ft}, "replayed": True})
            except Exception as ex:  # noqa: BLE001
                obls.append({"id": oid, "status": "undecided", "backend": "real-run", "detail": "could not build the object: %r" % (ex,)})
    return {"obligations": obls, "trusted": ["hash collision freedom (T5)"], "functions": ["trimesh.exchange.export.export_mesh", "trimesh.exchange.export.export_scene", "trimesh.path.exchange.export.export_path", "trimesh.voxel.base.VoxelGrid.export"]}


# ----------------------------------------------------------------------------- (b) array <-> encoded


@protocol("C08", name="array-encoding-inverse", note="util.array_to_encoded / encoded_to_array for every dtype x shape x encoding: bit-for-bit inverse")
def array_encoding(tier, seed, open_ids):
    from trimesh import util

    rng = rnp.random.default_rng(5)
    obls = []
    dtypes = ["float64", "float32", "int64", "int32", "uint8", "uint32", "bool"]
    shapes = [(0,), (1,), (5,), (0, 3), (4, 3), (2, 3, 3), (3, 1)]
    for dt, sh, enc in itertools.product(dtypes, shapes, ("base64", "binary", "dict64", "dict")):
        oid = "C08/trimesh.util.array_to_encoded/roundtrip[%s;%s;%s]" % (dt, "x".join(map(str, sh)), enc)
        n = int(rnp.prod(sh))
        if dt == "bool":
            a = (rng.random(sh) > 0.5) if n else rnp.zeros(sh, dtype=bool)
        elif dt.startswith("float"):
            a = (rng.normal(size=sh) * 1e3).astype(dt)
            if n:
                a.flat[0] = -0.0
                a.flat[-1] = rnp.finfo(dt).max
        else:
            info = rnp.iinfo(dt)
            a = rng.integers(info.min, info.max, size=sh, dtype=dt, endpoint=True) if n else rnp.zeros(sh, dtype=dt)
        try:
            e = util.array_to_encoded(a, dtype=a.dtype, encoding=enc)
            if enc in ("dict64", "base64", "dict"):
                json.dumps(e if enc != "dict" else e)  # serialisable
            b = util.encoded_to_array(e)
            ok = b.dtype == a.dtype and b.shape == a.shape and b.tobytes() == a.tobytes()
            detail = "dtype, shape and bytes identical" if ok else "decoded %s%s vs %s%s" % (b.dtype, b.shape, a.dtype, a.shape)
            obls.append({"id": oid, "status": "discharged" if ok else "violated", "backend": "real-run", "detail": detail, "witness": {"dtype": dt, "shape": list(sh), "encoding": enc}, "replayed": True})
        except Exception as ex:  # noqa: BLE001
            # an encoding that array_to_encoded does not offer is not a violation
            if isinstance(ex, ValueError) and "encoding" in str(ex).lower():
                continue
            obls.append({"id": oid, "status": "violated", "backend": "real-run", "detail": "raised %r" % (ex,), "witness": {"dtype": dt, "shape": list(sh), "encoding": enc}, "replayed": True})
    return {"obligations": obls, "trusted": ["base64 / json (external)"], "functions": ["trimesh.util.array_to_encoded", "trimesh.util.encoded_to_array"]}


# ----------------------------------------------------------------------------- (c) round trips

# (file type, export kwargs, stored precision, carries colours)
#   "f64" coordinates come back bit-exact; "f32" exactly the float32 rounding of the input;
#   "ascii-f32" eight decimals parsed as float32 (0.51e-8 + one float32 ulp); ("digits", d) within
#   0.51e-d absolute; ("rel", r) within r x the largest coordinate (pycollada's 7 significant digits)
MESH_FORMATS = [
    ("stl", {}, "f32", ()),
    ("stl_ascii", {}, "f64", ()),
    ("ply", {}, "f32", ("face", "vertex")),
    ("ply", {"encoding": "ascii"}, "ascii-f32", ("face", "vertex")),
    ("ply", {"vertex_normal": True}, "f32", ("face", "vertex")),
    ("ply", {"include_attributes": False}, "f32", ("face", "vertex")),
    ("off", {}, ("digits", 10), ()),
    ("off", {"digits": 4}, ("digits", 4), ()),
    ("obj", {}, ("digits", 8), ("vertex",)),
    ("obj", {"digits": 4}, ("digits", 4), ("vertex",)),
    ("obj", {"include_normals": True}, ("digits", 8), ("vertex",)),
    ("obj", {"include_color": False}, ("digits", 8), ()),
    ("glb", {}, "f32", ("vertex",)),
    ("glb", {"include_normals": True}, "f32", ("vertex",)),
    ("gltf", {}, "f32", ("vertex",)),
    ("gltf", {"merge_buffers": True}, "f32", ("vertex",)),
    ("gltf", {"embed_buffers": True}, "f32", ("vertex",)),
    ("3mf", {}, "f64", ()),
    ("dae", {}, ("rel", 1e-6), ()),
    ("dict", {}, "f64", ()),
    ("dict64", {}, "f64", ()),
]


def _coordinate_error(a, b, prec):
    """None when b equals a to the precision the format stores, else the excess"""
    a = rnp.asarray(a, dtype=rnp.float64)
    b = rnp.asarray(b, dtype=rnp.float64)
    if a.shape != b.shape:
        return "shape %s vs %s" % (a.shape, b.shape)
    if a.size == 0:
        return None
    if prec == "f64":
        return None if rnp.array_equal(a, b) else "not bit-exact (max |d| %.3g)" % float(rnp.abs(a - b).max())
    f32 = a.astype(rnp.float32).astype(rnp.float64)
    if prec == "f32":
        return None if rnp.array_equal(f32, b) else "not the float32 rounding (max |d| %.3g)" % float(rnp.abs(f32 - b).max())
    if prec == "ascii-f32":
        # eight decimals written, parsed as float32
        ulp = rnp.spacing(rnp.abs(a).astype(rnp.float32)).astype(rnp.float64)
        bad = rnp.abs(a - b) > ulp + 0.51e-8
    elif prec[0] == "digits":
        bad = rnp.abs(a - b) > 0.51 * 10.0 ** (-prec[1]) + 4 * rnp.spacing(rnp.abs(a))
    else:
        bad = rnp.abs(a - b) > prec[1] * float(rnp.abs(a).max())
    return "beyond the stored precision (max |d| %.3g)" % float(rnp.abs(a - b).max()) if bad.any() else None


def _reload(data, ft, as_scene=False):
    import trimesh

    if isinstance(data, dict) and ft in ("gltf",):
        res = trimesh.resolvers.ResolverLike if False else None
        from trimesh import resolvers

        class _R(resolvers.Resolver):
            def __init__(self, d):
                self.d = d

            def get(self, name):
                return self.d[name]

            def namespaced(self, ns):
                return self

            def keys(self):
                return self.d.keys()

            def write(self, name, data):
                self.d[name] = data

        return trimesh.load(io.BytesIO(data["model.gltf"]), file_type="gltf", resolver=_R(data), force="scene" if as_scene else None, process=False)
    if isinstance(data, dict):
        return trimesh.load(data, force="scene" if as_scene else None, process=False) if ft != "dict64" else trimesh.Trimesh(**trimesh.exchange.misc.load_dict(data))
    if isinstance(data, str):
        data = data.encode("utf-8")
    return trimesh.load(io.BytesIO(data), file_type="stl" if ft == "stl_ascii" else ft, force="scene" if as_scene else None, process=False)


@bounded("C08", name="real-code:round-trips", note="6 meshes x 13 exporter/option sets, 3 scenes x 8 formats, point cloud, path, voxel grids with runs of k*255: same triangles in the same order to the stored precision, colours, instance placements")
def round_trips(tier, seed):
    import warnings

    import trimesh

    cells = {}
    cases = 0

    def fail(key, obj, detail=""):
        c = cells.setdefault(key, {"what": key, "cell": key, "object": obj, "detail": str(detail)[:200], "count": 0})
        c["count"] += 1

    with warnings.catch_warnings():
        warnings.simplefilter("ignore")
        for gname, mk in _geoms():
            for ft, kw, tol, colours in MESH_FORMATS:
                cases += 1
                tag = ft + ("[" + ",".join("%s=%s" % i for i in kw.items()) + "]" if kw else "")
                try:
                    m = mk()
                    data = m.export(file_type=ft, **kw)
                    r = _reload(data, ft)
                    if isinstance(r, trimesh.Scene):
                        r = r.to_mesh() if len(r.geometry) else None
                    if len(m.faces) == 0:
                        if r is not None and len(getattr(r, "faces", ())) != 0:
                            fail("mesh:%s:empty-mesh-came-back-with-faces" % tag, gname)
                        continue
                    if r is None or len(r.faces) != len(m.faces):
                        fail("mesh:%s:face-count-changed" % tag, gname, "%s vs %d" % (None if r is None else len(r.faces), len(m.faces)))
                        continue
                    a, b = rnp.asarray(m.triangles), rnp.asarray(r.triangles)
                    err = _coordinate_error(a, b, tol)
                    if err:
                        coarse = 1e-3 * max(1.0, float(rnp.abs(a).max()))
                        if float(rnp.abs(a - b).max()) > coarse and common.tri_multiset(a, 3) == common.tri_multiset(b, 3):
                            fail("mesh:%s:triangle-order-changed" % tag, gname)
                        else:
                            fail("mesh:%s:coordinates-%s" % (tag, err.split(" (")[0]), gname, err)
                    if m.visual.kind in colours:
                        want = _corner_colours(m)
                        got = _corner_colours(r)
                        if got is None:
                            fail("mesh:%s:colours-lost" % tag, gname, "%s colours" % m.visual.kind)
                        elif not rnp.array_equal(want, got):
                            fail("mesh:%s:%s-colours-changed" % (tag, m.visual.kind), gname)
                except Exception as ex:  # noqa: BLE001
                    fail("mesh:%s:raised %s" % (tag, type(ex).__name__), gname, ex)
        for sname, mk in _scenes():
            for ft, kw in (("glb", {}), ("gltf", {}), ("gltf", {"merge_buffers": True}), ("glb", {"unitize_normals": True}), ("dict", {}), ("3mf", {}), ("obj", {}), ("stl", {}), ("ply", {})):
                cases += 1
                tag = ft + ("[" + ",".join("%s=%s" % i for i in kw.items()) + "]" if kw else "")
                try:
                    s = mk()
                    want = _world_tris(s)
                    data = s.export(file_type=ft, **kw)
                    r = _reload(data, ft, as_scene=True)
                    got = _world_tris(r)
                    if ft in ("obj", "stl", "ply"):
                        # formats without instancing: compare the baked triangle multiset
                        if common.tri_multiset(rnp.vstack(want), 4) != common.tri_multiset(rnp.vstack(got), 4):
                            fail("scene:%s:baked-triangles-differ" % tag, sname)
                        continue
                    why = _same_instances(want, got, 1e-5)
                    if why:
                        fail("scene:%s:%s" % (tag, why), sname)
                except Exception as ex:  # noqa: BLE001
                    fail("scene:%s:raised %s" % (tag, type(ex).__name__), sname, ex)
        # point cloud
        for ft in ("xyz", "ply", "glb"):
            cases += 1
            try:
                pc = trimesh.PointCloud(rnp.random.default_rng(3).random((7, 3)) * [1.0, 100.0, 0.01] - 5.0, colors=rnp.tile([10, 20, 30, 255], (7, 1)))
                r = _reload(pc.export(file_type=ft), ft)
                if isinstance(r, trimesh.Scene):
                    r = next(iter(r.geometry.values()))
                if r.vertices.shape != pc.vertices.shape or float(rnp.abs(rnp.asarray(r.vertices) - pc.vertices).max()) > 1e-5 * 100:
                    fail("points:%s:points-changed" % ft, "PointCloud")
            except Exception as ex:  # noqa: BLE001
                fail("points:%s:raised %s" % (ft, type(ex).__name__), "PointCloud", ex)
        # voxel grids through binvox: runs of exactly k*255 identical cells
        for vname, dense in (("random", rnp.random.default_rng(4).random((5, 5, 5)) > 0.5), ("all-full-16^3(runs of 4096)", rnp.ones((16, 16, 16), dtype=bool)), ("first-filled-cell-last(run 255 + long run)", _late_fill()), ("five-rows-of-51", _rows(51, 5)), ("all-empty", rnp.zeros((4, 4, 4), dtype=bool))):
            cases += 1
            try:
                v = trimesh.voxel.VoxelGrid(dense, transform=trimesh.transformations.scale_and_translate(0.5, [1.0, 2.0, 3.0]))
                data = v.export(file_type="binvox")
                r = trimesh.load(io.BytesIO(data), file_type="binvox")
                if not rnp.array_equal(rnp.asarray(r.encoding.dense), dense):
                    fail("voxel:binvox:cells-changed", vname)
                elif not rnp.allclose(r.transform, v.transform, atol=1e-6):
                    fail("voxel:binvox:transform-changed", vname)
            except Exception as ex:  # noqa: BLE001
                fail("voxel:binvox:raised %s" % type(ex).__name__, vname, ex)
        # paths: entities in order, discretised to the same points; DXF arcs carry no direction
        for pname, mk, fts in _paths():
            for ft in fts:
                cases += 1
                try:
                    p = mk()
                    d = p.export(file_type=ft)
                    if isinstance(d, dict):
                        r = trimesh.load_path(d)
                    else:
                        r = trimesh.load(io.BytesIO(d.encode("utf-8") if isinstance(d, str) else d), file_type=ft)
                    if len(r.entities) != len(p.entities):
                        fail("path:%s:entity-count-changed" % ft, pname, "%d vs %d" % (len(r.entities), len(p.entities)))
                        continue
                    for k, (ea, eb) in enumerate(zip(p.entities, r.entities)):
                        if type(ea).__name__ != type(eb).__name__:
                            fail("path:%s:entity-type-or-order-changed" % ft, pname, "%d: %s vs %s" % (k, type(ea).__name__, type(eb).__name__))
                            break
                        if type(ea).__name__ == "Arc" and ea.closed:
                            # a full circle has no start point: same centre and radius
                            ca, cb = ea.center(p.vertices), eb.center(r.vertices)
                            if not (eb.closed and abs(ca.radius - cb.radius) <= 1e-9 * ca.radius and float(rnp.abs(rnp.asarray(ca.center) - cb.center).max()) <= 1e-9 * max(1.0, float(rnp.abs(p.vertices).max()))):
                                fail("path:%s:circle-changed" % ft, pname, "entity %d" % k)
                                break
                            continue
                        da, db = ea.discrete(p.vertices), eb.discrete(r.vertices)
                        tol = 1e-9 * max(1.0, float(rnp.abs(p.vertices).max()))
                        same = da.shape == db.shape and float(rnp.abs(da - db).max()) <= tol
                        flipped = da.shape == db.shape and float(rnp.abs(da - db[::-1]).max()) <= tol
                        if not (same or (flipped and ft == "dxf" and type(ea).__name__ == "Arc")):
                            fail("path:%s:%s-points-changed" % (ft, type(ea).__name__), pname, "entity %d" % k)
                            break
                except Exception as ex:  # noqa: BLE001
                    fail("path:%s:raised %s" % (ft, type(ex).__name__), pname, ex)
    fails = sorted(cells.values(), key=lambda c: c["cell"])
    r = common.result(cases, cases, fails, "8 meshes x 13 exporter/option sets; 3 scenes x 8; point cloud x 3; 5 voxel grids", exhaustive=True)
    r["failures"] = fails
    return r


def _paths():
    from trimesh.path import Path2D, Path3D
    from trimesh.path.entities import Arc, Line

    def lines_and_arcs():
        v = rnp.array([[0, 0], [2, 0], [2, 1], [1, 2], [0, 1], [-3.5, 7.25], [-1.5, 7.25], [-2.5, 8.25]], dtype=float)
        return Path2D(entities=[Line([0, 1, 2]), Arc([2, 3, 4]), Line([4, 0]), Arc([5, 7, 6]), Line([6, 5])], vertices=v, process=False)

    def far_and_small():
        v = rnp.array([[12345.678, -9876.5], [12345.679, -9876.5], [12345.679, -9876.499], [12345.678, -9876.499]], dtype=float)
        return Path2D(entities=[Line([0, 1]), Line([1, 2, 3]), Line([3, 0])], vertices=v, process=False)

    def closed_circle():
        v = rnp.array([[1.0, 0], [0, 1.0], [-1.0, 0]]) * 2.5 + [4.0, -3.0]
        return Path2D(entities=[Arc([0, 1, 2], closed=True)], vertices=v, process=False)

    def three_d():
        return Path3D(entities=[Line([0, 1, 2]), Line([2, 0])], vertices=rnp.array([[0, 0, 0], [1, 0, 5], [0, 1, -2.5]], dtype=float), process=False)

    return [("lines-and-arcs", lines_and_arcs, ("dxf", "svg", "dict")), ("far-from-origin", far_and_small, ("dxf", "svg", "dict")), ("closed-circle", closed_circle, ("dxf", "svg", "dict")), ("path3d", three_d, ("dict", "ply"))]


def _late_fill():
    d = rnp.zeros((16, 16, 16), dtype=bool)
    d[0, 15, 15] = True
    d[1:] = True
    return d


def _rows(n, k):
    d = rnp.zeros((n, n, n), dtype=bool)
    d[0, :k, :] = True
    return d


# ----------------------------------------------------------------------------- (d) glTF node tree: instance placement for all matrices

from pyvc.engine import Ghost, contract  # noqa: E402

GLTF = "trimesh.exchange.gltf"
SGRAPH = "trimesh.scene.transforms.SceneGraph"

# scene shapes: (geometry names in order with "has faces" flag, nodes: (name, parent, geometry or None))
_GRAPHS = {
    "two-instances-of-one-geometry": ((("box", True),), (("a", "world", "box"), ("b", "world", "box"))),
    "faceless-geometry-before-the-others": ((("empty", False), ("box", True), ("ico", True)), (("e", "world", "empty"), ("a", "world", "box"), ("i", "world", "ico"))),
    "faceless-geometry-in-the-middle": ((("box", True), ("empty", False), ("ico", True)), (("a", "world", "box"), ("e", "world", "empty"), ("i", "world", "ico"), ("i2", "world", "ico"))),
    "nested-instance-under-instance": ((("box", True), ("ico", True)), (("a", "world", "box"), ("b", "a", "ico"))),
    "frame-without-geometry-between": ((("box", True),), (("f", "world", None), ("a", "f", "box"))),
}


def _affine(h, name):
    M = h.reals(name, (4, 4))
    if h.mode == "sym":
        M[3, 0], M[3, 1], M[3, 2], M[3, 3] = 0.0, 0.0, 0.0, 1.0
    else:
        M = rnp.array(M, dtype=float)
        M[3] = [0, 0, 0, 1]
    return M


class Trimesh(Ghost):
    """ghost geometry for the symbolic run: named so util.is_instance_named(..., 'Trimesh') holds"""


def _one_triangle_export():
    """accessors / bufferViews / buffer of ONE real exported triangle (real exporter, concrete)"""
    import trimesh
    from trimesh.exchange import gltf

    m = trimesh.Trimesh(vertices=[[0, 0, 0], [1, 0, 0], [0, 1, 0]], faces=[[0, 1, 2]], process=False)
    tree, items = gltf._create_gltf_structure(trimesh.Scene(m))
    views = gltf._build_views(items)
    return tree, views, b"".join(items.values())


def _gltf_nodes(h, geoms, nodes):
    import trimesh

    mats = {n: _affine(h, "M_" + n) for n, _, _ in nodes}
    if h.mode == "sym":
        tree0, views0, blob0 = _one_triangle_export()
        g = h.module("trimesh.scene.transforms").SceneGraph(base_frame="world")
        for n, parent, geom in nodes:
            g.update(frame_to=n, frame_from=parent, matrix=mats[n], **({"geometry": geom} if geom else {}))
        from collections import OrderedDict

        scene = Ghost(geometry=OrderedDict((k, Trimesh(has_faces=f)) for k, f in geoms), graph=g, has_camera=False, camera=None, metadata={})

        def append_mesh(mesh, name, tree, buffer_items, **kw):
            # contract of _append_mesh: exactly one entry appended iff the mesh has faces
            if not mesh.has_faces:
                return
            entry = {"name": name, "primitives": [dict(tree0["meshes"][0]["primitives"][0])]}
            entry["primitives"][0].pop("material", None)
            tree["meshes"].append(entry)
            buffer_items.update({"k%d" % i: b for i, b in enumerate([blob0])})

        h.stub(GLTF + "._append_mesh", append_mesh)
        tree, _items = h.fn(GLTF + "._create_gltf_structure")(scene)
        header = dict(tree)
        header["accessors"] = tree0["accessors"]
        header["bufferViews"] = views0
        header.pop("materials", None)
        out = h.fn(GLTF + "._read_buffers")(header=header, buffers=[blob0], mesh_kwargs={}, resolver=None)
    else:
        from trimesh.exchange import gltf

        s = trimesh.Scene(base_frame="world")
        for k, f in geoms:
            m = trimesh.Trimesh(vertices=[[0, 0, 0], [1, 0, 0], [0, 1, 0]], faces=[[0, 1, 2]] if f else [], process=False)
            s.geometry[k] = m
        for n, parent, geom in nodes:
            s.graph.update(frame_to=n, frame_from=parent, matrix=mats[n], **({"geometry": geom} if geom else {}))
        tree, items = gltf._create_gltf_structure(s)
        header = dict(tree)
        header["bufferViews"] = gltf._build_views(items)
        out = gltf._read_buffers(header=header, buffers=[b"".join(items.values())], mesh_kwargs={}, resolver=None)
    has = dict(geoms)
    edges = {e["frame_to"]: e for e in out["graph"]}
    conds_names, conds_geom, conds_mat = [], [], []
    for n, parent, geom in nodes:
        e = edges.get(n)
        conds_names.append(e is not None and e["frame_from"] == parent)
        if e is None:
            continue
        if geom is not None and has[geom]:
            conds_geom.append(e.get("geometry") == geom)
        else:
            conds_geom.append("geometry" not in e)
        Mo = e["matrix"]
        # an (almost) identity matrix is not written: the reloaded one is exactly the identity
        conds_mat.append(h.all([h.le(h.abs(Mo[r][c] - mats[n][r, c]), 1e-7 * (1 + h.abs(mats[n][r, c]))) for r in range(4) for c in range(4)]))
    # the exported root node "world" hangs, with the identity, under the loader's own base frame
    root = edges.get("world")
    h.check("exported-root-kept-with-identity", root is not None and root["frame_from"] == out["base_frame"] and "geometry" not in root and h.all([h.exact(root["matrix"][r][c], 1.0 if r == c else 0.0) for r in range(4) for c in range(4)]))
    h.check("every-node-comes-back-under-its-parent", all(conds_names) and len(edges) == len(nodes) + 1)
    h.check("every-instance-references-its-own-geometry", all(conds_geom))
    h.check("every-node-matrix-equal", h.all(conds_mat))
    h.check("geometry-names-kept", sorted(out["geometry"].keys()) == sorted(k for k, f in geoms if f))


for _gname, (_geoms_, _nodes_) in _GRAPHS.items():

    def _mk(geoms=_geoms_, nodes=_nodes_):
        def run(h):
            _gltf_nodes(h, geoms, nodes)

        return run

    contract("C08", GLTF + "._create_gltf_structure", name="gltf-node-tree-round-trip[%s; all matrices]" % _gname, kind="bounded-shape", timeout=60000, note="real _create_gltf_structure + SceneGraph.to_gltf -> real _read_buffers; _append_mesh replaced by its contract (one entry iff faces)")(_mk())
