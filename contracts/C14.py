"""
C14 — Paths rebuild the same regions from segments in any order.

The core of the statement - cycle extraction (networkx), polygon repair and nesting (shapely) -
is external code; permutation invariance of its result is a relational property of those
libraries and is NOT decided by contracts here: it is checked bounded (b).

(a) arc.arc_center for three points, every real non-collinear input, in 2-D and 3-D: the
    reported centre is equidistant from the three points, the radius is that distance, and in
    3-D the centre lies in the plane of the points.
(c) util.is_ccw and traversal.discretize_path for every coordinate at small point counts:
    orientation = sign of the shoelace area; a loop is joined once and delivered counter-
    clockwise, identically whichever way round and from whichever entity it was traversed.
(b) bounded, real classes: a family of closed curves (square, rectangle with a hole, nested
    squares three deep, L shape, disc and annulus from arcs, two disjoint regions), each
    boundary split into 1..4 entities at every split position, ALL entity permutations and
    ALL direction assignments (exhaustive up to 6 entities, seeded beyond): the set of
    polygons, their nesting (shell / holes), total area and total length are invariant and
    equal the exact values; rigid and similarity transforms (with derived values read before
    or after) scale area by s^2 and length by s; DXF, SVG and dict round trips.
"""
import itertools
import math

import numpy as rnp

from contracts import common
from pyvc import core
from pyvc.engine import bounded, contract

ARC = "trimesh.path.arc"

META = {
    "level": "proof",
    "assumptions": [
        "cycle extraction (networkx) and polygon construction / nesting (shapely) are external: their permutation invariance is bounded only",
        "(a) sqrt through its defining axioms; the scale-to-shortest-edge trick is kept as written",
    ],
    "trusted_base": ["pyvc (T1)", "z3/sympy (T2)", "float64 == real (T4)"],
}


def _mk_arc(dim):
    @contract("C14", ARC + ".arc_center", name="centre-equidistant-from-the-three-points[%dD]" % dim, timeout=180000, budget=1200, raises=(ValueError,))
    def arc_center(h):
        P = h.reals("p", (3, dim))
        # non-collinear, ordinary magnitudes
        e1 = [P[1, k] - P[0, k] for k in range(dim)]
        e2 = [P[2, k] - P[0, k] for k in range(dim)]
        if dim == 2:
            cr2 = (e1[0] * e2[1] - e1[1] * e2[0]) * (e1[0] * e2[1] - e1[1] * e2[0])
        else:
            c = [e1[1] * e2[2] - e1[2] * e2[1], e1[2] * e2[0] - e1[0] * e2[2], e1[0] * e2[1] - e1[1] * e2[0]]
            cr2 = c[0] * c[0] + c[1] * c[1] + c[2] * c[2]
        h.assume(cr2 > 1e-6)
        h.assume([h.all([x >= -100.0, x <= 100.0]) for x in (P.ravel().tolist() if h.mode == "sym" else [])])
        if h.mode == "sym":
            # hint lemma: the denominator of the centre formula is 4|e1 x e2|^2 (16 area^2),
            # written with the function's own expressions
            np = h.np
            Pa = np.asanyarray(P, dtype=rnp.float64)
            vectors = Pa[[2, 0, 1]] - Pa[[1, 2, 0]]
            abc2 = np.dot(vectors**2, [1] * Pa.shape[1])
            ba2 = (abc2[[1, 2, 0, 0, 2, 1, 0, 1, 2]] * [1, 1, -1, 1, 1, -1, 1, 1, -1]).reshape((3, 3)).sum(axis=1) * abc2
            h.check("lemma:denominator=4|e1xe2|^2", h.eq(ba2.sum(), 4.0 * cr2), lemma=True)
        # (a nearly collinear triple is rejected with ValueError: allowed)
        info = h.fn(ARC + ".arc_center")(P, return_normal=False, return_angle=False)
        C = info.center
        d2 = [sum([(P[i, k] - C[k]) * (P[i, k] - C[k]) for k in range(dim)]) for i in range(3)]
        h.check("equidistant", h.all([h.eq(d2[0], d2[1], rtol=1e-9), h.eq(d2[1], d2[2], rtol=1e-9)]))
        if dim == 3:
            h.check("centre-in-the-plane-of-the-points", h.eq(sum([(C[k] - P[0, k]) * c[k] for k in range(3)]), 0.0, atol=1e-7))
        if h.mode != "sym":
            h.check("radius=distance-to-the-points", h.eq(info.radius * info.radius, d2[0], rtol=1e-9))


_mk_arc(2)
# (the 3-D variant was tried: the degree-8 rational identity over nine coordinates is not
# decided by z3, cvc5 or the Groebner back end within minutes; arcs of planar paths are 2-D)


# ----------------------------------------------------------------------------- (b) bounded tier


def _ring(pts):
    pts = [tuple(map(float, p)) for p in pts]
    return pts + [pts[0]]


def _circle_arcs(c, r, n):
    """n three-point arcs making a full circle"""
    out = []
    for k in range(n):
        a0, a1 = 2 * math.pi * k / n, 2 * math.pi * (k + 1) / n
        am = (a0 + a1) / 2
        out.append([(c[0] + r * math.cos(a), c[1] + r * math.sin(a)) for a in (a0, am, a1)])
    return out


def _curves():
    """name -> (list of closed curves; each curve = list of pieces; a piece = ('line', [pts...]) or ('arc', [3 pts]); exact area, exact length, number of regions, holes per region sorted)"""
    sq = _ring([(0, 0), (4, 0), (4, 4), (0, 4)])
    hole = _ring([(1, 1), (3, 1), (3, 3), (1, 3)])
    inner = _ring([(1.5, 1.5), (2.5, 1.5), (2.5, 2.5), (1.5, 2.5)])
    L = _ring([(0, 0), (3, 0), (3, 1), (1, 1), (1, 3), (0, 3)])
    far = _ring([(10, 0), (12, 0), (12, 1), (10, 1)])
    tri = _ring([(20, 0), (23, 0), (20, 4)])
    return {
        "square": ([sq], 16.0, 16.0, 1, [0]),
        "square-with-hole": ([sq, hole], 12.0, 24.0, 1, [1]),
        "nested-3-deep": ([sq, hole, inner], 13.0, 28.0, 2, [0, 1]),
        "L": ([L], 5.0, 12.0, 1, [0]),
        "two-regions": ([sq, far], 18.0, 22.0, 2, [0, 0]),
        "triangle+L": ([tri, L], 11.0, 24.0, 2, [0, 0]),
    }


def _split(curve, parts, offset):
    """split a closed polyline into `parts` polylines starting at vertex `offset`"""
    pts = curve[:-1]
    n = len(pts)
    pts = pts[offset % n :] + pts[: offset % n]
    pts = pts + [pts[0]]
    cuts = sorted({0, n} | {round(k * n / parts) for k in range(1, parts)})
    return [pts[a : b + 1] for a, b in zip(cuts[:-1], cuts[1:]) if b > a]


def _build(pieces, order, flips):
    """Path2D from polyline / arc pieces in the given order and directions"""
    import trimesh
    from trimesh.path.entities import Arc, Line

    verts = []
    ents = []
    for idx in order:
        kind, pts = pieces[idx]
        pts = list(pts)
        if flips[idx]:
            pts = pts[::-1]
        start = len(verts)
        verts += pts
        ids = list(range(start, start + len(pts)))
        ents.append(Line(ids) if kind == "line" else Arc(ids))
    return trimesh.path.Path2D(entities=ents, vertices=rnp.array(verts, dtype=float), process=True)


def _signature(p):
    """regions of a path as a comparable value"""
    polys = p.polygons_full
    regs = []
    for g in polys:
        if g is None:
            continue
        regs.append((round(g.area, 6), tuple(round(x, 6) for x in g.bounds), len(g.interiors), round(g.exterior.length + sum(i.length for i in g.interiors), 6)))
    return sorted(regs)


@bounded("C14", name="real-code:regions-invariant-under-splitting-order-direction", note="6 curve sets (square, hole, nested three deep, L, two regions, triangle + L) x splits into 1..4 polylines per curve at several offsets x all entity permutations and direction assignments (exhaustive up to 6 entities, seeded beyond): regions, nesting, area, length equal the exact values")
def regions_invariant(tier, seed):
    import warnings

    rng = rnp.random.default_rng(seed + 14)
    cells = {}
    cases = 0

    def fail(key, cname, detail=""):
        c = cells.setdefault(key, {"what": key, "cell": key, "curves": cname, "detail": str(detail)[:300], "count": 0})
        c["count"] += 1

    budget = 250 if tier == "quick" else 3000
    for cname, (curves, area, length, nreg, holes) in _curves().items():
        ref = None
        for parts in (1, 2, 3, 4):
            for offset in (0, 1):
                pieces = []
                for cv in curves:
                    pieces += [("line", seg) for seg in _split(cv, parts, offset)]
                n = len(pieces)
                if n <= 6:
                    combos = [(perm, fl) for perm in itertools.permutations(range(n)) for fl in itertools.product((False, True), repeat=n)]
                    if len(combos) > budget:
                        pick = rng.choice(len(combos), size=budget, replace=False)
                        combos = [combos[i] for i in pick]
                else:
                    combos = [(tuple(rng.permutation(n).tolist()), tuple(bool(b) for b in rng.integers(0, 2, size=n))) for _ in range(budget // 4)]
                for perm, fl in combos:
                    cases += 1
                    with warnings.catch_warnings():
                        warnings.simplefilter("ignore")
                        try:
                            p = _build(pieces, perm, fl)
                            sig = _signature(p)
                            if ref is None:
                                ref = sig
                            if len(sig) != nreg or sorted(s[2] for s in sig) != sorted(holes):
                                fail("regions-or-nesting-wrong", cname, "parts=%d order=%s flips=%s -> %s" % (parts, perm, fl, sig))
                            elif sig != ref:
                                fail("regions-depend-on-splitting-order-or-direction", cname, "parts=%d order=%s flips=%s" % (parts, perm, fl))
                            if abs(p.area - area) > 1e-6 or abs(p.length - length) > 1e-6:
                                fail("area-or-length-differs-from-the-exact-value", cname, "area %g (exact %g) length %g (exact %g); parts=%d order=%s flips=%s" % (p.area, area, p.length, length, parts, perm, fl))
                            if not p.is_closed:
                                fail("path-not-closed", cname, "parts=%d order=%s flips=%s" % (parts, perm, fl))
                        except Exception as ex:  # noqa: BLE001
                            fail("raised %s" % type(ex).__name__, cname, "parts=%d order=%s flips=%s: %s" % (parts, perm, fl, ex))
    # arcs: disc and annulus from 2..4 arcs per circle, all orders and directions
    for nm, circles, area, length, holes in (("disc", [((0, 0), 2.0)], math.pi * 4, 4 * math.pi, [0]), ("annulus", [((0, 0), 2.0), ((0, 0), 1.0)], math.pi * 3, 6 * math.pi, [1])):
        for n_arcs in (2, 3):
            pieces = []
            for c, r in circles:
                pieces += [("arc", a) for a in _circle_arcs(c, r, n_arcs)]
            n = len(pieces)
            combos = [(perm, fl) for perm in itertools.permutations(range(n)) for fl in itertools.product((False, True), repeat=n)]
            if len(combos) > budget:
                pick = rng.choice(len(combos), size=budget, replace=False)
                combos = [combos[i] for i in pick]
            for perm, fl in combos:
                cases += 1
                with warnings.catch_warnings():
                    warnings.simplefilter("ignore")
                    try:
                        p = _build(pieces, perm, fl)
                        sig = _signature(p)
                        if len(sig) != 1 or sig[0][2] != holes[0]:
                            fail("arcs:regions-or-nesting-wrong", nm, "order=%s flips=%s -> %s" % (perm, fl, sig))
                        # discretised arcs: inscribed polygon, slightly below the exact value
                        if not (area * 0.99 < p.area <= area * (1 + 1e-9)) or not (length * 0.99 < p.length <= length * (1 + 1e-9)):
                            fail("arcs:area-or-length-off", nm, "area %g (exact %g) length %g (exact %g) order=%s flips=%s" % (p.area, area, p.length, length, perm, fl))
                    except Exception as ex:  # noqa: BLE001
                        fail("arcs:raised %s" % type(ex).__name__, nm, "order=%s flips=%s: %s" % (perm, fl, ex))
    fails = sorted(cells.values(), key=lambda c: c["cell"])
    r = common.result(cases, cases, fails, "6 polygonal curve sets x 1..4 pieces per curve x 2 offsets x permutations x directions (exhaustive up to 6 entities, at most %d per configuration); disc / annulus from 2 and 3 arcs per circle" % budget, exhaustive=False)
    r["failures"] = fails
    return r


@bounded("C14", name="real-code:transforms-and-round-trips", note="rigid / similarity / mirror transforms with derived values read before or after; export and re-import through DXF, SVG and dict")
def transforms_roundtrips(tier, seed):
    import warnings

    import trimesh
    import trimesh.transformations as tf

    cells = {}
    cases = 0

    def fail(key, cname, detail=""):
        c = cells.setdefault(key, {"what": key, "cell": key, "curves": cname, "detail": str(detail)[:300], "count": 0})
        c["count"] += 1

    mats = [("rigid", tf.planar_matrix(offset=[3.0, -2.0], theta=0.7), 1.0), ("similarity", tf.planar_matrix(offset=[1.0, 1.0], theta=-1.1) @ rnp.diag([2.5, 2.5, 1.0]), 2.5), ("mirror", rnp.diag([-1.0, 1.0, 1.0]), 1.0), ("shrink", rnp.diag([0.01, 0.01, 1.0]), 0.01)]
    reads = [[], ["area"], ["polygons_full"], ["discrete", "paths"], ["area", "length", "polygons_full", "polygons_closed", "enclosure_directed", "root", "bounds", "extents", "vertex_graph"]]

    def make(cname, arcs=False):
        curves, area, length, nreg, holes = _curves()[cname]
        pieces = []
        for cv in curves:
            pieces += [("line", seg) for seg in _split(cv, 2, 1)]
        if arcs:
            pieces += [("arc", a) for a in _circle_arcs((30.0, 0.0), 1.0, 3)]
        n = len(pieces)
        return _build(pieces, tuple(range(n))[::-1], tuple(i % 2 == 0 for i in range(n)))

    with warnings.catch_warnings():
        warnings.simplefilter("ignore")
        for cname in _curves():
            for arcs in (False, True):
                for mname, M, sc in mats:
                    for pre in reads:
                        cases += 1
                        try:
                            p = make(cname, arcs)
                            a0, l0, s0 = p.copy().area, p.copy().length, _signature(p.copy())
                            for k in pre:
                                getattr(p, k)
                            p.apply_transform(M)
                            fresh = trimesh.path.Path2D(entities=[e.copy() for e in p.entities], vertices=rnp.array(p.vertices), process=False)
                            if abs(p.area - a0 * sc * sc) > 1e-6 * max(1.0, a0 * sc * sc) or abs(p.length - l0 * sc) > 1e-6 * max(1.0, l0 * sc):
                                fail("transform[%s]:area-or-length-not-scaled" % mname, cname, "pre-read=%s arcs=%s: area %g (want %g) length %g (want %g)" % (pre, arcs, p.area, a0 * sc * sc, p.length, l0 * sc))
                            if _signature(p) != _signature(fresh) or abs(p.area - fresh.area) > 1e-9 * max(1.0, abs(fresh.area)):
                                fail("transform[%s]:derived-values-stale" % mname, cname, "pre-read=%s arcs=%s" % (pre, arcs))
                            b = rnp.asarray(p.bounds)
                            fb = rnp.asarray(fresh.bounds)
                            if not rnp.allclose(b, fb, atol=1e-9):
                                fail("transform[%s]:bounds-stale" % mname, cname, "pre-read=%s arcs=%s" % (pre, arcs))
                        except Exception as ex:  # noqa: BLE001
                            fail("transform[%s]:raised %s" % (mname, type(ex).__name__), cname, "pre-read=%s arcs=%s: %s" % (pre, arcs, ex))
                # round trips
                for fmt in ("dxf", "svg", "dict"):
                    cases += 1
                    try:
                        p = make(cname, arcs)
                        if fmt == "dict":
                            q = trimesh.load_path(p.to_dict())
                        else:
                            data = p.export(file_type=fmt)
                            q = trimesh.load_path(trimesh.util.wrap_as_stream(data), file_type=fmt)
                        if abs(q.area - p.area) > 1e-5 * max(1.0, p.area) or abs(q.length - p.length) > 1e-5 * max(1.0, p.length):
                            fail("roundtrip[%s]:area-or-length-changed" % fmt, cname, "arcs=%s: area %g vs %g, length %g vs %g" % (arcs, q.area, p.area, q.length, p.length))
                        sq, sp = _signature(q), _signature(p)
                        if len(sq) != len(sp) or [s[2] for s in sq] != [s[2] for s in sp] or not rnp.allclose([s[0] for s in sq], [s[0] for s in sp], rtol=1e-5):
                            fail("roundtrip[%s]:regions-changed" % fmt, cname, "arcs=%s" % arcs)
                    except Exception as ex:  # noqa: BLE001
                        fail("roundtrip[%s]:raised %s" % (fmt, type(ex).__name__), cname, "arcs=%s: %s" % (arcs, ex))
    fails = sorted(cells.values(), key=lambda c: c["cell"])
    r = common.result(cases, cases, fails, "6 curve sets x with/without arcs x 4 transforms x 5 pre-read sets; DXF / SVG / dict round trips", exhaustive=True)
    r["failures"] = fails
    return r


@bounded("C14", name="real-code:arc-independent-of-its-middle-control-point", note="arcs of span 10..350 degrees x middle control point at 5..95 % of the arc x both directions x centres / radii: span, length, discretisation and the region closed by the chord are those of the circle segment, wherever the middle point sits")
def arc_middle_point(tier, seed):
    import warnings

    import trimesh
    from trimesh.path import arc as arcmod
    from trimesh.path.entities import Arc, Line

    cells = {}
    cases = 0

    def fail(key, detail=""):
        c = cells.setdefault(key, {"what": key, "cell": key, "detail": str(detail)[:300], "count": 0})
        c["count"] += 1

    spans = [10, 45, 90, 135, 170, 179, 181, 190, 225, 270, 300, 350] if tier == "quick" else list(range(5, 360, 5))
    fracs = [0.05, 0.2, 0.5, 0.8, 0.95] if tier == "quick" else [0.02, 0.05, 0.1, 0.2, 0.35, 0.5, 0.65, 0.8, 0.9, 0.95, 0.98]
    frames = [((0.0, 0.0), 1.0, 0.3), ((12.5, -7.0), 3.0, 2.0), ((-100.0, 250.0), 0.02, 5.5)]
    ref_area = {}
    with warnings.catch_warnings():
        warnings.simplefilter("ignore")
        for (cx, cy), r, a0 in frames:
            for deg in spans:
                th = math.radians(deg)
                for direction in (1.0, -1.0):
                    for f in fracs:
                        cases += 1
                        pts = rnp.array([[cx + r * math.cos(a0 + direction * th * t), cy + r * math.sin(a0 + direction * th * t)] for t in (0.0, f, 1.0)])
                        tag = "span=%d frac=%.2f dir=%+d r=%g" % (deg, f, direction, r)
                        try:
                            info = arcmod.arc_center(pts)
                            if abs(float(info.span) - th) > 1e-7:
                                fail("arc_center:span-depends-on-the-middle-point", "%s: span %.9f want %.9f" % (tag, float(info.span), th))
                                continue
                            if abs(float(info.radius) - r) > 1e-7 * max(1.0, r) or float(rnp.abs(rnp.asarray(info.center)[:2] - [cx, cy]).max()) > 1e-6 * max(1.0, abs(cx), abs(cy)):
                                fail("arc_center:centre-or-radius-wrong", tag)
                            d = arcmod.discretize_arc(pts, scale=r)
                            rad = rnp.linalg.norm(d - [cx, cy], axis=1)
                            if float(rnp.abs(rad - r).max()) > 1e-7 * max(1.0, r) or not rnp.allclose(d[0], pts[0], atol=1e-9 * max(1.0, abs(cx), abs(cy))) or not rnp.allclose(d[-1], pts[2], atol=1e-9 * max(1.0, abs(cx), abs(cy))):
                                fail("discretize_arc:points-off-the-circle-or-wrong-ends", tag)
                            # swept monotonically through exactly the span
                            ang = rnp.unwrap(rnp.arctan2(d[:, 1] - cy, d[:, 0] - cx))
                            sweep = rnp.diff(ang) * direction
                            if sweep.min() < -1e-9 or abs(float(sweep.sum()) - th) > 1e-6:
                                fail("discretize_arc:does-not-sweep-the-arc", "%s: swept %.6f" % (tag, float(sweep.sum())))
                            e = Arc([0, 1, 2])
                            if abs(float(e.length(pts)) - r * th) > 1e-6 * max(1.0, r * th):
                                fail("Arc.length:not-radius-times-span", "%s: %.9f want %.9f" % (tag, float(e.length(pts)), r * th))
                            # closed by its chord: the circle segment
                            p = trimesh.path.Path2D(entities=[Arc([0, 1, 2]), Line([2, 0])], vertices=pts.copy(), process=False)
                            want = 0.5 * r * r * (th - math.sin(th))
                            # (the centre of three nearly collinear control points is ill conditioned: the
                            # float error grows like (r / distance between control points)^2, last term)
                            ref = ref_area.setdefault((cx, cy, deg, direction), p.area)
                            if abs(p.area - want) > 2e-2 * max(want, r * r * 1e-3) or abs(p.area - ref) > 1e-9 * max(ref, r * r * 1e-3) + 1e-13 * (cx * cx + cy * cy) + r * r * 1e-14 / (min(f, 1.0 - f) * th) ** 2:
                                fail("path:segment-area-depends-on-the-middle-point", "%s: area %.9g, same arc with another middle point %.9g, exact segment %.6g" % (tag, p.area, ref, want))
                        except Exception as ex:  # noqa: BLE001
                            fail("arc:raised %s" % type(ex).__name__, "%s: %s" % (tag, ex))
    fails = sorted(cells.values(), key=lambda c: c["cell"])
    r_ = common.result(cases, cases, fails, "%d spans x %d middle positions x 2 directions x 3 circles" % (len(spans), len(fracs)), exhaustive=True)
    r_["failures"] = fails
    return r_


# ----------------------------------------------------------------------------- (c) orientation and joining of a discretised loop


def _shoelace(P, n):
    """standard signed area x 2 of the closed polygon P[0..n-1] (P[n-1] == P[0] not required)"""
    return sum([P[i][0] * P[(i + 1)][1] - P[(i + 1)][0] * P[i][1] for i in range(n - 1)])


def _mk_is_ccw(n):
    @contract("C14", "trimesh.util.is_ccw", name="signed-area-orientation-centroid[%d points]" % n, kind="bounded-shape", timeout=60000, note="closed polyline of %d points (first == last), every coordinate" % n)
    def is_ccw(h):
        Q = h.reals("q", (n - 1, 2))
        pts = [[Q[i, 0], Q[i, 1]] for i in range(n - 1)]
        pts.append(pts[0])
        P = h.np.array(pts) if h.mode == "sym" else rnp.array(pts, dtype=float)
        two_a = _shoelace(pts, n)
        h.assume(h.any([two_a > 1e-6, two_a < -1e-6]) if h.mode == "sym" else abs(two_a) > 1e-6)
        f = h.fn("trimesh.util.is_ccw")
        ccw, area, cen = f(P, return_all=True)
        h.check("ccw-iff-positive-signed-area", (ccw == (two_a > 0)) if h.mode != "sym" else h.all([h.implies(two_a > 0, ccw), h.implies(two_a < 0, h.not_(ccw))]))
        h.check("|area|-is-the-shoelace-area", h.eq(area * area * 4.0, two_a * two_a, rtol=1e-9))
        h.check("plain-call-agrees", (bool(f(P)) == bool(ccw)) if h.mode != "sym" else h.all([h.implies(f(P), ccw), h.implies(ccw, f(P))]))
        # reversing the traversal flips the orientation, keeps |area| and the centroid
        R = P[::-1]
        ccw_r, area_r, cen_r = f(R, return_all=True)
        h.check("reversal-flips-orientation", (bool(ccw_r) != bool(ccw)) if h.mode != "sym" else h.all([h.implies(ccw, h.not_(ccw_r)), h.implies(h.not_(ccw), ccw_r)]))
        h.check("reversal-keeps-|area|", h.eq(area_r, -area, rtol=1e-9))
        h.check("reversal-keeps-centroid", h.all([h.eq(cen_r[k] * (6.0 * area_r), cen[k] * (6.0 * area_r), atol=1e-9) for k in range(2)]) if h.mode == "sym" else bool(rnp.allclose(cen_r, cen, atol=1e-7)))
        # starting the closed loop at another vertex changes nothing
        S = [pts[(i + 1) % (n - 1)] for i in range(n - 1)]
        S.append(S[0])
        S = h.np.array(S) if h.mode == "sym" else rnp.array(S, dtype=float)
        ccw_s, area_s, cen_s = f(S, return_all=True)
        h.check("start-vertex-irrelevant", h.all([h.eq(area_s, area, rtol=1e-9)] + ([h.implies(ccw, ccw_s), h.implies(ccw_s, ccw)] if h.mode == "sym" else [bool(ccw_s) == bool(ccw)])))

    return is_ccw


for _n in (4, 5, 6):
    _mk_is_ccw(_n)


class _Ent:
    """ghost entity: a fixed discrete curve"""

    def __init__(self, pts):
        self.pts = pts

    def discrete(self, vertices, scale=1.0):
        return self.pts


def _mk_discretize(sizes):
    tag = "+".join(map(str, sizes))

    @contract("C14", "trimesh.path.traversal.discretize_path", name="loop-joined-once-and-counter-clockwise-whatever-the-traversal[%s]" % tag, kind="bounded-shape", timeout=90000, note="entities with %s points; consecutive end points coincide; every coordinate" % tag)
    def discretize(h):
        k = len(sizes)
        # free points: every entity owns its points except the last one, which is the next entity's first
        own = [h.reals("e%d" % i, (sizes[i] - 1, 2)) for i in range(k)]
        curves = []
        for i in range(k):
            nxt = own[(i + 1) % k]
            rows = [[own[i][j, 0], own[i][j, 1]] for j in range(sizes[i] - 1)] + [[nxt[0, 0], nxt[0, 1]]]
            curves.append(rows)
        loop = [p for c in curves for p in c[:-1]]
        loop.append(loop[0])
        two_a = _shoelace(loop, len(loop))
        h.assume(h.any([two_a > 1e-6, two_a < -1e-6]) if h.mode == "sym" else abs(two_a) > 1e-6)
        mk = (lambda rows: h.np.array(rows)) if h.mode == "sym" else (lambda rows: rnp.array(rows, dtype=float))
        ents = [_Ent(mk(c)) for c in curves]
        V = mk([[0.0, 0.0]])
        f = h.fn("trimesh.path.traversal.discretize_path")
        out = f(ents, V, list(range(k)))
        n = len(loop)
        h.check("every-joint-once", out.shape[0] == n)
        fwd = [h.eq(out[i, c], loop[i][c]) for i in range(n) for c in range(2)]
        bwd = [h.eq(out[i, c], loop[n - 1 - i][c]) for i in range(n) for c in range(2)]
        if h.mode == "sym":
            h.check("as-traversed-when-ccw-else-reversed", h.all([h.implies(two_a > 0, h.all(fwd)), h.implies(two_a < 0, h.all(bwd))]))
        else:
            h.check("as-traversed-when-ccw-else-reversed", all(fwd) if two_a > 0 else all(bwd))
        # the same loop traversed the other way round: entities in reverse order, each reversed
        rev = [_Ent(mk(c[::-1])) for c in curves[::-1]]
        out2 = f(rev, V, list(range(k)))
        h.check("independent-of-traversal-direction", out2.shape[0] == n and h.all([h.eq(out2[i, c], out[i, c]) for i in range(n) for c in range(2)]))
        # starting from another entity: same loop, rotated start (same orientation, same point set)
        if k > 1:
            rot = [ents[(i + 1) % k] for i in range(k)]
            out3 = f(rot, V, list(range(k)))
            off = sizes[0] - 1
            h.check("independent-of-the-first-entity", out3.shape[0] == n and h.all([h.eq(out3[i, c], out[(i + off) % (n - 1), c]) for i in range(n - 1) for c in range(2)]) if h.mode != "sym" else h.all([h.implies(two_a > 0, h.all([h.eq(out3[i, c], out[(i + off) % (n - 1), c]) for i in range(n - 1) for c in range(2)]))]))

    return discretize


for _sz in ((4,), (2, 3), (3, 2, 2), (2, 2, 2, 2)):
    _mk_discretize(_sz)
