"""
C05 — Topological queries equal their combinatorial definitions.

(a) proved for every face count N (lambda arrays) and every integer index:
    geometry.faces_to_edges (edge 3i+k = (F[i,k], F[i,(k+1)%3]), face index 3i+k -> i),
    Trimesh.edges_sorted (row-wise min/max), Trimesh.euler_number = |referenced| - |E| + |F|
    and the delegation chain of the cached properties (ghost self).
(b) bounded, real classes: EVERY face array with |F| <= 2 over 6 vertices - the queries depend
    only on the order/equality pattern of the six index slots, so this covers every pair of
    faces whatever the indices - and every array with |F| = 3 over |V| <= 3 (4 in the
    thorough tier) plus a seeded sample of larger ones; every query of the statement against
    the direct-counting oracle below, both graph engines; Gauss-Bonnet on the closed
    manifold members of the mesh family.  (A symbolic treatment of face_adjacency for two
    faces was tried: sorting six symbolic edge codes explodes into > 10^4 paths and did not
    finish in 20 minutes, so the order-pattern enumeration stands in for it.)
"""
import itertools
import math

import numpy as rnp

from contracts import common
from pyvc import core
from pyvc.engine import Ghost, bounded, contract

GEO = "trimesh.geometry"
GR = "trimesh.graph"
BASE = "trimesh.base.Trimesh"

META = {
    "level": "proof",
    "assumptions": [
        "(M4) scipy.sparse.csgraph.connected_components / networkx.connected_components return the partition into connected components (assumed contract; both engines compared in the bounded tier)",
        "adjacency / watertightness / components are decided by exhaustive enumeration of small face arrays on the real code (bounded), not by proof",
    ],
    "trusted_base": ["pyvc (T1)", "z3 (T2)", "C06 hashable_rows contract"],
}


# ----------------------------------------------------------------------------- (a) all N


@contract("C05", GEO + ".faces_to_edges", name="directed-edges-in-triplets")
def faces_to_edges(h):
    N = h.length("N")
    F = h.lints("F", N, (3,))
    E, fi = h.fn(GEO + ".faces_to_edges")(F, return_index=True)

    def row(i):
        conds = []
        for k in range(3):
            conds.append(h.exact(E[3 * i + k, 0], F[i, k]))
            conds.append(h.exact(E[3 * i + k, 1], F[i, (k + 1) % 3]))
            conds.append(h.exact(fi[3 * i + k], i))
        return conds

    h.check("edge[3i+k]=(F[i,k],F[i,k+1 mod 3]); face_index[3i+k]=i", h.forall(N, row))
    h.check("three-edges-per-face", h.exact(len(E) if h.mode != "sym" else E.shape[0], 3 * N))


@contract("C05", BASE + ".edges_sorted", name="row-wise-min-max")
def edges_sorted(h):
    N = h.length("N")
    E = h.lints("E", N, (2,))
    S = h.method(BASE + ".edges_sorted")(Ghost(edges=E))

    def row(i):
        a, b = E[i, 0], E[i, 1]
        lo = h.ite(a <= b, a, b)
        hi = h.ite(a <= b, b, a)
        return [h.exact(S[i, 0], lo), h.exact(S[i, 1], hi)]

    h.check("sorted-pair", h.forall(N, row))


@contract("C05", BASE + ".euler_number", name="V-E+F")
def euler_number(h):
    nv = h.int("nv")
    ne = h.int("ne")
    nf = h.int("nf")
    h.assume([nv >= 0, ne >= 0, nf >= 0, nv <= 6, ne <= 6, nf <= 6] if h.mode == "sym" else True)

    class _Sum:
        def sum(self):
            return nv

    class _Len:
        def __init__(self, n):
            self.n = n

        def __len__(self):
            return int(self.n)

        def __sym_len__(self):
            return self.n

    out = h.method(BASE + ".euler_number")(Ghost(referenced_vertices=_Sum(), edges_unique=_Len(ne), faces=_Len(nf)))
    h.check("chi=|referenced vertices|-|unique edges|+|faces|", h.exact(out, nv - ne + nf))


# ----------------------------------------------------------------------------- (c) direct-counting oracle on the real classes


def oracle(F, nv):
    """every query of the statement by direct counting on the face list"""
    F = [tuple(int(x) for x in f) for f in F]
    n = len(F)
    edges = []
    for f in F:
        edges += [(f[0], f[1]), (f[1], f[2]), (f[2], f[0])]
    sorted_edges = [tuple(sorted(e)) for e in edges]
    count = {}
    for e in sorted_edges:
        count[e] = count.get(e, 0) + 1
    uniq = sorted(set(sorted_edges))
    adjacency = []
    for e in uniq:
        if count[e] == 2:
            fs = [i // 3 for i, s in enumerate(sorted_edges) if s == e]
            if fs[0] != fs[1]:
                adjacency.append((tuple(sorted(fs)), e))
    referenced = sorted({v for f in F for v in f})
    neighbors = {v: sorted({u for e in uniq for u in e if v in e and u != v} | ({v} if (v, v) in uniq else set())) for v in range(nv)}
    vfaces = {v: [i for i, f in enumerate(F) if v in f] for v in range(nv)}
    degree = {v: sum(1 for f in F for x in f if x == v) for v in range(nv)}
    watertight = n > 0 and all(c == 2 for c in count.values())
    directed = {}
    for e in edges:
        directed[e] = directed.get(e, 0) + 1
    # every sorted edge used exactly twice is traversed once in each direction (a self-loop
    # (v,v) is its own reverse)
    winding = all(count[tuple(sorted(e))] != 2 or e[0] == e[1] or directed.get((e[1], e[0]), 0) == 1 for e in edges) if n else False
    # components over faces (shared edge used exactly twice by two different faces)
    parent = list(range(n))

    def find(x):
        while parent[x] != x:
            parent[x] = parent[parent[x]]
            x = parent[x]
        return x

    for (a, b), _ in adjacency:
        parent[find(a)] = find(b)
    face_comps = len({find(i) for i in range(n)})
    # components over vertices joined by an edge (referenced or not: every vertex counts)
    vp = list(range(nv))

    def vfind(x):
        while vp[x] != x:
            vp[x] = vp[vp[x]]
            x = vp[x]
        return x

    for a, b in uniq:
        vp[vfind(a)] = vfind(b)
    vert_comps = len({vfind(v) for v in range(nv)})
    return dict(edges=edges, uniq=uniq, adjacency=adjacency, referenced=referenced, neighbors=neighbors, vfaces=vfaces, degree=degree, watertight=watertight, winding=winding, euler=len(referenced) - len(uniq) + n, face_comps=face_comps, vert_comps=vert_comps, count=count)


def check_mesh(F, nv, engines=("scipy", "networkx")):
    """list of (query, detail) that differ from the oracle"""
    import trimesh
    from trimesh import graph

    rng = rnp.random.default_rng(5)
    V = rng.random((nv, 3))
    F = rnp.asarray(F, dtype=rnp.int64).reshape(-1, 3)
    m = trimesh.Trimesh(vertices=V, faces=F, process=False, validate=False)
    o = oracle(F, nv)
    bad = []

    def t(name, f):
        try:
            r = f()
            if r is not True:
                bad.append((name, "differs" if r is False else str(r)[:120]))
        except Exception as ex:  # noqa: BLE001
            bad.append((name, "%s: %s" % (type(ex).__name__, str(ex)[:100])))

    t("edges", lambda: [tuple(e) for e in m.edges.tolist()] == o["edges"])
    t("edges_face", lambda: m.edges_face.tolist() == [i // 3 for i in range(3 * len(F))])
    t("edges_sorted", lambda: [tuple(e) for e in m.edges_sorted.tolist()] == [tuple(sorted(e)) for e in o["edges"]])
    t("edges_unique", lambda: sorted(tuple(e) for e in m.edges_unique.tolist()) == o["uniq"] and len(m.edges_unique) == len(o["uniq"]))
    t("edges_unique_inverse", lambda: rnp.array_equal(m.edges_unique[m.edges_unique_inverse], m.edges_sorted))
    t("faces_unique_edges", lambda: all(tuple(m.edges_unique[m.faces_unique_edges[i, k]]) == tuple(sorted(o["edges"][3 * i + k])) for i in range(len(F)) for k in range(3)))

    def adjacency():
        got = sorted((tuple(a), tuple(e)) for a, e in zip(m.face_adjacency.tolist(), m.face_adjacency_edges.tolist()))
        return got == sorted(o["adjacency"])

    t("face_adjacency+edges", adjacency)

    def unshared():
        for (a, b), e, un in zip(m.face_adjacency.tolist(), m.face_adjacency_edges.tolist(), m.face_adjacency_unshared.tolist()):
            for face, u in ((a, un[0]), (b, un[1])):
                rest = [v for v in F[face].tolist() if v not in e]
                if len(rest) == 1 and u != rest[0]:
                    return "face %d shares %s: unshared %s, expected %s" % (face, e, u, rest[0])
        return True

    t("face_adjacency_unshared", unshared)
    t("referenced_vertices", lambda: rnp.flatnonzero(m.referenced_vertices).tolist() == o["referenced"])
    t("euler_number", lambda: m.euler_number == o["euler"])
    t("is_watertight", lambda: bool(m.is_watertight) == o["watertight"])
    if o["watertight"]:
        t("is_winding_consistent", lambda: bool(m.is_winding_consistent) == o["winding"])
    t("vertex_neighbors", lambda: [sorted(int(x) for x in nb) for nb in m.vertex_neighbors] == [o["neighbors"][v] for v in range(nv)])
    # incident faces as a set (a face with a repeated index may be listed once per occurrence)
    t("vertex_faces", lambda: [sorted({int(x) for x in row if x >= 0}) for row in m.vertex_faces.tolist()] == [sorted(set(o["vfaces"][v])) for v in range(nv)] if len(F) else True)
    t("vertex_degree", lambda: m.vertex_degree.tolist() == [o["degree"][v] for v in range(nv)])
    t("body_count", lambda: m.body_count == o["vert_comps"])
    for eng in engines:

        def comps(eng=eng):
            cc = graph.connected_components(edges=m.face_adjacency, nodes=rnp.arange(len(F)), min_len=1, engine=eng)
            flat = sorted(int(i) for c in cc for i in c)
            return len(cc) == o["face_comps"] and flat == list(range(len(F)))

        t("connected_components[%s]" % eng, comps)

        def split(eng=eng):
            parts = m.split(only_watertight=False, engine=eng, repair=False)
            return len(parts) == (o["face_comps"] if len(F) else 0) and sum(len(p.faces) for p in parts) == len(F)

        t("split[%s]" % eng, split)
    return bad


def _face_arrays(tier, rng):
    for f in itertools.product(range(4), repeat=3):
        yield [f], 4
    # two faces: six index slots over six values = every order/equality pattern
    for f in itertools.product(range(6), repeat=6):
        yield [f[:3], f[3:]], 6
    for f in itertools.product(range(3), repeat=9):
        yield [f[:3], f[3:6], f[6:]], 3
    if tier == "thorough":
        for f in itertools.product(range(4), repeat=9):
            yield [f[:3], f[3:6], f[6:]], 4
    n3 = 4000 if tier == "quick" else 60000
    for _ in range(n3):
        nf = int(rng.integers(3, 6))
        nv2 = int(rng.integers(3, 7))
        yield rng.integers(0, nv2, size=(nf, 3)).tolist(), nv2


def _chunk(tier, seed, part, parts):
    rng = rnp.random.default_rng(seed + 55)
    cases = 0
    cells = {}
    for idx, (F, nv) in enumerate(_face_arrays(tier, rng)):
        if idx % parts != part:
            continue
        cases += 1
        for q, why in check_mesh(F, nv):
            c = cells.setdefault(q, {"what": q, "cell": q, "faces": [list(map(int, f)) for f in F], "vertex_count": nv, "detail": why, "count": 0})
            c["count"] += 1
    return cases, cells


def _mk_bounded(part, parts):
    @bounded("C05", name="real-code:all-small-face-arrays[%d/%d]" % (part + 1, parts), note="every face array with |F|<=2 over 6 vertices (all order patterns of two faces), all |F|=3 over 3 vertices (4 in the thorough tier) and a seeded sample of 3-5 faces over 3-6 vertices; 20 queries each against direct counting; both graph engines")
    def small_arrays(tier, seed):
        cases, cells = _chunk(tier, seed, part, parts)
        fails = sorted(cells.values(), key=lambda c: c["cell"])
        r = common.result(cases, cases, fails, "face arrays |F|<=2 over |V|=6 exhaustive; |F|=3 over |V|=3 exhaustive (|V|=4 thorough); seeded sample of larger arrays; slice %d of %d" % (part + 1, parts), exhaustive=True)
        r["failures"] = fails
        return r


for _p in range(16):
    _mk_bounded(_p, 16)


@bounded("C05", name="real-code:gauss-bonnet", note="sum of vertex angle defects = 2*pi*Euler number on the closed manifold members of the mesh family (and subdivisions)")
def gauss_bonnet(tier, seed):
    import trimesh

    fam = [("box", trimesh.creation.box()), ("ico", trimesh.creation.icosphere(subdivisions=1)), ("torus", trimesh.creation.torus(2.0, 0.5, major_sections=8, minor_sections=6)), ("cyl", trimesh.creation.cylinder(0.7, 2.0, sections=7)), ("two", trimesh.util.concatenate([trimesh.creation.box(), trimesh.creation.icosphere(subdivisions=1).apply_translation([5, 0, 0])]))]
    fails = []
    for name, m in fam:
        for mm in (m, m.subdivide()):
            if not (mm.is_watertight and mm.is_winding_consistent):
                continue
            tot = float(mm.vertex_defects.sum())
            if abs(tot - 2 * math.pi * mm.euler_number) > 1e-6:
                fails.append({"what": "gauss-bonnet:%s" % name, "sum_defects": tot, "euler": int(mm.euler_number)})
    return common.result(2 * len(fam), 2 * len(fam), fails, "5 closed manifold meshes (genus 0, genus 1, two bodies) and one subdivision each", exhaustive=True)
