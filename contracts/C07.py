"""
C07 — Re-indexing operations never move triangles or misalign attached data.

Contract form of the statement, for an operation with face map phi (new face -> old face):
   V'[F'[j,k]] = V[F[phi(j),k]]  (within merge tolerance for merges),
   phi strictly increasing for boolean masks / equal to the index list for integer masks,
   0 <= F' < |V'|, per-face data A'[j] = A[phi(j)], per-vertex data B'[F'[j,k]] = B[F[phi(j),k]].

(a) util.append_faces: for every vertex / face content, block m of the result is
    faces_m + sum_{l<m} |V_l|, also when some groups have vertices but no faces (symbolic
    indices and coordinates, group sizes fixed).
(b) Trimesh.update_vertices / update_faces on a ghost self (modular: visuals, cache and
    attribute stores are recording stand-ins): every boolean mask over 4 vertices / 3 faces
    and integer masks (sub-selections, permutations, repetitions) with symbolic coordinates,
    symbolic in-range face indices and symbolic attribute values.
(c) bounded, real classes: a family of meshes (solids, patch, duplicated / degenerate /
    unreferenced / non-finite elements) carrying face and vertex attributes, colours and
    normals that TAG every face and vertex with its original identity, through every
    re-indexing operation and option combination of the statement.
"""
import itertools

import numpy as rnp

from contracts import common
from pyvc import core
from pyvc.engine import Ghost, bounded, contract

UTIL = "trimesh.util"
BASE = "trimesh.base.Trimesh"

META = {
    "level": "proof",
    "assumptions": [
        "(a),(b): array sizes are fixed small numbers; coordinates, indices and attribute values are arbitrary (bounded shape)",
        "(b) is modular: ColorVisuals.update_vertices/update_faces, the cache and the attribute dictionaries are ghost stand-ins that record the mask they were called with; their own behaviour is covered by the bounded tier",
        "merge tolerance: merged vertices agree after rounding to the requested digits (grouping.float_to_int, C06)",
    ],
    "trusted_base": ["pyvc (T1)", "z3 (T2)"],
}


# ----------------------------------------------------------------------------- (a) append_faces

GROUPS = [((2, 1), (3, 2)), ((2, 1), (2, 0), (3, 1)), ((1, 0), (3, 2)), ((3, 1), (1, 0), (1, 0), (3, 1))]


def _mk_append(sizes):
    tag = "+".join("%dv%df" % s for s in sizes)

    @contract("C07", UTIL + ".append_faces", name="blocks-offset-by-preceding-vertex-counts[%s]" % tag, kind="bounded-shape", note="groups (vertices, faces) = %s; every coordinate and every in-range index" % (sizes,))
    def append_faces(h):
        Vs, Fs = [], []
        for g, (nv, nf) in enumerate(sizes):
            V = h.reals("v%d" % g, (nv, 3))
            Vs.append(V)
            if nf:
                F = h.ints("f%d" % g, (nf, 3))
                h.assume([h.all([F[i, k] >= 0, F[i, k] < nv]) for i in range(nf) for k in range(3)])
                Fs.append(F)
            else:
                Fs.append(rnp.zeros((0, 3), dtype=rnp.int64) if h.mode != "sym" else h.np.zeros((0, 3), dtype=rnp.int64))
        V2, F2 = h.fn(UTIL + ".append_faces")(Vs, Fs)
        tot_v = sum(nv for nv, _ in sizes)
        tot_f = sum(nf for _, nf in sizes)
        h.check("counts", V2.shape == (tot_v, 3) and F2.shape == (tot_f, 3))
        # vertices stacked in order
        off = 0
        conds = []
        for g, (nv, nf) in enumerate(sizes):
            for i in range(nv):
                conds.append(h.eq(V2[off + i], Vs[g][i]))
            off += nv
        h.check("vertices-stacked-in-order", h.all(conds))
        # every triangle keeps its three corner positions and its place
        off = 0
        row = 0
        conds = []
        rng = []
        for g, (nv, nf) in enumerate(sizes):
            for i in range(nf):
                for k in range(3):
                    conds.append(h.exact(F2[row, k], Fs[g][i, k] + off))
                    rng.append(h.all([F2[row, k] >= 0, F2[row, k] < tot_v]))
                row += 1
            off += nv
        h.check("faces-offset-by-preceding-vertex-counts", h.all(conds))
        h.check("indices-in-range", h.all(rng))


for _s in GROUPS:
    _mk_append(_s)


# ----------------------------------------------------------------------------- (b) update_vertices / update_faces on a ghost self


class _Rec:
    """ghost visual: records the masks it is asked to apply"""

    def __init__(self):
        self.calls = []

    def update_vertices(self, mask):
        self.calls.append(("vertices", rnp.asarray(mask).tolist()))

    def update_faces(self, mask):
        self.calls.append(("faces", rnp.asarray(mask).tolist()))


class _Cache(dict):
    def __getitem__(self, k):
        return dict.get(self, k)

    def clear(self, exclude=None):
        for k in list(self):
            if not exclude or k not in exclude:
                del self[k]


class _MeshGhost(Ghost):
    """attribute stores of a mesh: plain attributes; normals written through the setter
    names are kept as they are assigned"""

    @property
    def is_empty(self):
        return False


NV, NF = 4, 2


def _mask_cases():
    out = []
    for bits in itertools.product((False, True), repeat=NV):
        if any(bits):
            out.append(("bool:" + "".join("1" if b else "0" for b in bits), rnp.array(bits, dtype=bool)))
    out += [("int:perm3012", rnp.array([3, 0, 1, 2])), ("int:perm1032", rnp.array([1, 0, 3, 2])), ("int:sub20", rnp.array([2, 0])), ("int:rep0012", rnp.array([0, 0, 1, 2, 3])), ("int:identity", rnp.array([0, 1, 2, 3]))]
    return out


def _mk_update_vertices(name, mask):
    @contract("C07", BASE + ".update_vertices", name="corners-and-vertex-data-follow[%s]" % name, kind="bounded-shape", note="4 vertices, 2 faces: every coordinate, every in-range face index, every attribute value; mask %s" % name)
    def update_vertices(h):
        V = h.reals("v", (NV, 3))
        A = h.reals("a", (NV,))
        Nrm = h.reals("n", (NV, 3))
        F = h.ints("f", (NF, 3))
        kept = set(rnp.flatnonzero(mask).tolist()) if mask.dtype == bool else set(int(i) for i in mask)
        # faces only reference vertices that survive (the callers' precondition)
        h.assume([h.any([F[i, k] == v for v in sorted(kept)]) for i in range(NF) for k in range(3)])
        vis = _Rec()
        g = _MeshGhost(vertices=V, faces=F, visual=vis, _cache=_Cache(vertex_normals=Nrm), vertex_attributes={"tag": A, "other-length": [1, 2]}, vertex_normals=None)
        h.method(BASE + ".update_vertices")(g, mask)
        V2, F2 = g.vertices, g.faces
        n2 = int(mask.sum()) if mask.dtype == bool else len(mask)
        if mask.dtype == bool and mask.all():
            h.check("no-op", V2 is V and F2 is F)
            return
        h.check("vertex-count", V2.shape == (n2, 3))
        conds, rng, att, nrm = [], [], [], []
        for i in range(NF):
            for k in range(3):
                j = F2[i, k]
                rng.append(h.all([j >= 0, j < n2]))
                for c in range(3):
                    conds.append(h.eq(_at(h, V2, j, c), _at(h, V, F[i, k], c)))
                att.append(h.eq(_at1(h, g.vertex_attributes["tag"], j), _at1(h, A, F[i, k])))
                if g.vertex_normals is not None:
                    for c in range(3):
                        nrm.append(h.eq(_at(h, g.vertex_normals, j, c), _at(h, Nrm, F[i, k], c)))
        h.check("indices-in-range", h.all(rng))
        h.check("every-corner-keeps-its-position", h.all(conds))
        h.check("vertex-attribute-follows", h.all(att))
        h.check("cached-normals-follow", h.all(nrm))
        h.check("visual-told-the-same-mask", vis.calls == [("vertices", rnp.asarray(mask).tolist())])
        h.check("foreign-length-attribute-untouched", g.vertex_attributes["other-length"] == [1, 2])


def _at(h, arr, j, c):
    """arr[j, c] for a (possibly symbolic) row index j"""
    if h.mode != "sym" or not core.is_sym(j):
        return arr[int(j), c]
    n = arr.shape[0]
    r = arr[n - 1, c]
    for k in range(n - 2, -1, -1):
        r = core.ite(j == k, arr[k, c], r)
    return r


def _at1(h, arr, j):
    if h.mode != "sym" or not core.is_sym(j):
        return arr[int(j)]
    n = arr.shape[0]
    r = arr[n - 1]
    for k in range(n - 2, -1, -1):
        r = core.ite(j == k, arr[k], r)
    return r


for _name, _mask in _mask_cases():
    _mk_update_vertices(_name, _mask)


# ----------------------------------------------------------------------------- (c) bounded tier on the real classes


def _tagged(mk):
    """a mesh whose faces / vertices carry their original identity in every attached store"""
    import trimesh

    m = mk()
    nf, nv = len(m.faces), len(m.vertices)
    m.face_attributes["fid"] = rnp.arange(nf)
    m.vertex_attributes["vid"] = rnp.arange(nv)
    m.vertex_attributes["pos"] = rnp.array(m.vertices, copy=True)
    orig = {"V": rnp.array(m.vertices, copy=True), "F": rnp.array(m.faces, copy=True)}
    return m, orig


def _colored(m, kind):
    nf, nv = len(m.faces), len(m.vertices)
    if kind == "face":
        c = rnp.zeros((nf, 4), dtype=rnp.uint8)
        c[:, 0] = rnp.arange(nf) % 256
        c[:, 1] = rnp.arange(nf) // 256
        c[:, 3] = 255
        m.visual.face_colors = c
    elif kind == "vertex":
        c = rnp.zeros((nv, 4), dtype=rnp.uint8)
        c[:, 0] = rnp.arange(nv) % 256
        c[:, 1] = rnp.arange(nv) // 256
        c[:, 3] = 255
        m.visual.vertex_colors = c
    return m


def _same_pos(a, b, tol):
    a = rnp.asarray(a, dtype=float)
    b = rnp.asarray(b, dtype=float)
    both_nan = rnp.isnan(a) & rnp.isnan(b)
    with rnp.errstate(invalid="ignore"):
        return bool(rnp.all(both_nan | (rnp.abs(a - b) <= tol) | (a == b)))


def check_after(m, orig, tol=0.0, order="increasing", kind=None, allow_new_faces=False):
    """violations of the statement on mesh m (mutated) against the original arrays, using the
    identity tags"""
    bad = []
    F, V = rnp.asarray(m.faces), rnp.asarray(m.vertices)
    if len(F) and (F.min() < 0 or F.max() >= len(V)):
        return ["faces index non-existing vertices"]
    fid = rnp.asarray(m.face_attributes.get("fid", []))
    if len(fid) != len(F):
        return ["face attribute length %d != %d faces" % (len(fid), len(F))]
    for j in range(len(F)):
        o = int(fid[j])
        for k in range(3):
            if not _same_pos(V[F[j, k]], orig["V"][orig["F"][o, k]], tol):
                bad.append("face %d (originally %d) corner %d moved" % (j, o, k))
                break
        if len(bad) > 3:
            break
    if order == "increasing" and len(fid) > 1 and not rnp.all(rnp.diff(fid) > 0):
        bad.append("surviving faces not in their original relative order")
    pos = m.vertex_attributes.get("pos")
    if pos is not None:
        if len(pos) != len(V):
            bad.append("vertex attribute length %d != %d vertices" % (len(pos), len(V)))
        elif not _same_pos(pos, V, tol):
            bad.append("per-vertex attribute no longer attached to its vertex")
    if kind == "face":
        c = rnp.asarray(m.visual.face_colors)
        if len(c) != len(F) or not rnp.array_equal(c[:, 0].astype(int) + 256 * c[:, 1].astype(int), fid):
            bad.append("face colours misaligned")
    if kind == "vertex":
        c = rnp.asarray(m.visual.vertex_colors)
        vid = rnp.asarray(m.vertex_attributes.get("vid"))
        if len(c) != len(V):
            bad.append("vertex colours length")
        elif tol == 0.0 and not rnp.array_equal(c[:, 0].astype(int) + 256 * c[:, 1].astype(int), vid):
            bad.append("vertex colours misaligned")
    return bad


def _family(tier):
    import trimesh

    fam = list(common.meshes(tier))

    def dup_verts():
        # triangle soup with duplicated vertices (merge target) and an unreferenced one
        b = trimesh.creation.box()
        v = b.vertices[b.faces].reshape(-1, 3)
        v = rnp.vstack([v, [[9.0, 9.0, 9.0]]])
        f = rnp.arange(36).reshape(-1, 3)[::-1].copy()
        return trimesh.Trimesh(v, f, process=False)

    def nonfinite():
        m = trimesh.creation.box()
        v = rnp.array(m.vertices)
        v = rnp.vstack([v, [[rnp.nan, 0, 0]], [[rnp.inf, 1, 1]]])
        return trimesh.Trimesh(v, rnp.array(m.faces), process=False)

    def nonfinite_referenced():
        m = trimesh.creation.box()
        v = rnp.array(m.vertices)
        v[3, 1] = rnp.nan
        return trimesh.Trimesh(v, rnp.array(m.faces), process=False)

    def inf_referenced():
        # +inf / -inf in REFERENCED vertices and no NaN anywhere
        m = trimesh.creation.box()
        v = rnp.array(m.vertices)
        v[3, 1] = rnp.inf
        v[6, 0] = -rnp.inf
        return trimesh.Trimesh(v, rnp.array(m.faces), process=False)

    def near_dups():
        m = trimesh.creation.box()
        v = rnp.vstack([m.vertices, m.vertices[:4] + 1e-10])
        f = rnp.array(m.faces)
        f2 = f.copy()
        f2[::2][f2[::2] < 4] += 8
        return trimesh.Trimesh(v, f2, process=False)

    fam += [("dup_verts", dup_verts), ("nonfinite", nonfinite), ("nonfinite_referenced", nonfinite_referenced), ("inf_referenced", inf_referenced), ("near_dups", near_dups)]
    return fam


def _operations(rng):
    """(name, fn(mesh), tolerance, face-order expectation)"""
    ops = []

    def face_masks(m):
        n = len(m.faces)
        return [("bool-drop-first", rnp.arange(n) != 0), ("bool-every-other", rnp.arange(n) % 2 == 0), ("bool-all", rnp.ones(n, dtype=bool)), ("int-reversed", rnp.arange(n)[::-1].copy()), ("int-repeated", rnp.array([0, 0, n - 1, 0][: max(1, min(4, n))])), ("int-permutation", rng.permutation(n))]

    for nm in ("bool-drop-first", "bool-every-other", "bool-all", "int-reversed", "int-repeated", "int-permutation"):
        ops.append(("update_faces[%s]" % nm, lambda m, nm=nm: m.update_faces(dict(face_masks(m))[nm]), 0.0, "increasing" if nm.startswith("bool") else "any"))
    ops.append(("update_vertices[referenced]", lambda m: m.update_vertices(m.referenced_vertices), 0.0, "increasing"))
    ops.append(("update_vertices[int-permutation]", lambda m: m.update_vertices(rng.permutation(len(m.vertices))), 0.0, "increasing"))
    ops.append(("update_vertices[int-identity]", lambda m: m.update_vertices(rnp.arange(len(m.vertices))), 0.0, "increasing"))
    ops.append(("remove_unreferenced_vertices", lambda m: m.remove_unreferenced_vertices(), 0.0, "increasing"))
    for kw in ({}, {"merge_tex": True}, {"merge_norm": True}, {"digits_vertex": 4}, {"merge_tex": True, "merge_norm": True}):
        ops.append(("merge_vertices[%s]" % ",".join("%s=%s" % i for i in kw.items()), lambda m, kw=kw: m.merge_vertices(**kw), 1e-4 if "digits_vertex" in kw else 2e-8, "increasing"))
    ops.append(("unmerge_vertices", lambda m: m.unmerge_vertices(), 0.0, "increasing"))
    ops.append(("reorder-then-unmerge", lambda m: (m.update_faces(rnp.arange(len(m.faces))[::-1].copy()), m.unmerge_vertices(), m.unmerge_vertices()), 0.0, "any"))
    ops.append(("unique_faces", lambda m: m.update_faces(m.unique_faces()), 0.0, "increasing"))
    ops.append(("nondegenerate_faces", lambda m: m.update_faces(m.nondegenerate_faces()), 0.0, "increasing"))
    ops.append(("remove_infinite_values", lambda m: m.remove_infinite_values(), 0.0, "increasing"))
    ops.append(("process", lambda m: m.process(), 2e-8, "any"))
    ops.append(("process[validate]", lambda m: m.process(validate=True), 2e-8, "any"))
    return ops


@bounded("C07", name="real-code:tagged-reindexing", note="mesh family (solids, patch, duplicate / degenerate / unreferenced / non-finite elements) with identity tags in face/vertex attributes and colours, through every re-indexing operation and option")
def tagged_reindexing(tier, seed):
    import warnings

    rng = rnp.random.default_rng(seed + 7)
    cells = {}
    cases = 0
    for mname, mk in _family(tier):
        for oname, op, tol, order in _operations(rng):
            for kind in (None, "face", "vertex"):
                cases += 1
                m, orig = _tagged(mk)
                _colored(m, kind)
                if kind is None and "vertex_normals" not in m._cache:
                    try:
                        m.vertex_normals, m.face_normals  # cached normals are attached data too
                    except Exception:  # noqa: BLE001
                        pass
                try:
                    with warnings.catch_warnings():
                        warnings.simplefilter("ignore")
                        op(m)
                    bad = check_after(m, orig, tol=tol, order=order, kind=kind)
                    if kind is None and len(m.faces) and "face_normals" in m._cache:
                        import trimesh

                        fresh = trimesh.Trimesh(rnp.array(m.vertices), rnp.array(m.faces), process=False)
                        fn, ff = rnp.asarray(m.face_normals), rnp.asarray(fresh.face_normals)
                        if fn.shape != ff.shape or not rnp.allclose(rnp.nan_to_num(fn), rnp.nan_to_num(ff), atol=1e-6):
                            bad.append("cached face normals no longer belong to their faces")
                except Exception as ex:  # noqa: BLE001
                    bad = ["raised %s: %s" % (type(ex).__name__, str(ex)[:100])]
                for b in bad[:2]:
                    key = "%s:%s" % (oname, b.split(" (")[0] if b.startswith("face ") else b)
                    key = key[:110]
                    c = cells.setdefault(key, {"what": key, "cell": key, "mesh": mname, "colour": kind, "detail": b, "count": 0})
                    c["count"] += 1
    fails = sorted(cells.values(), key=lambda c: c["cell"])
    r = common.result(cases, cases, fails, "%d meshes x %d operations x 3 colour modes" % (len(_family(tier)), len(_operations(rng))), exhaustive=True)
    r["failures"] = fails
    return r


@bounded("C07", name="real-code:submesh-split-concatenate", note="submesh of every single face and of random subsets, split (repair off) then concatenate = original triangle multiset, concatenation with face-less and empty members, per-face / per-vertex data carried")
def split_concat(tier, seed):
    import warnings

    import trimesh

    rng = rnp.random.default_rng(seed + 77)
    cells = {}
    cases = 0

    def fail(key, **kw):
        c = cells.setdefault(key, dict(what=key, cell=key, count=0, **kw))
        c["count"] += 1

    for mname, mk in _family(tier):
        m, orig = _tagged(mk)
        if rnp.isnan(orig["V"]).any() or rnp.isinf(orig["V"]).any():
            continue
        nf = len(m.faces)
        # submesh
        subsets = [[i] for i in range(min(nf, 6))] + [sorted(rng.choice(nf, size=max(1, nf // 2), replace=False).tolist()) for _ in range(3)]
        for sub in subsets:
            cases += 1
            try:
                with warnings.catch_warnings():
                    warnings.simplefilter("ignore")
                    s = m.submesh([sub], append=True, repair=False)
                if common.tri_multiset(s.triangles) != common.tri_multiset(orig["V"][orig["F"][sub]]):
                    fail("submesh:triangles-differ", mesh=mname, faces=sub)
                if "fid" in s.face_attributes and sorted(rnp.asarray(s.face_attributes["fid"]).tolist()) != sorted(sub):
                    fail("submesh:face-attribute-misaligned", mesh=mname, faces=sub)
            except Exception as ex:  # noqa: BLE001
                fail("submesh:raised %s" % type(ex).__name__, mesh=mname, detail=str(ex)[:100])
        # split + concatenate
        for eng in ("scipy", "networkx"):
            cases += 1
            try:
                with warnings.catch_warnings():
                    warnings.simplefilter("ignore")
                    parts = m.split(only_watertight=False, repair=False, engine=eng)
                    whole = trimesh.util.concatenate(list(parts)) if len(parts) else None
                got = common.tri_multiset(whole.triangles) if whole is not None else []
                if got != common.tri_multiset(orig["V"][orig["F"]]):
                    fail("split+concatenate:triangle-multiset-differs[%s]" % eng, mesh=mname)
                for p in parts:
                    if len(p.faces) and (p.faces.max() >= len(p.vertices) or p.faces.min() < 0):
                        fail("split:faces-out-of-range[%s]" % eng, mesh=mname)
            except Exception as ex:  # noqa: BLE001
                fail("split+concatenate:raised %s[%s]" % (type(ex).__name__, eng), mesh=mname, detail=str(ex)[:100])
        # concatenate with members that have vertices but no faces / nothing at all
        a, _ = _tagged(mk)
        b, _ = _tagged(mk)
        b.apply_translation([10.0, 0, 0])
        empty_faces = trimesh.Trimesh(vertices=rnp.array(orig["V"]) + 50.0, faces=rnp.zeros((0, 3), dtype=rnp.int64), process=False)
        for tag, seq in (("plain", [a, b]), ("faceless-member-in-the-middle", [a, empty_faces, b]), ("faceless-member-first", [empty_faces, a, b]), ("three", [a, b, a.copy().apply_translation([0, 20.0, 0])])):
            cases += 1
            try:
                with warnings.catch_warnings():
                    warnings.simplefilter("ignore")
                    c = trimesh.util.concatenate(seq)
                want = []
                for s in seq:
                    if len(s.faces):
                        want += common.tri_multiset(s.triangles)
                if common.tri_multiset(c.triangles) != sorted(want):
                    fail("concatenate[%s]:triangles-moved" % tag, mesh=mname)
                if len(c.faces) and c.faces.max() >= len(c.vertices):
                    fail("concatenate[%s]:faces-out-of-range" % tag, mesh=mname)
                # faces keep their relative order: block by block
                tri = rnp.asarray(c.triangles)
                k = 0
                for s in seq:
                    n = len(s.faces)
                    if n and not rnp.allclose(tri[k : k + n], rnp.asarray(s.triangles), atol=1e-12):
                        fail("concatenate[%s]:face-order-changed" % tag, mesh=mname)
                    k += n
            except Exception as ex:  # noqa: BLE001
                fail("concatenate[%s]:raised %s" % (tag, type(ex).__name__), mesh=mname, detail=str(ex)[:100])
    # colours ride along with their triangles whichever member comes first
    box = trimesh.creation.box
    for kind in ("vertex", "face"):
        for order in ("coloured-first", "plain-first", "plain-in-the-middle", "empty-then-plain-then-coloured"):
            cases += 1
            try:
                def coloured(shift):
                    m = box()
                    m.apply_translation([shift, 0, 0])
                    if kind == "vertex":
                        m.visual.vertex_colors = rnp.column_stack([rnp.arange(8) * 30, rnp.full(8, 7), rnp.full(8, 200), rnp.full(8, 255)]).astype(rnp.uint8)
                    else:
                        m.visual.face_colors = rnp.column_stack([rnp.arange(12) * 20, rnp.full(12, 9), rnp.full(12, 100), rnp.full(12, 255)]).astype(rnp.uint8)
                    return m

                plain = box().apply_translation([0, 5.0, 0])
                c1, c2 = coloured(3.0), coloured(9.0)
                seq = {"coloured-first": [c1, plain, c2], "plain-first": [plain, c1, c2], "plain-in-the-middle": [c1, plain, c2], "empty-then-plain-then-coloured": [trimesh.Trimesh(), plain, c1, c2]}[order]
                with warnings.catch_warnings():
                    warnings.simplefilter("ignore")
                    c = trimesh.util.concatenate(seq)
                if c.visual.kind != kind:
                    fail("concatenate:%s-colours-lost[%s]" % (kind, order), mesh="box", detail="kind %r" % (c.visual.kind,))
                    continue
                # per triangle corner colours of the coloured members, found by position
                k = 0
                for s_ in seq:
                    n = len(s_.faces)
                    if n and s_.visual.kind == kind:
                        got = rnp.asarray(c.visual.face_colors)[k : k + n] if kind == "face" else rnp.asarray(c.visual.vertex_colors)[rnp.asarray(c.faces)[k : k + n]]
                        want_c = rnp.asarray(s_.visual.face_colors) if kind == "face" else rnp.asarray(s_.visual.vertex_colors)[rnp.asarray(s_.faces)]
                        if not rnp.array_equal(got, want_c):
                            fail("concatenate:%s-colours-moved[%s]" % (kind, order), mesh="box")
                    k += n
            except Exception as ex:  # noqa: BLE001
                fail("concatenate:colours raised %s[%s;%s]" % (type(ex).__name__, kind, order), mesh="box", detail=str(ex)[:100])
    fails = sorted(cells.values(), key=lambda c: c["cell"])
    r = common.result(cases, cases, fails, "mesh family x (9 submeshes, split with 2 engines, 4 concatenations) + colours through 8 concatenation orders", exhaustive=True)
    r["failures"] = fails
    return r


# ----------------------------------------------------------------------------- update_faces for every face count (lambda arrays, filter axioms)


@contract("C07", BASE + ".update_faces", name="boolean-mask-keeps-rows-aligned[all N]")
def update_faces_all_n(h):
    """every face count N, every boolean mask: the surviving faces, every per-face attribute
    of matching length and the cached face normals are the SAME rows of the originals (row j
    of each result is row fid'[j] of its source), in increasing original order"""
    N = h.length("N")
    F = h.lints("F", N, (3,))
    A = h.lreals("A", N, ())
    Nrm = h.lreals("Nr", N, (3,))
    M = h.lbools("M", N, ())
    fid = h.np.arange(N) if h.mode == "sym" else rnp.arange(int(N))
    vis = _Rec() if h.mode != "sym" else Ghost(update_faces=lambda mask: None)
    g = _MeshGhost(faces=F, visual=vis, _cache=_Cache(face_normals=Nrm), _data={"faces": F}, face_attributes={"tag": A, "fid": fid, "scalar": 3.0}, face_normals=None)
    h.method(BASE + ".update_faces")(g, M)
    if g.faces is F:
        # nothing removed: only allowed when the mask is all True
        h.check("no-op-only-for-all-true-mask", h.forall(N, lambda i: M[i]))
        return
    F2, A2, fid2, N2rm = g.faces, g.face_attributes["tag"], g.face_attributes["fid"], g.face_normals
    n2 = F2.shape[0]

    def row(j):
        o = fid2[j]
        conds = [h.all([o >= 0, o < N]), M[o] if h.mode == "sym" else bool(M[int(o)])]
        conds += [h.exact(F2[j, k], F[o, k]) for k in range(3)]
        conds.append(h.eq(A2[j], A[o]))
        if N2rm is not None:
            conds += [h.eq(N2rm[j, k], Nrm[o, k]) for k in range(3)]
        return conds

    h.check("row-j-of-every-store-is-original-row-fid[j]", h.forall(n2 if h.mode == "sym" else len(F2), row))
    h.check("normals-kept", N2rm is not None)
    h.check("scalar-attribute-untouched", g.face_attributes["scalar"] == 3.0)
