"""
C09 — Scene-graph transforms are the product of current edges along the path.

Ghost state (abstract view): `view` = {child: (parent, E)}, the forest with one matrix per
edge.  Spec:  T(a,b) = X_0 . X_1 ... X_{m-1}  along the unique path a=p_0 .. p_m=b,
X_j = E(p_j,p_{j+1}) when p_j is the parent of p_{j+1}, else inv(E(p_{j+1},p_j)).

(a) `SceneGraph.get` against that spec for every ordered pair of every forest shape on four
    named frames, with every edge matrix an arbitrary real affine matrix (12 symbols each):
    the identity filter (factors within 1e-8 of I are dropped) is explored on every path.
(b) Representation invariant by induction over histories: from every abstract pre-state
    (forest shape x which caches are populated) every mutator is applied once with fresh
    symbolic matrices; afterwards the real fields equal the ghost view (I1 edge keys,
    I2 nodes, I3 hash memo, I4 path cache) and EVERY query (all ordered pairs, base-frame
    form, nodes, geometry maps, children, flattening, edge-list round trip) equals the spec
    on the new view.  Entry validity is per entry and every mutator either dumps a cache
    completely or leaves it, so {no entry, every entry} pre-populations cover the subsets.
(c) kwargs_to_matrix precedence and content; fix_rigid returns its argument outside the
    repair band.
(d) bounded: seeded random histories on the really imported classes (default repair_rigid),
    numpy oracle.
The laws T(a,a)=I, T(a,c)=T(a,b).T(b,c) for b on the path, T(a,b).T(b,a)=I are consequences
of the spec by matrix algebra (inv as the group inverse); they are evaluated numerically in (d).
"""
import itertools

import numpy as rnp

from contracts import common
from pyvc import core
from pyvc.engine import bounded, contract

SG = "trimesh.scene.transforms"
TFM = "trimesh.transformations"

META = {
    "level": "proof",
    "assumptions": [
        "forest shapes are all parent maps over the four named frames w,a,b,c up to relabelling plus one fresh frame for insertions (bounded shape); edge matrices are arbitrary real affine matrices (unbounded)",
        "numpy.linalg.inv is an uninterpreted function of its argument with A.inv(A)=inv(A).A=I (assumed contract); the algebraic laws (inverse, composition, identity) follow from the product spec by matrix algebra and are not re-proved from the code",
        "content hash of a symbolic matrix is an injective function of its terms (T5)",
        "the symbolic tier runs SceneGraph(repair_rigid=None); fix_rigid is contracted separately and the default configuration is covered by the bounded tier",
        "queries name existing frames only (SceneGraph.get on an unknown frame name is outside the statement)",
        "(b) assumes no edge matrix or its inverse lies within 1e-8 of the identity (the filter is covered exhaustively in (a))",
    ],
    "trusted_base": ["pyvc (T1)", "z3/cvc5 (T2)", "float64 == real (T4)", "hash_fast collision freedom (T5)", "numpy.linalg.inv contract"],
}

SHAPES = {
    "chain": {"a": "w", "b": "a", "c": "b"},
    "star": {"a": "w", "b": "w", "c": "w"},
    "fork": {"a": "w", "b": "a", "c": "a"},
    "side": {"a": "w", "b": "a", "c": "w"},
    "two-trees": {"a": "w", "c": "b"},
}
GEOM = {"a": "ga", "c": "gc"}  # nodes that carry a geometry name (b: none)
I4 = [[1.0, 0.0, 0.0, 0.0], [0.0, 1.0, 0.0, 0.0], [0.0, 0.0, 1.0, 0.0], [0.0, 0.0, 0.0, 1.0]]


def affine(h, name):
    """an arbitrary real affine 4x4 matrix (last row 0 0 0 1)"""
    A = h.reals(name, (3, 4))
    np = h.np
    M = np.array(np.eye(4)) if h.mode == "sym" else rnp.eye(4)
    M = M.copy()
    M[:3, :] = A
    return M


def det3(M):
    a = M
    return a[0, 0] * (a[1, 1] * a[2, 2] - a[1, 2] * a[2, 1]) - a[0, 1] * (a[1, 0] * a[2, 2] - a[1, 2] * a[2, 0]) + a[0, 2] * (a[1, 0] * a[2, 1] - a[1, 1] * a[2, 0])


def nonsingular(h, M):
    """the edge matrices are invertible.  Symbolically inv is an uninterpreted function, so
    nothing needs det != 0 (and leaving the cubic out keeps every query linear); on replay
    the concrete matrix has to be invertible for numpy"""
    if h.mode != "sym":
        h.assume(abs(det3(M)) > 1e-6)


def maxdev(h, M):
    """max |M - I| as a scalar (symbolic or float)"""
    d = None
    for r in range(4):
        for c in range(4):
            e = abs(M[r, c] - I4[r][c])
            if d is None:
                d = e
            else:
                d = core.sym_max(d, e) if h.mode == "sym" else max(d, e)
    return d


def inv(h, M):
    return h.np.linalg.inv(M)


def build(h, shape, tag="E", geometry=True, repair=None):
    tf = h.module(SG)
    h.opaque_inverse()
    g = tf.SceneGraph(base_frame="w", repair_rigid=repair)
    view = {}
    geo = {}
    for child, parent in shape.items():
        M = affine(h, "%s%s" % (tag, child))
        nonsingular(h, M)
        kw = {}
        if geometry and child in GEOM:
            kw["geometry"] = GEOM[child]
            geo[child] = GEOM[child]
        g.update(frame_to=child, frame_from=parent, matrix=M, **kw)
        view[child] = (parent, M)
    return g, view, geo


def shape_view(shape):
    return {c: (p, None) for c, p in shape.items()}


def nodes_of(view):
    out = []
    for c, (p, _) in view.items():
        for x in (p, c):
            if x not in out:
                out.append(x)
    return out


def spec_path(view, a, b):
    def anc(x):
        out = [x]
        while out[-1] in view and len(out) < 50:
            out.append(view[out[-1]][0])
        return out

    A, B = anc(a), anc(b)
    common_ = [x for x in A if x in B]
    if not common_:
        return None
    l = common_[0]
    return A[: A.index(l) + 1] + B[: B.index(l)][::-1]


def spec_factors(h, view, a, b):
    path = spec_path(view, a, b)
    if path is None:
        return None
    out = []
    for u, v in zip(path[:-1], path[1:]):
        if v in view and view[v][0] == u:
            out.append(view[v][1])
        else:
            out.append(inv(h, view[u][1]))
    return out


def product(h, factors):
    if not factors:
        return h.np.array(I4) if h.mode == "sym" else rnp.eye(4)
    r = factors[0]
    for f in factors[1:]:
        r = h.np.dot(r, f)
    return r


def matches_product(h, result, factors, tol=1e-8):
    """result = product of the factors, where a factor may have been replaced by I only if
    it lies within `tol` of I (the identity-filter slack of the statement).  Symbolically the
    path condition says which factors the code dropped: a factor counts as dropped only if
    the path condition IMPLIES it is within tol of the identity."""
    if h.mode == "sym":
        import z3

        c = core.ctx()
        kept = []
        for f in factors:
            near = core.tobool(h.le(maxdev(h, f), tol))
            implied = not core._feasible(c, z3.Not(near))
            if not implied:
                kept.append(f)
        return h.eq(result, product(h, kept))
    exact = h.eq(result, product(h, factors))
    filt = [f for f in factors if not maxdev(h, f) <= tol + 1e-12]
    return exact or h.eq(result, product(h, filt))


def generic(h, view):
    """(b): no factor is within 1e-8 of the identity"""
    for c, (p, M) in view.items():
        if h.mode == "sym":
            h.assume(maxdev(h, M) > 1e-6)
            h.assume(maxdev(h, inv(h, M)) > 1e-6)
        else:
            h.assume(maxdev(h, M) > 1e-6 and maxdev(h, rnp.linalg.inv(M)) > 1e-6)


# ----------------------------------------------------------------------------- (a) get = product, all pairs


def _mk_get(shape_name, a, b):
    @contract("C09", SG + ".SceneGraph.get", name="product-along-path[%s:%s->%s]" % (shape_name, a, b), kind="bounded-shape", note="forest shape fixed, every real affine edge matrix; identity filter explored", max_paths=600)
    def get_pair(h):
        g, view, geo = build(h, SHAPES[shape_name])
        fac = spec_factors(h, view, a, b)
        try:
            M, geom = g.get(frame_to=b, frame_from=a)
            raised = False
        except ValueError:
            raised = True
        h.check("raises-iff-disconnected", raised == (fac is None))
        if raised or fac is None:
            return
        h.check("get=product-of-current-edges", matches_product(h, M, fac))
        h.check("geometry-of-target", geom == geo.get(b))
        # asked again (now served from the caches) the answer is the same
        M2, geom2 = g.get(frame_to=b, frame_from=a)
        h.check("repeat-query-same", h.all([h.eq(M2, M), geom2 == geom]))
        # the base-frame form
        if a == "w":
            M3, _ = g.get(b)
            h.check("default-frame_from=base_frame", h.eq(M3, M))
            M4, _ = g[b]
            h.check("__getitem__=get", h.eq(M4, M))


for _sn, _sh in SHAPES.items():
    _nodes = nodes_of(shape_view(_sh))
    for _a in _nodes:
        for _b in _nodes:
            _mk_get(_sn, _a, _b)


# ----------------------------------------------------------------------------- (b) invariant + all queries after every mutator


def check_all(h, g, view, geo, extra_nodes=(), label=""):
    """real fields == ghost view; every query == spec(view)"""
    f = g.transforms
    nodes = nodes_of(view)
    for x in extra_nodes:
        if x not in nodes:
            nodes.append(x)
    L = label
    h.check(L + "I1-edge-keys", set(f.edge_data.keys()) == {(p, c) for c, (p, _) in view.items()} and dict(f.parents) == {c: p for c, (p, _) in view.items()})
    h.check(L + "I1-edge-matrices", h.all([h.eq(f.edge_data[(p, c)]["matrix"], M) for c, (p, M) in view.items() if (p, c) in f.edge_data]))
    h.check(L + "I2-nodes", set(f.node_data.keys()) == set(nodes) and set(g.nodes) == set(nodes))
    # I3: the memoised hash is absent or current
    saved = getattr(f, "_hash", None)
    f._hash = None
    cur = f.__hash__()
    f._hash = saved
    h.check(L + "I3-hash-memo-current", saved is None or saved == cur)
    # I4: every memoised path is the path under the current parents
    ok = True
    for k, v in f._cache.items():
        if k == "children":
            want = {}
            for c, (p, _) in view.items():
                want.setdefault(p, []).append(c)
            ok = ok and {kk: sorted(vv) for kk, vv in v.items()} == {kk: sorted(vv) for kk, vv in want.items()}
        else:
            ok = ok and list(v) == spec_path(view, k[0], k[1])
    h.check(L + "I4-path-cache-current", ok)
    # observable: all ordered pairs
    conds = []
    rcond = []
    gcond = []
    for a in nodes:
        for b in nodes:
            fac = spec_factors(h, view, a, b)
            try:
                M, geom = g.get(frame_to=b, frame_from=a)
                raised = False
            except ValueError:
                raised = True
            rcond.append(raised == (fac is None))
            if not raised and fac is not None:
                conds.append(h.eq(M, product(h, fac)))
                gcond.append(geom == geo.get(b))
    h.check(L + "raises-iff-disconnected", all(rcond))
    h.check(L + "get=product-of-current-edges", h.all(conds))
    h.check(L + "geometry-of-target", all(gcond))
    # derived views
    want_ng = sorted(n for n in nodes if n in geo)
    h.check(L + "nodes_geometry", sorted(g.nodes_geometry) == want_ng)
    gn = {}
    for n in nodes:
        if n in geo:
            gn.setdefault(geo[n], []).append(n)
    h.check(L + "geometry_nodes", {k: sorted(v) for k, v in dict(g.geometry_nodes).items()} == {k: sorted(v) for k, v in gn.items()})
    ch = {}
    for c, (p, _) in view.items():
        ch.setdefault(p, []).append(c)
    h.check(L + "children", {k: sorted(v) for k, v in f.children.items()} == {k: sorted(v) for k, v in ch.items()})
    for n in nodes:
        desc = {n}
        grew = True
        while grew:
            grew = False
            for c, (p, _) in view.items():
                if p in desc and c not in desc:
                    desc.add(c)
                    grew = True
        h.check(L + "successors", set(f.successors(n)) == desc)
    # flattening relative to the base frame
    base = g.base_frame
    if base in nodes and all(spec_path(view, base, n) is not None for n in nodes):
        flat = g.to_flattened()
        fc = [set(flat.keys()) == set(nodes) - {base}]
        for n, d in flat.items():
            fc.append(h.eq(h.np.array(d["transform"]) if h.mode == "sym" else rnp.array(d["transform"]), product(h, spec_factors(h, view, base, n))))
            fc.append(d["geometry"] == geo.get(n))
        h.check(L + "to_flattened", h.all(fc))
    # edge list export rebuilds an equivalent graph
    tf = h.module(SG)
    g2 = tf.SceneGraph(base_frame=g.base_frame, repair_rigid=None)
    el = g.to_edgelist()
    g2.from_edgelist(el)
    f2 = g2.transforms
    rc = [dict(f2.parents) == dict(f.parents), set(f2.edge_data.keys()) == set(f.edge_data.keys())]
    for k in f.edge_data:
        if k in f2.edge_data:
            rc.append(h.eq(f2.edge_data[k]["matrix"], f.edge_data[k]["matrix"]))
    rc.append({n: d.get("geometry") for n, d in f2.node_data.items() if n in set(nodes_of(view))} == {n: geo.get(n) for n in nodes_of(view)})
    h.check(L + "edgelist-roundtrip", h.all(rc))


def populate(h, g, view, how):
    nodes = nodes_of(view)
    if how == "none":
        return
    if how in ("all", "hash"):
        hash(g)
    if how == "all":
        for a in nodes:
            for b in nodes:
                try:
                    g.get(frame_to=b, frame_from=a)
                except ValueError:
                    pass
        g.nodes
        g.nodes_geometry
        g.geometry_nodes
        g.transforms.children
        for n in nodes:
            g.transforms.successors(n)
    if how == "base":
        for b in nodes:
            try:
                g.get(b)
            except ValueError:
                pass


def descendants(view, v):
    d = {v}
    grew = True
    while grew:
        grew = False
        for c, (p, _) in view.items():
            if p in d and c not in d:
                d.add(c)
                grew = True
    return d


def ops_for(shape):
    """(name, fn(h, g, view, geo) -> (view2, geo2, extra_nodes))"""
    out = []
    nodes = nodes_of(shape_view(shape))
    for c, p in shape.items():

        def upd(h, g, view, geo, c=c, p=p):
            N = affine(h, "N")
            nonsingular(h, N)
            # a genuine change: some entry differs by more than the 1e-8 no-change tolerance
            old = view[c][1]
            if h.mode == "sym":
                h.assume(h.any([abs(N[r, k] - old[r, k]) > 1e-6 for r in range(3) for k in range(4)]))
            else:
                h.assume(float(rnp.abs(N - old).max()) > 1e-6)
            g.update(frame_to=c, frame_from=p, matrix=N, **({"geometry": geo[c]} if c in geo else {}))
            v2 = dict(view)
            v2[c] = (p, N)
            return v2, geo, ()

        out.append(("update-edge[%s]" % c, upd))

        def same(h, g, view, geo, c=c, p=p):
            M = view[c][1]
            changed = g.transforms.add_edge(p, c, matrix=M.copy(), **({"geometry": geo[c]} if c in geo else {}))
            h.check("no-change-reported", changed is False)
            return view, geo, ()

        out.append(("update-same[%s]" % c, same))

        if p == "w":

            def setitem(h, g, view, geo, c=c):
                N = affine(h, "N")
                nonsingular(h, N)
                old = view[c][1]
                if h.mode == "sym":
                    h.assume(h.any([abs(N[r, k] - old[r, k]) > 1e-6 for r in range(3) for k in range(4)]))
                else:
                    h.assume(float(rnp.abs(N - old).max()) > 1e-6)
                g[c] = N
                v2 = dict(view)
                v2[c] = ("w", N)
                # __setitem__ passes no geometry: the node keeps its geometry name
                return v2, geo, ()

            out.append(("setitem[%s]" % c, setitem))

        def geomchg(h, g, view, geo, c=c, p=p):
            g.update(frame_to=c, frame_from=p, matrix=view[c][1].copy(), geometry="other")
            g2 = dict(geo)
            g2[c] = "other"
            return view, g2, ()

        out.append(("geometry-change[%s]" % c, geomchg))

        def rem(h, g, view, geo, u=c):
            changed = g.transforms.remove_node(u)
            h.check("change-reported", changed is True)
            v2 = {k: v for k, v in view.items() if k != u and v[0] != u}
            g2 = {k: v for k, v in geo.items() if k != u}
            keep = [n for n in nodes_of(view) if n != u]
            return v2, g2, keep

        out.append(("remove-node[%s]" % c, rem))

    for p in nodes + ["n0"]:

        def leaf(h, g, view, geo, p=p):
            N = affine(h, "N")
            nonsingular(h, N)
            g.update(frame_to="n", frame_from=p, matrix=N, geometry="gn")
            v2 = dict(view)
            v2["n"] = (p, N)
            g2 = dict(geo)
            g2["n"] = "gn"
            return v2, g2, nodes_of(view)

        out.append(("add-leaf[%s]" % p, leaf))

    sv = shape_view(shape)
    for v in shape:
        for u in nodes:
            if u in descendants(sv, v) or shape[v] == u:
                continue

            def rep(h, g, view, geo, v=v, u=u):
                N = affine(h, "N")
                nonsingular(h, N)
                g.update(frame_to=v, frame_from=u, matrix=N, **({"geometry": geo[v]} if v in geo else {}))
                v2 = dict(view)
                v2[v] = (u, N)
                return v2, geo, nodes_of(view)

            out.append(("reparent[%s->%s]" % (v, u), rep))

    for u in nodes:
        if u == "w":
            continue

        def base(h, g, view, geo, u=u):
            g.base_frame = u
            conds = []
            for b in nodes_of(view):
                fac = spec_factors(h, view, u, b)
                if fac is None:
                    continue
                M, _ = g.get(b)
                conds.append(h.eq(M, product(h, fac)))
                M2, _ = g[b]
                conds.append(h.eq(M2, M))
            h.check("base-frame-read-afresh", h.all(conds))
            return view, geo, ()

        out.append(("base-frame[%s]" % u, base))

    def remgeo(h, g, view, geo):
        g.remove_geometries("ga")
        return view, {k: v for k, v in geo.items() if v != "ga"}, ()

    out.append(("remove-geometries", remgeo))

    def clear(h, g, view, geo):
        g.clear()
        return {}, {}, ()

    out.append(("clear", clear))

    def transl(h, g, view, geo):
        c = next(iter(view))
        p = view[c][0]
        t = h.reals("t", 3)
        if h.mode == "sym":
            h.assume(h.any([abs(t[k]) > 1e-3 for k in range(3)]))
            h.assume(h.any([abs(t[k] - view[c][1][k, 3]) > 1e-3 for k in range(3)] + [abs(view[c][1][r, k] - I4[r][k]) > 1e-3 for r in range(3) for k in range(3)]))
        else:
            h.assume(float(rnp.abs(t).max()) > 1e-3)
        g.update(frame_to=c, frame_from=p, translation=t, **({"geometry": geo[c]} if c in geo else {}))
        N = h.np.array(I4) if h.mode == "sym" else rnp.eye(4)
        N = N.copy()
        N[:3, 3] = t
        v2 = dict(view)
        v2[c] = (p, N)
        return v2, geo, ()

    out.append(("update-by-translation", transl))
    return out


def _mk_hist(shape_name, opname, op, pre):
    @contract("C09", SG + ".SceneGraph", name="history[%s;pre=%s;%s]" % (shape_name, pre, opname), kind="bounded-shape", note="forest shape fixed, every real affine edge matrix", max_paths=64, tier="quick" if pre in ("all", "none") else "thorough")
    def hist(h):
        g, view, geo = build(h, SHAPES[shape_name])
        generic(h, view)
        populate(h, g, view, pre)
        view2, geo2, extra = op(h, g, view, geo)
        generic(h, {k: v for k, v in view2.items() if k not in view or v[1] is not view[k][1]})
        check_all(h, g, view2, geo2, extra)


for _sn, _sh in SHAPES.items():
    for _opname, _op in ops_for(_sh):
        for _pre in ("none", "all", "base", "hash"):
            _mk_hist(_sn, _opname, _op, _pre)


# ----------------------------------------------------------------------------- (c) kwargs_to_matrix, fix_rigid


@contract("C09", SG + ".kwargs_to_matrix", name="matrix-takes-precedence")
def k2m_matrix(h):
    M = affine(h, "M")
    q = h.reals("q", 4)
    t = h.reals("t", 3)
    out = h.fn(SG + ".kwargs_to_matrix")(matrix=M, quaternion=q, translation=t, axis=[0, 0, 1], angle=0.5)
    h.check("returns-the-matrix", h.eq(out, M))
    h.check("fresh-copy", out is not M)


@contract("C09", SG + ".kwargs_to_matrix", name="translation-only")
def k2m_translation(h):
    t = h.reals("t", 3)
    out = h.fn(SG + ".kwargs_to_matrix")(translation=t)
    want = [[1.0, 0.0, 0.0, t[0]], [0.0, 1.0, 0.0, t[1]], [0.0, 0.0, 1.0, t[2]], [0.0, 0.0, 0.0, 1.0]]
    h.check("T(t)", h.eq(out, want))
    h.check("default-identity", h.eq(h.fn(SG + ".kwargs_to_matrix")(), I4))


@contract("C09", SG + ".kwargs_to_matrix", name="quaternion+translation")
def k2m_quaternion(h):
    q = h.reals("q", 4)
    t = h.reals("t", 3)
    n = q[0] * q[0] + q[1] * q[1] + q[2] * q[2] + q[3] * q[3]
    h.assume(h.eq(n, 1.0) if h.mode == "sym" else abs(n - 1.0) < 1e-9)
    out = h.fn(SG + ".kwargs_to_matrix")(quaternion=q, translation=t)
    R = h.fn(TFM + ".quaternion_matrix")(q)
    conds = [h.eq(out[r, c], R[r, c]) for r in range(3) for c in range(3)]
    conds += [h.eq(out[r, 3], t[r]) for r in range(3)]
    conds += [h.eq(out[3, c], I4[3][c]) for c in range(4)]
    h.check("rotation-of-q-then-translation", h.all(conds))
    # quaternion wins over axis/angle
    out2 = h.fn(SG + ".kwargs_to_matrix")(quaternion=q, axis=[0, 0, 1], angle=0.3)
    h.check("quaternion-precedence", h.eq(out2, R))


@contract("C09", SG + ".kwargs_to_matrix", name="axis-angle+translation", timeout=60000)
def k2m_axis(h):
    ang = h.real("angle")
    ax = h.reals("axis", 3)
    t = h.reals("t", 3)
    n = ax[0] * ax[0] + ax[1] * ax[1] + ax[2] * ax[2]
    h.assume(h.eq(n, 1.0) if h.mode == "sym" else abs(n - 1.0) < 1e-9)
    out = h.fn(SG + ".kwargs_to_matrix")(axis=ax, angle=ang, translation=t)
    R = h.fn(TFM + ".rotation_matrix")(ang, ax)
    conds = [h.eq(out[r, c], R[r, c]) for r in range(3) for c in range(3)]
    conds += [h.eq(out[r, 3], t[r]) for r in range(3)]
    h.check("rotation-about-axis-then-translation", h.all(conds))
    # axis without angle is ignored (identity)
    out3 = h.fn(SG + ".kwargs_to_matrix")(axis=ax)
    h.check("axis-without-angle=identity", h.eq(out3, I4))


@contract("C09", TFM + ".fix_rigid", name="untouched-outside-repair-band")
def fix_rigid(h):
    M = affine(h, "M")
    R = M[:3, :3]
    G = R.dot(R.T) if h.mode == "sym" else R @ R.T
    dev = None
    for r in range(3):
        for c in range(3):
            e = abs(G[r, c] - (1.0 if r == c else 0.0))
            dev = e if dev is None else (core.sym_max(dev, e) if h.mode == "sym" else max(dev, e))
    h.assume(h.any([dev <= 1e-13, dev >= 1e-5]) if h.mode == "sym" else (dev <= 1e-13 or dev >= 1e-5))
    out = h.fn(TFM + ".fix_rigid")(M, max_deviance=1e-5)
    h.check("returns-argument", h.eq(out, M))


# ----------------------------------------------------------------------------- (d) bounded: random histories on the real classes


def _rand_matrix(rng, kind):
    import trimesh.transformations as tf

    if kind == 0:
        M = tf.random_rotation_matrix(rng.random(3))
    elif kind == 1:
        M = tf.rotation_matrix(rng.uniform(-3, 3), rng.normal(size=3) + 1e-3)
    elif kind == 2:
        M = rnp.eye(4)
    else:
        M = tf.random_rotation_matrix(rng.random(3)) @ tf.scale_matrix(rng.uniform(0.5, 2.0))
    M = rnp.array(M, dtype=float)
    if kind != 2 or rng.random() < 0.5:
        M[:3, 3] = rng.uniform(-5, 5, size=3)
    return M


class _HC:
    """concrete-mode stand-in for the harness handle used by the spec helpers"""

    mode = "concrete"
    np = rnp


def _np_T(view, a, b):
    fac = spec_factors(_HC, view, a, b)
    if fac is None:
        return None
    return product(_HC, fac)


@bounded("C09", name="real-code:random-histories", note="real SceneGraph (default repair_rigid), seeded histories of update / re-parent / remove / base-frame / get, numpy oracle; laws T(a,a)=I, T(a,b)T(b,a)=I, T(a,c)=T(a,b)T(b,c)")
def random_histories(tier, seed):
    from trimesh.scene.transforms import SceneGraph

    rng = rnp.random.default_rng(seed + 909)
    n_hist = 150 if tier == "quick" else 1500
    steps = 14
    names = ["w", "a", "b", "c", "d", "e"]
    failures = []
    cases = 0
    for hi in range(n_hist):
        g = SceneGraph(base_frame="w")
        view = {}
        geo = {}
        trace = []
        for st in range(steps):
            r = rng.random()
            nodes = nodes_of(view) or ["w"]
            if r < 0.45 or not view:
                v = names[rng.integers(1, len(names))]
                cand = [u for u in names if u != v and u not in descendants(view, v)]
                u = cand[rng.integers(len(cand))]
                M = _rand_matrix(rng, int(rng.integers(4)))
                kw = {}
                if rng.random() < 0.4:
                    kw["geometry"] = "g%d" % rng.integers(3)
                if v in view and view[v][0] == u and float(rnp.abs(M - view[v][1]).max()) < 1e-8 and kw.get("geometry") == geo.get(v):
                    continue
                form = rng.integers(3)
                if form == 0 and u == g.base_frame and not kw:
                    g[v] = M
                elif form == 1:
                    g.update(v, u, matrix=M.tolist(), **kw)
                else:
                    g.update(frame_to=v, frame_from=u, matrix=M, **kw)
                trace.append(("update", v, u, M.round(4).tolist(), kw))
                view[v] = (u, M)
                if "geometry" in kw:
                    geo[v] = kw["geometry"]
            elif r < 0.55 and len(nodes) > 1:
                u = nodes[rng.integers(len(nodes))]
                g.transforms.remove_node(u)
                trace.append(("remove", u))
                view = {k: v for k, v in view.items() if k != u and v[0] != u}
                geo.pop(u, None)
                if u == g.base_frame:
                    g.base_frame = (nodes_of(view) or ["w"])[0]
                    trace.append(("base", g.base_frame))
            elif r < 0.65:
                u = nodes[rng.integers(len(nodes))]
                g.base_frame = u
                trace.append(("base", u))
            else:
                trace.append(("query",))
            # after every step: a random subset of queries against the oracle
            nodes = nodes_of(view)
            live = [n for n in nodes if n in g.transforms.node_data]
            for _ in range(4):
                if len(live) < 1:
                    break
                a = live[rng.integers(len(live))]
                b = live[rng.integers(len(live))]
                cases += 1
                want = _np_T(view, a, b)
                try:
                    got, geom = g.get(frame_to=b, frame_from=a)
                except ValueError:
                    got = None
                ok = (want is None) == (got is None)
                if ok and want is not None:
                    ok = common.close(got, want, rtol=1e-6, atol=1e-6) and geom == geo.get(b)
                    back = _np_T(view, b, a)
                    gb, _ = g.get(frame_to=a, frame_from=b)
                    ok = ok and common.close(got @ gb, rnp.eye(4), rtol=1e-5, atol=1e-5) and common.close(gb, back, rtol=1e-6, atol=1e-6)
                    path = spec_path(view, a, b)
                    if len(path) > 2:
                        mid = path[len(path) // 2]
                        m1, _ = g.get(frame_to=mid, frame_from=a)
                        m2, _ = g.get(frame_to=b, frame_from=mid)
                        ok = ok and common.close(m1 @ m2, got, rtol=1e-5, atol=1e-5)
                    if a == b:
                        ok = ok and common.close(got, rnp.eye(4))
                if not ok and len(failures) < 5:
                    failures.append({"what": "get(%s<-%s) differs from the product of current edges" % (b, a), "history": trace[-8:], "got": None if got is None else rnp.asarray(got).round(5).tolist(), "want": None if want is None else want.round(5).tolist()})
            # the edge list rebuilds an equivalent graph
            if st == steps - 1:
                g2 = SceneGraph(base_frame=g.base_frame)
                g2.from_edgelist(g.to_edgelist())
                cases += 1
                ok = dict(g2.transforms.parents) == {c: p for c, (p, _) in view.items()}
                for c, (p, M) in view.items():
                    ok = ok and (p, c) in g2.transforms.edge_data and common.close(g2.transforms.edge_data[(p, c)]["matrix"], M)
                if not ok and len(failures) < 5:
                    failures.append({"what": "edge list export does not rebuild the graph", "history": trace[-8:]})
    return common.result(cases, cases, failures, "%d seeded histories x %d steps over 6 frame names; rigid/similarity/identity matrices; default repair_rigid" % (n_hist, steps), exhaustive=False)
