"""
C02 — Content hash of tracked arrays always reflects their current bytes.

Representation invariant  INV(x): not dirty(x)  =>  hashed(x) = H(bytes(x)).

(A) Contracts on the repository code, discharged by executing the real text of
    `class TrackedArray` (extracted verbatim from caching.py on every run) on a ghost base
    class: every overridden mutator sets the dirty flag BEFORE it delegates;
    __array_finalize__ dirties the new array and a tracked parent; __hash__ returns the
    stored value only when clean, otherwise H(tobytes) and clears the flag.
(B) Assumed contract of numpy (conformance-tested on the installed numpy on every run): for
    each mutation route, which Python-level hooks of which participating subclass instances
    numpy invokes.  Obtained with an instrumented subclass that overrides exactly the hook
    names TrackedArray overrides.
(C) One obligation per (route, alias configuration): running the route with the hooks
    replaced by their contracts (A) keeps INV.  A failed obligation is replayed on the real
    TrackedArray; agreement between model and real run is itself checked (exit 3 otherwise).
(D) Containers: DataStore / Trimesh / Path / Scene / ColorVisuals hashes are functions of
    member hashes — bounded check on the real classes.
"""
import ast
import hashlib
import os

import numpy as np

from pyvc.engine import bounded, protocol
from pyvc import mirror

META = {
    "level": "proof",
    "assumptions": [
        "(B) the numpy dispatch table (which hook fires on which instance per route) is an assumed contract, regenerated from the installed numpy on every run and compared with the real TrackedArray's behaviour",
        "(T5) the content hash (xxh3_64 / blake2b) is collision-free on the states compared",
        "mutation routes outside the listed table (C-level buffer exports to third-party code, ctypes, dtype/strides surgery) are not covered",
    ],
    "trusted_base": ["ghost execution of the extracted class text (pyvc protocol runner)", "installed numpy's dispatch behaviour as observed on this run (B)", "T5 hash collision freedom"],
}

SPECIAL = {"__array_finalize__", "__array_wrap__", "__hash__"}


def _class_source():
    path = os.path.join(mirror.REPO, "trimesh", "caching.py")
    src = open(path).read()
    tree = ast.parse(src)
    cls = next(n for n in tree.body if isinstance(n, ast.ClassDef) and n.name == "TrackedArray")
    return src, cls, hashlib.sha256(src.encode()).hexdigest()


class _Flags(dict):
    writeable = True


def _ghost_env():
    """namespace in which the verbatim ClassDef of TrackedArray is executed"""
    log = []

    class GhostND:
        ndim = 2
        base = None  # numpy: the array owning the memory (views of views point at the root)

        def __init__(self):
            self.flags = _Flags(WRITEABLE=True)

        def tobytes(self, order="C"):
            log.append(("tobytes", id(self), order))
            return ("BYTES", id(self), getattr(self, "_version", 0))

    def mk(name):
        def f(self, *a, **k):
            log.append(("delegate", name, id(self), bool(self.__dict__.get("_dirty_hash", False))))
            return self

        f.__name__ = name
        return f

    for name in dir(np.ndarray):
        if callable(getattr(np.ndarray, name, None)) and name not in ("__init__", "__new__", "__class__", "__getattribute__", "__setattr__", "__delattr__", "__init_subclass__", "__subclasshook__", "__hash__", "__dir__", "__repr__", "__str__", "__format__", "__reduce__", "__reduce_ex__", "__sizeof__", "tobytes", "__eq__", "__ne__", "__class_getitem__", "__array_finalize__"):
            setattr(GhostND, name, mk(name))
    for legacy in ("__idiv__", "__setslice__", "itemset"):
        if not hasattr(GhostND, legacy):
            setattr(GhostND, legacy, mk(legacy))

    class _NP:
        ndarray = GhostND

    def hash_fast(b):
        return ("H", b)

    return {"np": _NP, "hash_fast": hash_fast, "__name__": "trimesh.caching"}, log, GhostND


def method_contracts():
    """(A): returns (obligations, dirty_setters, facts)"""
    src, cls, sha = _class_source()
    env, log, GhostND = _ghost_env()
    mod = ast.Module(body=[cls], type_ignores=[])
    exec(compile(mod, "caching.py<TrackedArray>", "exec"), env)
    TA = env["TrackedArray"]
    obls = []
    setters = set()
    names = [n.name for n in cls.body if isinstance(n, ast.FunctionDef)]
    props = {n.name for n in cls.body if isinstance(n, ast.FunctionDef) and any(isinstance(d, ast.Name) and d.id == "property" or isinstance(d, ast.Attribute) and d.attr == "setter" for d in n.decorator_list)}
    for name in names:
        if name in SPECIAL or name in props:
            continue
        oid = "C02/trimesh.caching.TrackedArray.%s/sets-dirty-before-delegating" % name
        g = TA.__new__(TA)
        GhostND.__init__(g)
        g._dirty_hash = False
        g._hashed = ("H", "old")
        del log[:]
        try:
            getattr(TA, name)(g, 1, 2)
        except Exception as e:
            obls.append({"id": oid, "status": "undecided", "backend": "ghost-exec", "detail": "method raised %r on the ghost" % (e,)})
            continue
        dele = [e for e in log if e[0] == "delegate"]
        ok = len(dele) >= 1 and all(e[3] for e in dele) and g._dirty_hash is True and dele[0][1] == name
        if ok:
            setters.add(name)
            obls.append({"id": oid, "status": "discharged", "backend": "ghost-exec", "detail": "dirty flag True at the delegated call %s and on return; delegates to the base method of the same name" % (dele[0][1],)})
        else:
            obls.append({"id": oid, "status": "violated", "backend": "ghost-exec", "detail": "log=%r dirty_after=%r" % (dele, g.__dict__.get("_dirty_hash")), "witness": {"method": name}, "replayed": False, "need_real": name})
    # __array_finalize__
    oid = "C02/trimesh.caching.TrackedArray.__array_finalize__/dirties-self-and-tracked-parent"
    fin_self = fin_parent = fin_parent_indirect = False
    fin_err = ""
    if "__array_finalize__" in names:
        try:
            # the new array is a direct view of obj (self.base is obj)
            a, b = TA.__new__(TA), TA.__new__(TA)
            GhostND.__init__(a)
            GhostND.__init__(b)
            a.base = b
            b._dirty_hash = False
            TA.__array_finalize__(a, b)
            fin_self = a.__dict__.get("_dirty_hash") is True
            fin_parent = b._dirty_hash is True
            # obj is itself a view: numpy collapses .base to the root, so self.base is NOT obj
            root, mid, leaf = TA.__new__(TA), TA.__new__(TA), TA.__new__(TA)
            for g_ in (root, mid, leaf):
                GhostND.__init__(g_)
            mid.base = root
            leaf.base = root
            mid._dirty_hash = False
            TA.__array_finalize__(leaf, mid)
            fin_parent_indirect = mid._dirty_hash is True and leaf.__dict__.get("_dirty_hash") is True
            # a copy / ufunc result (no shared memory): only self needs the flag
            c = TA.__new__(TA)
            GhostND.__init__(c)
            TA.__array_finalize__(c, None)
            fin_self = fin_self and c.__dict__.get("_dirty_hash") is True
        except Exception as e:  # noqa: BLE001
            fin_err = " (raised %r on the ghost)" % (e,)
            fin_self = fin_parent = fin_parent_indirect = False
    obls.append({"id": oid, "status": "discharged" if (fin_self and fin_parent and fin_parent_indirect) else "violated", "backend": "ghost-exec", "detail": "self dirty=%s, tracked parent dirty=%s, tracked parent that is itself a view (self.base is the root, not the parent) dirty=%s%s" % (fin_self, fin_parent, fin_parent_indirect, fin_err), "witness": {"method": "__array_finalize__"}, "replayed": False})
    # __hash__
    oid = "C02/trimesh.caching.TrackedArray.__hash__/fresh-when-dirty-cached-only-when-clean"
    g = TA.__new__(TA)
    GhostND.__init__(g)
    g._dirty_hash = True
    g._hashed = ("H", "stale")
    del log[:]
    r1 = TA.__hash__(g)
    recomputed = r1 == ("H", ("BYTES", id(g), 0)) and g._dirty_hash is False and g._hashed == r1
    del log[:]
    r2 = TA.__hash__(g)
    c_order = all(e[2] == "C" for e in log if e[0] == "tobytes")  # the bytes a fresh C array of the same values holds
    cached = r2 == r1 and not any(e[0] == "tobytes" for e in log)
    g2 = TA.__new__(TA)
    GhostND.__init__(g2)
    g2._dirty_hash = False  # clean flag but nothing stored: must compute
    r3 = TA.__hash__(g2)
    nostore = r3 == ("H", ("BYTES", id(g2), 0))
    okh = recomputed and cached and nostore and c_order
    obls.append({"id": oid, "status": "discharged" if okh else "violated", "backend": "ghost-exec", "detail": "dirty => H(tobytes), stores it, clears flag: %s; bytes taken in logical (C) order, independent of the memory layout: %s; clean => stored value, no recomputation: %s; clean without stored value => computes: %s" % (recomputed, c_order, cached, nostore), "witness": {"method": "__hash__"}, "replayed": False})
    facts = {"setters": setters, "fin_self": fin_self, "fin_parent": fin_parent, "fin_parent_indirect": fin_parent_indirect, "hash_ok": okh, "hook_names": [n for n in names if n not in props], "sha": sha}
    return obls, facts


# ----------------------------------------------------------------------------- routes (B, C)


def _f():
    return np.arange(12, dtype=np.float64).reshape(3, 4)[::-1].copy()


def _i():
    return np.arange(12, dtype=np.int64).reshape(3, 4)[::-1].copy()


def _sq():
    return np.arange(9, dtype=np.float64).reshape(3, 3) + 1.0


# (name, base array maker, mutation acting on the writer array w)
ROUTES = [
    ("setitem-item", _f, lambda w: w.__setitem__((-1, -1), 99.0)),
    ("setitem-slice", _f, lambda w: w.__setitem__((slice(-1, None), slice(None)), 7.0)),
    ("setitem-mask", _f, lambda w: w.__setitem__(w > 5, -1.0)),
    ("setitem-fancy", _f, lambda w: w.__setitem__(([-1], [0]), 3.5)),
    ("iadd", _f, lambda w: w.__iadd__(1.0)),
    ("isub", _f, lambda w: w.__isub__(1.0)),
    ("imul", _f, lambda w: w.__imul__(2.0)),
    ("itruediv", _f, lambda w: w.__itruediv__(2.0)),
    ("ifloordiv", _f, lambda w: w.__ifloordiv__(2.0)),
    ("imod", _f, lambda w: w.__imod__(5.0)),
    ("ipow", _f, lambda w: w.__ipow__(2.0)),
    ("imatmul", _sq, lambda w: w.__imatmul__(np.full((3, 3), 2.0))),
    ("ilshift", _i, lambda w: w.__ilshift__(1)),
    ("irshift", _i, lambda w: w.__irshift__(1)),
    ("iand", _i, lambda w: w.__iand__(6)),
    ("ior", _i, lambda w: w.__ior__(1)),
    ("ixor", _i, lambda w: w.__ixor__(3)),
    ("operator-iadd", _f, lambda w: exec("w += 1.0", {"w": w})),
    ("sort", _f, lambda w: w.sort(axis=0)),
    ("fill", _f, lambda w: w.fill(4.0)),
    ("put-method", _f, lambda w: w.put([11], [99.0])),
    ("partition", _f, lambda w: w.partition(1, axis=0)),
    ("byteswap-inplace", _f, lambda w: w.byteswap(inplace=True)),
    ("np.put", _f, lambda w: np.put(w, [11], [99.0])),
    ("ufunc-out", _f, lambda w: np.add(w, 1.0, out=w)),
    ("ufunc-out-unary", _f, lambda w: np.negative(w, out=w)),
    ("clip-out", _f, lambda w: np.clip(w, 0.0, 1.0, out=w)),
    ("ufunc.at", _f, lambda w: np.add.at(w, (-1, -1), 1.0)),
    ("np.copyto", _f, lambda w: np.copyto(w, 5.0)),
    ("np.place", _f, lambda w: np.place(w, w > 5, [0.0])),
    ("np.putmask", _f, lambda w: np.putmask(w, w > 5, 0.0)),
    ("np.put_along_axis", _f, lambda w: np.put_along_axis(w, np.array([[0, 0, 0, 0]]), 42.0, axis=0)),
    ("flat-setitem", _f, lambda w: w.flat.__setitem__(11, 9.5)),
    ("buffer-write", _f, lambda w: memoryview(w).cast("B").__setitem__(95, 1)),
    ("random.shuffle", _f, lambda w: np.random.RandomState(1).shuffle(w)),
]
CONFIGS = ["self", "tracked-view", "tracked-base", "untracked-view", "asarray-view", "later-tracked-view", "later-view-of-view", "later-transposed-view"]
READONLY = [
    ("sum", lambda x: x.sum()),
    ("copy", lambda x: x.copy()),
    ("slice-read", lambda x: x[1:].sum()),
    ("transpose", lambda x: x.T),
    ("astype", lambda x: x.astype(np.float32)),
    ("compare", lambda x: (x > 3).any()),
    ("dot", lambda x: x.dot(np.ones(x.shape[1]))),
    ("tolist", lambda x: x.tolist()),
]


def _run_route(mk, H, base, mutate, config):
    """one history; returns (x, hash_before, hash_after). `mk` turns an ndarray into the
    tracked-like array, H hashes it through the protocol."""
    data = base()
    if config == "self":
        x = mk(data)
        h0 = H(x)
        mutate(x)
    elif config == "tracked-view":
        x = mk(data)
        v = x[:]  # tracked view made BEFORE the hash is read
        h0 = H(x)
        mutate(v)
    elif config == "tracked-base":
        b = mk(data)
        x = b[:]
        h0 = H(x)
        mutate(b)
    elif config == "untracked-view":
        x = mk(data)
        u = x.view(np.ndarray)
        h0 = H(x)
        mutate(u)
    elif config == "asarray-view":
        x = mk(data)
        u = np.asarray(x)
        h0 = H(x)
        mutate(u)
    elif config == "later-tracked-view":
        # the normal case: the view is taken AFTER the hash was read
        x = mk(data)
        h0 = H(x)
        v = x[:]
        mutate(v)
    elif config == "later-view-of-view":
        # the hashed array is itself a view of a tracked root; a further view is taken
        # after the hash was read (numpy collapses v.base to the root)
        root = mk(data)
        x = root[:]
        h0 = H(x)
        v = x[:]
        mutate(v)
    elif config == "later-transposed-view":
        x = mk(data)
        h0 = H(x)
        v = x.T.T
        mutate(v)
    else:
        raise ValueError(config)
    return x, h0, H(x)


def run_real(route, config):
    """replay on the real TrackedArray: returns (stale?, detail)"""
    from trimesh import caching

    name, base, mutate = next(r for r in ROUTES if r[0] == route)
    x, h0, h1 = _run_route(lambda a: caching.tracked_array(a), hash, base, mutate, config)
    fresh = hash(caching.tracked_array(np.array(x.view(np.ndarray), copy=True)))
    changed = not np.array_equal(np.array(x.view(np.ndarray)), base(), equal_nan=True)
    return (h1 != fresh), {"bytes_changed": bool(changed), "hash_before": h0, "hash_after": h1, "fresh_hash": fresh}


def _model_run(facts, base, mutate, config):
    """the same history with hooks replaced by their contracts (A), dispatch as numpy
    really performs it (B): returns (predicted stale?, hooks fired)"""
    fired = []
    state = {}

    def st(o):
        return state.setdefault(id(o), {"dirty": True, "hashed": None})

    ns = {}

    def make_hook(name):
        def hook(self, *a, **k):
            fired.append((name, "writer"))
            if name in facts["setters"]:
                st(self)["dirty"] = True
            return getattr(np.ndarray, name)(self, *a, **k)

        return hook

    for name in facts["hook_names"]:
        if name in SPECIAL or not hasattr(np.ndarray, name):
            continue
        ns[name] = make_hook(name)

    def fin(self, obj):
        if facts["fin_self"]:
            st(self)["dirty"] = True
        if isinstance(obj, Probe):
            direct = getattr(self, "base", None) is obj
            if facts["fin_parent"] if direct else facts.get("fin_parent_indirect", False):
                st(obj)["dirty"] = True

    ns["__array_finalize__"] = fin
    Probe = type("Probe", (np.ndarray,), ns)

    def mk(a):
        return np.ascontiguousarray(a).view(Probe)

    def H(x):
        s = st(x)
        if not s["dirty"] and s["hashed"] is not None:
            return s["hashed"]
        s["hashed"] = hashlib.sha1(x.tobytes(order="C")).hexdigest()
        s["dirty"] = False
        return s["hashed"]

    x, h0, h1 = _run_route(mk, H, base, mutate, config)
    fresh = hashlib.sha1(np.array(x.view(np.ndarray), copy=True).tobytes(order="C")).hexdigest()
    return (h1 != fresh), sorted({f[0] for f in fired})


@protocol("C02", name="tracked-array-invariant")
def tracked_array_invariant(tier, seed, open_ids):
    obls, facts = method_contracts()
    errors = []
    # every hook numpy is known to call for a mutation route must be overridden: the ones
    # present in the class are in facts["hook_names"]; the table below exercises them
    for name, base, mutate in ROUTES:
        for config in CONFIGS:
            oid = "C02/route/%s[%s]" % (name, config)
            try:
                pred, hooks = _model_run(facts, base, mutate, config)
            except Exception as e:
                obls.append({"id": oid, "status": "undecided", "backend": "invariant-model", "detail": "route not executable on this numpy: %r" % (e,)})
                continue
            try:
                real, detail = run_real(name, config)
            except Exception as e:
                obls.append({"id": oid, "status": "undecided", "backend": "invariant-model", "detail": "real run raised %r" % (e,)})
                continue
            if pred != real:
                errors.append("conformance: model predicts stale=%s but the real TrackedArray is stale=%s for %s (hooks %s)" % (pred, real, oid, hooks))
                continue
            if not pred:
                obls.append({"id": oid, "status": "discharged", "backend": "invariant-model+conformance", "detail": "hooks fired on the writer: %s; INV re-established; real run agrees" % (hooks,)})
            else:
                obls.append({"id": oid, "status": "violated", "backend": "invariant-model+conformance", "detail": "no dirtying hook reaches the hashed array (hooks fired: %s)" % (hooks,), "witness": {"route": name, "config": config, "real": detail, "replay": "contracts.C02.run_real(%r, %r)" % (name, config)}, "replayed": True})
    # byte-preserving operations leave the hash value unchanged
    from trimesh import caching

    for name, op in READONLY:
        oid = "C02/readonly/%s" % name
        x = caching.tracked_array(_f())
        h0 = hash(x)
        op(x)
        h1 = hash(x)
        ok = h0 == h1 == hash(caching.tracked_array(_f()))
        obls.append({"id": oid, "status": "discharged" if ok else "violated", "backend": "real-run", "detail": "hash unchanged and equal to a fresh array's", "witness": {"op": name}, "replayed": True})
    # memory layout: the hash is that of a fresh (C-ordered) array holding the same values
    layouts = [("transposed-view", lambda a: a.T), ("fortran-copy", lambda a: a.copy(order="F")), ("strided-view", lambda a: a[::-1, ::2]), ("swapaxes", lambda a: a.swapaxes(0, 1)), ("asfortranarray-int", lambda a: np.asfortranarray(a.astype(np.int64)))]
    for name, mkv in layouts:
        oid = "C02/layout/%s" % name
        x = mkv(caching.tracked_array(_f()))
        x = caching.tracked_array(x) if not isinstance(x, caching.TrackedArray) else x
        vals = np.array(x.view(np.ndarray), copy=True, order="C")
        want = caching.hash_fast(vals.tobytes())
        ok = x.__hash__() == want == caching.tracked_array(vals).__hash__()
        obls.append({"id": oid, "status": "discharged" if ok else "violated", "backend": "real-run", "detail": "hash of a %s equals the hash of a fresh C-ordered array with the same values" % name, "witness": {"layout": name, "flags": str(x.flags.f_contiguous)}, "replayed": True})
    return {"obligations": obls, "trusted": ["numpy dispatch table observed on numpy %s" % np.__version__, "caching.py sha256 %s" % facts["sha"][:16]], "functions": ["trimesh.caching.TrackedArray.%s" % n for n in facts["hook_names"]], "errors": errors}


# ----------------------------------------------------------------------------- DataStore.__hash__ is a function of the current members


@protocol("C02", name="datastore-hash", note="DataStore.__hash__ from every abstract state (each member clean or dirty; store hash read before or not) under every member operation: equals the hash of a fresh store with the same current members")
def datastore_hash(tier, seed, open_ids):
    import itertools

    from trimesh import caching

    obls = []

    def fresh_hash(ds):
        f = caching.DataStore()
        for k, v in ds.data.items():
            f[k] = np.array(np.asarray(v), copy=True) if hasattr(v, "shape") else v
        return f.__hash__()

    A = lambda: np.arange(6, dtype=np.float64).reshape(2, 3)  # noqa: E731
    B = lambda: np.arange(3, dtype=np.int64)  # noqa: E731
    OTHER = np.arange(6, dtype=np.float64).reshape(2, 3) * 2.0 + 1.0

    def ops():
        yield "replace-by-clean-tracked-array-of-other-content", lambda ds, donor: ds.__setitem__("a", donor)
        yield "replace-by-plain-array-of-other-content", lambda ds, donor: ds.__setitem__("a", OTHER.copy())
        yield "replace-by-equal-content", lambda ds, donor: ds.__setitem__("a", A())
        yield "in-place-item-edit", lambda ds, donor: ds["a"].__setitem__((0, 0), 42.0)
        yield "in-place-iadd", lambda ds, donor: ds["a"].__iadd__(1.0)
        yield "edit-second-member", lambda ds, donor: ds["b"].__setitem__(1, 9)
        yield "set-scalar-override", lambda ds, donor: ds.__setitem__("density", 2.5)
        yield "change-scalar-override", lambda ds, donor: (ds.__setitem__("density", 2.5), ds.__hash__(), ds.__setitem__("density", 3.5))
        yield "clear-then-refill", lambda ds, donor: (ds.clear(), ds.__setitem__("a", OTHER.copy()))
        yield "swap-members-between-keys", lambda ds, donor: (ds.__setitem__("a", np.arange(3, dtype=np.int64)), ds.__setitem__("b", A()))
        yield "no-op-read", lambda ds, donor: ds["a"].sum()

    for (opname, op), read_store_first, member_clean in itertools.product(list(ops()), (False, True), (False, True)):
        oid = "C02/trimesh.caching.DataStore.__hash__/%s[store-hash-read=%s,members-clean=%s]" % (opname, read_store_first, member_clean)
        ds = caching.DataStore()
        ds["a"] = A()
        ds["b"] = B()
        donor = caching.tracked_array(OTHER.copy())
        donor.__hash__()  # the donor's own hash is clean, as after a read on another mesh
        if member_clean:
            for v in ds.data.values():
                v.__hash__()
        h0 = ds.__hash__() if read_store_first else None
        before = {k: (np.array(np.asarray(v), copy=True) if hasattr(v, "shape") else v) for k, v in ds.data.items()}
        try:
            op(ds, donor)
            h1 = ds.__hash__()
            want = fresh_hash(ds)
            same_content = set(before) == set(ds.data) and all((np.array_equal(np.asarray(before[k]), np.asarray(ds.data[k])) and np.asarray(before[k]).dtype == np.asarray(ds.data[k]).dtype) if hasattr(before[k], "shape") else before[k] == ds.data[k] for k in before)
            ok = h1 == want and (h0 is None or ((h1 == h0) == same_content))
            detail = "hash equals a fresh store's; changed iff content changed (content same=%s)" % same_content
        except Exception as e:  # noqa: BLE001
            ok, detail = False, "raised %r" % (e,)
        obls.append({"id": oid, "status": "discharged" if ok else "violated", "backend": "real-run state enumeration", "detail": detail, "witness": {"operation": opname, "store_hash_read_before": read_store_first, "members_clean": member_clean}, "replayed": True})
    return {"obligations": obls, "trusted": ["hash collision freedom (T5)"], "functions": ["trimesh.caching.DataStore.__hash__", "trimesh.caching.DataStore.__setitem__"]}


# ----------------------------------------------------------------------------- containers (D)


@bounded("C02", name="containers", note="DataStore / Trimesh / Path / Scene / visuals hashes on the real classes")
def containers(tier, seed):
    import trimesh
    from trimesh import caching

    from contracts import common as C

    fails = []
    cases = 0

    def bad(what, **kw):
        if len(fails) < 5:
            fails.append(dict(what=what, **kw))

    # equal arrays => equal hash; any single-element change => different hash
    for name, mk in C.meshes(tier):
        a, b = mk(), mk()
        cases += 1
        if hash(a) != hash(b):
            bad("two meshes with equal vertices and faces hash differently", mesh=name)
        h0 = hash(a)
        a.vertices[0, 0] += 1.0
        cases += 1
        if hash(a) == h0:
            bad("mesh hash unchanged after vertex edit", mesh=name)
        a.vertices[0, 0] -= 1.0
        cases += 1
        if hash(a) != h0:
            bad("mesh hash not restored when bytes are restored", mesh=name)
        f = b.faces.copy()
        f[0] = f[0][::-1]
        hb = hash(b)
        b.faces = f
        cases += 1
        if hash(b) == hb and not np.array_equal(f[0], f[0][::-1]):
            bad("mesh hash unchanged after face edit", mesh=name)
    ds1, ds2 = caching.DataStore(), caching.DataStore()
    ds1["a"] = np.arange(6.0)
    ds2["a"] = np.arange(6.0)
    ds1["b"] = np.arange(3)
    ds2["b"] = np.arange(3)
    cases += 2
    if hash(ds1) != hash(ds2):
        bad("DataStore: equal members, different hash")
    ds2["b"][1] = 7
    if hash(ds1) == hash(ds2):
        bad("DataStore: member changed in place, hash unchanged")
    p1 = trimesh.load_path(np.array([[0, 0], [1, 0], [1, 1], [0, 0]], dtype=float))
    p2 = trimesh.load_path(np.array([[0, 0], [1, 0], [1, 1], [0, 0]], dtype=float))
    cases += 2
    if hash(p1) != hash(p2):
        bad("Path: equal paths hash differently")
    hp = hash(p1)
    p1.vertices[1, 0] = 2.0
    if hash(p1) == hp:
        bad("Path hash unchanged after vertex edit")
    s1 = trimesh.Scene([trimesh.creation.box()])
    hs = hash(s1)
    next(iter(s1.geometry.values())).vertices[0, 0] += 0.5
    cases += 1
    if hash(s1) == hs:
        bad("Scene hash unchanged after geometry vertex edit")
    hs = hash(s1)
    s1.graph.update(frame_to=list(s1.graph.nodes_geometry)[0], matrix=trimesh.transformations.translation_matrix([1, 0, 0]))
    cases += 1
    if hash(s1) == hs:
        bad("Scene hash unchanged after graph edit")
    m = trimesh.creation.box()
    m.visual.face_colors = [10, 20, 30, 255]
    hv = hash(m.visual)
    m.visual.face_colors[0, 0] = 99
    cases += 1
    if hash(m.visual) == hv:
        bad("ColorVisuals hash unchanged after colour edit")
    return C.result(cases, cases, fails, "container hashes on the mesh family + DataStore/Path/Scene/ColorVisuals instances", exhaustive=True, sample={"mesh": "box", "edit": "vertices[0,0] += 1"})
