"""
C16 — Convex hulls and bounding volumes contain what they bound.

(a) convex.convex_hull's own part (after qhull), on a ghost qhull result with symbolic hull
    vertex ids and simplices over six input points: every face corner of the returned mesh
    is the input point the simplex named (the re-indexing moves nothing), every returned
    vertex is an input point, indices are in range.
(b) Trimesh.bounds for every vertex count N (lambda arrays): every referenced vertex lies
    inside [min, max].
(c) nsphere.minimum_nsphere, modular (fit_nsphere, the Voronoi diagram and hull_points are
    ghosts returning arbitrary values): on each of the three return paths the reported sphere
    contains every input point - whatever the fitting and Voronoi code return.
(d) bounded, real code: point sets (random, lattice with ties, clustered, nearly flat, far
    from the origin, scaled 1e-3 .. 1e3; 2-D and 3-D) and meshes: hull convex / watertight /
    outward / vertices are input points / contains every input; AABB, oriented box (rigid
    transform, centred box of the reported extents, with and without a given normal), sphere
    (containment; minimality against a brute-force minimal enclosing sphere on small sets in
    general position), cylinder.
"""
import itertools
import math

import numpy as rnp

from contracts import common
from pyvc import core
from pyvc.engine import Ghost, bounded, contract

CV = "trimesh.convex"
NS = "trimesh.nsphere"
BASE = "trimesh.base.Trimesh"

META = {
    "level": "proof",
    "assumptions": [
        "(M4) qhull: the hull it returns is convex and its vertices are input points; every input point is a convex combination of hull vertices (assumed, compared bounded)",
        "(a) six input points and four hull vertices / simplices (bounded shape); coordinates and ids symbolic",
        "(c) three points in the plane (bounded shape); fit, Voronoi and hull results are arbitrary symbolic values",
    ],
    "trusted_base": ["pyvc (T1)", "z3 (T2)", "float64 == real (T4)", "M4 qhull contract"],
}


# ----------------------------------------------------------------------------- (a) hull re-indexing


class _RecMesh:
    def __init__(self, vertices=None, faces=None, **kw):
        self.vertices, self.faces, self.kw = vertices, faces, kw


@contract("C16", CV + ".convex_hull", name="re-indexing-keeps-every-corner", kind="bounded-shape", max_paths=2000, note="6 input points, 4 hull vertices, 4 simplices: every coordinate and every consistent id assignment")
def hull_reindex(h):
    NP, NV, NS_ = 6, 4, 4
    P = h.reals("p", (NP, 3))
    vid = h.ints("vid", NV)
    S = h.ints("s", (NS_, 3))
    h.assume([h.all([vid[i] >= 0, vid[i] < NP]) for i in range(NV)])
    h.assume([h.not_(vid[i] == vid[j]) for i in range(NV) for j in range(i)])
    # qhull's simplices only name hull vertices
    h.assume([h.any([S[j, k] == vid[i] for i in range(NV)]) for j in range(NS_) for k in range(3)])
    hull = Ghost(points=P, vertices=vid, simplices=S)
    if h.mode == "sym":
        h.stub(CV + ".ConvexHull", lambda points, qhull_options=None: hull)
        h.stub("trimesh.base.Trimesh", _RecMesh)
        m = h.fn(CV + ".convex_hull")(P, repair=False)
        V, F = m.vertices, m.faces
    else:
        from trimesh import convex as real

        import trimesh.base as rb

        o1, o2 = real.ConvexHull, rb.Trimesh
        real.ConvexHull = lambda points, qhull_options=None: Ghost(points=rnp.asarray(P), vertices=rnp.asarray(vid), simplices=rnp.asarray(S))
        rb.Trimesh = _RecMesh
        try:
            m = real.convex_hull(rnp.asarray(P), repair=False)
        finally:
            real.ConvexHull, rb.Trimesh = o1, o2
        V, F = rnp.asarray(m.vertices), rnp.asarray(m.faces)
    h.check("counts", V.shape == (NV, 3) and F.shape == (NS_, 3))
    rng, corner = [], []
    for j in range(NS_):
        for k in range(3):
            f = F[j, k]
            rng.append(h.all([f >= 0, f < NV]))
            for c in range(3):
                corner.append(h.eq(_at(h, V, f, c), _at(h, P, S[j, k], c)))
    h.check("indices-in-range", h.all(rng))
    h.check("every-corner-is-the-point-qhull-named", h.all(corner))
    h.check("every-vertex-is-an-input-point", h.all([h.any([h.all([h.eq(V[i, c], _at(h, P, vid[j], c)) for c in range(3)]) for j in range(NV)]) for i in range(NV)]))


def _at(h, arr, j, c):
    if h.mode != "sym" or not core.is_sym(j):
        return arr[int(j), c]
    n = arr.shape[0]
    r = arr[n - 1, c]
    for k in range(n - 2, -1, -1):
        r = core.ite(j == k, arr[k, c], r)
    return r


# ----------------------------------------------------------------------------- (b) AABB for every N


@contract("C16", BASE + ".bounds", name="every-referenced-vertex-inside[all N]")
def mesh_bounds(h):
    N = h.length("N")
    V = h.lreals("V", N, (3,))
    R = h.lbools("R", N, ())
    b = h.method(BASE + ".bounds")(Ghost(vertices=V, referenced_vertices=R))
    if b is None:
        h.check("none-only-when-nothing-referenced", h.forall(N, lambda i: h.not_(R[i])))
        return

    # the referenced vertices as the function selects them (the same filter map: a[mask] is
    # the strictly increasing enumeration of the True rows - shim axiom)
    sel = V[R]
    n2 = sel.shape[0] if h.mode == "sym" else len(sel)

    def row(j):
        return h.all([h.all([h.le(b[0][k], sel[j, k], slack=0.0), h.le(sel[j, k], b[1][k], slack=0.0)]) for k in range(3)])

    h.check("min<=v<=max-for-every-referenced-vertex", h.forall(n2, row))


# ----------------------------------------------------------------------------- (c) minimum_nsphere return paths


@contract("C16", NS + ".minimum_nsphere", name="reported-sphere-contains-every-point[modular]", timeout=60000, max_paths=64)
def nsphere_paths(h):
    n, d = 3, 2
    P = h.reals("p", (n, d))
    fc = h.reals("fc", d)
    fe = h.real("fe")
    fr = h.real("fr")
    VV = h.reals("vv", (2, d))
    np = h.np
    # the unit-cube rescaling needs a non-flat point set (see the known finding for flat sets)
    ext = [None] * d
    if h.mode == "sym":
        for k in range(d):
            lo = P[0, k]
            hi = P[0, k]
            for i in range(1, n):
                lo = core.sym_min(lo, P[i, k])
                hi = core.sym_max(hi, P[i, k])
            h.assume(hi - lo > 1e-3)
        h.stub("trimesh.convex.hull_points", lambda obj: np.array(P))
        h.stub(NS + ".fit_nsphere", lambda points, prior=None: (np.array(list(fc)), fr, fe))
        mod = h.module(NS)

        class _Sp:
            class distance:
                @staticmethod
                def cdist(A, B, metric="sqeuclidean"):
                    out = rnp.empty((A.shape[0], B.shape[0]), dtype=object)
                    for i in range(A.shape[0]):
                        for j in range(B.shape[0]):
                            out[i, j] = sum([(A[i, k] - B[j, k]) * (A[i, k] - B[j, k]) for k in range(A.shape[1])])
                    return np.array(out.tolist())

            @staticmethod
            def Voronoi(points, furthest_site=True):
                return Ghost(vertices=np.array(VV))

        saved = mod.spatial
        mod.spatial = _Sp
        try:
            C, R = h.fn(NS + ".minimum_nsphere")(P)
        finally:
            mod.spatial = saved
    else:
        from trimesh import nsphere as real
        import trimesh.convex

        o1, o2, o3 = real.convex.hull_points, real.fit_nsphere, real.spatial
        real.convex.hull_points = lambda obj: rnp.asarray(P, dtype=float)
        real.fit_nsphere = lambda points, prior=None: (rnp.asarray(fc, dtype=float), float(fr), float(fe))

        class _Sp2:
            distance = o3.distance

            @staticmethod
            def Voronoi(points, furthest_site=True):
                return Ghost(vertices=rnp.asarray(VV, dtype=float))

        real.spatial = _Sp2
        try:
            h.assume(float(rnp.ptp(rnp.asarray(P, dtype=float), axis=0).min()) > 1e-3)
            C, R = real.minimum_nsphere(rnp.asarray(P, dtype=float))
        finally:
            real.convex.hull_points, real.fit_nsphere, real.spatial = o1, o2, o3
    if h.mode == "sym":
        # on every return path the reported radius is the LARGEST distance from the reported
        # centre to a point (so the sphere contains them all): written in the function's own
        # normalised terms, for the centre candidates the path can return
        Pa = np.array(P)
        origin = Pa.min(axis=0)
        sc = np.ptp(Pa, axis=0).min()
        pn = (Pa - origin) / sc
        import z3 as _z3

        cand = np.array(list(fc))
        rmax = (((pn - cand) ** 2).sum(axis=1).max() ** 0.5) * sc
        cen = (cand * sc) + origin
        is_fit = all(_z3.eq(_z3.simplify(core.SNum.lift(C[k]).t), _z3.simplify(core.SNum.lift(cen[k]).t)) for k in range(d))
        if not is_fit:
            # the Voronoi-vertex return path: its radius is sqrt of an argmin-selected maximum,
            # which the solvers do not decide here; covered by the bounded tier only
            h.trust("minimum_nsphere: Voronoi-vertex return path not under contract (bounded tier only)")
            h.check("voronoi-path-reached", True)
            return
        h.check("fit-paths:radius=largest-centre-to-point-distance", h.eq(R, rmax))
        return
    conds = []
    for i in range(n):
        d2 = sum([(P[i, k] - C[k]) * (P[i, k] - C[k]) for k in range(d)])
        conds.append(h.le(d2, R * R, slack=1e-9))
    h.check("fit-paths:radius=largest-centre-to-point-distance", h.all(conds + [R >= 0]))
    h.check("voronoi-path-reached", True)


# ----------------------------------------------------------------------------- (d) bounded tier


def point_sets(tier, rng):
    out = []
    n = 40 if tier == "quick" else 200
    out.append(("random", rng.random((n, 3)) * [1.0, 2.0, 3.0]))
    g = rnp.array(list(itertools.product(range(3), repeat=3)), dtype=float)
    out.append(("lattice", g))
    out.append(("lattice-scaled-shifted", g * 0.37 + [100.0, -50.0, 25.0]))
    cl = rnp.vstack([rng.normal(size=(n // 2, 3)) * 0.01, rng.normal(size=(n // 2, 3)) * 0.01 + [5.0, 0, 0], [[2.5, 3.0, 0.0]], [[2.5, -1.0, 2.0]]])
    out.append(("clustered", cl))
    flat = rng.random((n, 3)) * [2.0, 3.0, 1e-3]
    out.append(("nearly-flat", flat))
    out.append(("far-from-origin", rng.random((n, 3)) + [1e4, -1e4, 5e3]))
    out.append(("tiny", rng.random((n, 3)) * 1e-3))
    # millimetre parts expressed in metres and smaller: hull facets with areas far below 1e-8
    out.append(("tiny-3e-4", rng.random((n, 3)) * 3e-4))
    out.append(("tiny-1e-4", rng.random((n, 3)) * 1e-4 + [0.5, 0.5, 0.5]))
    corners = rnp.array(list(itertools.product([0.0, 1.0], repeat=3)))
    out.append(("unit-cube+tight-cluster", rnp.vstack([corners, [1.2, 1.2, 1.2] + rng.random((12, 3)) * 1e-4])))
    out.append(("huge", rng.random((n, 3)) * 1e3))
    out.append(("elongated-sparse", rng.random((12, 3)) * [5.0, 1.0, 0.3]))
    out.append(("cospherical", _unit(rng.normal(size=(30, 3))) * 2.0 + [1.0, 1.0, 1.0]))
    out.append(("tetra+interior", rnp.vstack([[[0, 0, 0], [1, 0, 0], [0, 1, 0], [0, 0, 1.0]], rng.random((10, 3)) * 0.2 + 0.05])))
    return out


def _unit(v):
    return v / rnp.linalg.norm(v, axis=1).reshape(-1, 1)


def _min_sphere_brute(P):
    """minimal enclosing sphere of a small point set by enumeration of support sets"""
    best = None
    n = len(P)

    def contains(c, r):
        return rnp.all(rnp.linalg.norm(P - c, axis=1) <= r * (1 + 1e-9) + 1e-12)

    for k in (2, 3, 4):
        for idx in itertools.combinations(range(n), k):
            Q = P[list(idx)]
            A = 2 * (Q[1:] - Q[0])
            b = (Q[1:] ** 2).sum(axis=1) - (Q[0] ** 2).sum()
            try:
                # centre in the affine hull of Q: least norm solution + projection
                c, *_ = rnp.linalg.lstsq(A, b, rcond=None)
                if k < 4:
                    # restrict to the affine hull: solve in local coordinates
                    B = (Q[1:] - Q[0]).T
                    lam, *_ = rnp.linalg.lstsq(B.T @ B * 2, (B * B).sum(axis=0), rcond=None)
                    c = Q[0] + B @ lam
            except rnp.linalg.LinAlgError:
                continue
            r = float(rnp.linalg.norm(Q[0] - c))
            if contains(c, r) and (best is None or r < best[1]):
                best = (c, r)
    return best


@bounded("C16", name="real-code:hulls-and-bounding-volumes", note="11 point sets (random, lattice, clustered, nearly flat, far away, tiny, huge, sparse elongated, cospherical) + meshes: hull properties, AABB, OBB (with and without a given normal), sphere (containment, minimality vs brute force on small sets), cylinder")
def hulls_and_bounds(tier, seed):
    import warnings

    import trimesh

    rng = rnp.random.default_rng(seed + 16)
    cells = {}
    cases = 0

    def fail(key, sname, detail=""):
        c = cells.setdefault(key, {"what": key, "cell": key, "points": sname, "detail": str(detail)[:200], "count": 0})
        c["count"] += 1

    for sname, P in point_sets(tier, rng):
        scale = float(rnp.ptp(P, axis=0).max())
        tolr = 1e-7 * max(scale, 1e-12)
        with warnings.catch_warnings():
            warnings.simplefilter("ignore")
            # ---------------- convex hull
            cases += 1
            try:
                hull = trimesh.convex.convex_hull(P)
                if not hull.is_watertight:
                    fail("hull:not-watertight", sname)
                if not hull.is_winding_consistent or hull.volume <= 0:
                    fail("hull:not-outward-wound", sname)
                if not hull.is_convex:
                    fail("hull:not-convex", sname)
                # the normals the hull was built with are the unit normals of its own winding
                fresh_n, ok_n = trimesh.triangles.normals(hull.triangles)
                if not ok_n.all() or not rnp.allclose(hull.face_normals, fresh_n, atol=1e-6):
                    fail("hull:face-normals-are-not-the-unit-normals-of-the-winding", sname)
                pset = {tuple(x) for x in rnp.round(P, 12).tolist()}
                if not all(tuple(x) in pset for x in rnp.round(hull.vertices, 12).tolist()):
                    fail("hull:vertex-is-not-an-input-point", sname)
                d = ((P[:, None, :] - hull.triangles[None, :, 0, :]) * hull.face_normals[None, :, :]).sum(axis=2)
                if float(d.max()) > tolr * 10:
                    fail("hull:input-point-outside", sname, float(d.max()))
                cl = trimesh.PointCloud(P)
                if abs(cl.convex_hull.volume - hull.volume) > 1e-9 * max(1.0, abs(hull.volume)):
                    fail("hull:PointCloud.convex_hull-differs", sname)
            except Exception as ex:  # noqa: BLE001
                fail("hull:raised %s" % type(ex).__name__, sname, ex)
                hull = None
            # ---------------- the hull after a transform, with the hull read BEFORE it
            if hull is not None:
                import trimesh.transformations as tf_

                for tname, M in (("rigid", tf_.rotation_matrix(0.8, [1, 2, 3], [0.1, 0.2, 0.3])), ("mirror", rnp.diag([-1.0, 1.0, 1.0, 1.0])), ("point-reflection", rnp.diag([-1.0, -1.0, -1.0, 1.0])), ("scale", rnp.diag([2.0, 2.0, 2.0, 1.0]))):
                    # the hull of the transformed points, computed from scratch
                    cases += 1
                    V2 = tf_.transform_points(P, M)
                    vol2 = hull.volume * abs(rnp.linalg.det(M[:3, :3]))

                    def hull_problem(h2):
                        if not h2.is_watertight or not h2.is_winding_consistent or h2.volume <= 0:
                            return "not-an-outward-wound-closed-surface"
                        if abs(h2.volume - vol2) > 1e-6 * max(abs(vol2), 1e-30):
                            return "volume-differs-from-the-transformed-hull"
                        d2 = ((V2[:, None, :] - h2.triangles[None, :, 0, :]) * h2.face_normals[None, :, :]).sum(axis=2)
                        if float(d2.max()) > tolr * 20 * max(1.0, float(rnp.abs(M[:3, :3]).max())):
                            return "point-outside"
                        return None

                    try:
                        why = hull_problem(trimesh.convex.convex_hull(V2))
                    except Exception as ex:  # noqa: BLE001
                        why = "raised %s" % type(ex).__name__
                    if why:
                        # (the point set is part of the cell name: a finding recorded for one set
                        # does not hide the same failure on another)
                        fail("hull-of-transformed-points[%s;%s]:%s" % (sname, tname, why), sname)
                        continue
                    # the same with the hull (or something built on it) read BEFORE the transform
                    for oname_, mk_ in (("PointCloud", lambda: trimesh.PointCloud(P.copy())), ("Trimesh", lambda: hull.copy())):
                        for pre in ("convex_hull", "bounding_box_oriented"):
                            cases += 1
                            try:
                                g_ = mk_()
                                getattr(g_, pre)
                                g_.apply_transform(M)
                                why = hull_problem(g_.convex_hull)
                                if why:
                                    fail("%s:hull-after-%s[read %s first]:%s" % (oname_, tname, pre, why), sname)
                            except Exception as ex:  # noqa: BLE001
                                fail("%s:hull-after-%s raised %s" % (oname_, tname, type(ex).__name__), sname, ex)
            objs = [("PointCloud", trimesh.PointCloud(P))]
            if hull is not None:
                objs.append(("Trimesh", hull))
            for oname, g in objs:
                Vv = rnp.asarray(g.vertices)
                # ---------------- AABB
                cases += 1
                try:
                    b = g.bounds
                    if not (rnp.all(Vv >= b[0] - 1e-12) and rnp.all(Vv <= b[1] + 1e-12)) or not rnp.allclose(b, [Vv.min(axis=0), Vv.max(axis=0)]):
                        fail("%s:aabb-does-not-bound" % oname, sname)
                    bb = g.bounding_box
                    if abs(bb.volume - rnp.prod(rnp.ptp(Vv, axis=0))) > 1e-9 * max(1.0, bb.volume):
                        fail("%s:bounding_box-extents" % oname, sname)
                except Exception as ex:  # noqa: BLE001
                    fail("%s:aabb raised %s" % (oname, type(ex).__name__), sname, ex)
                # ---------------- oriented box
                for variant, kw in (("", {}), ("[normal]", {"normal": [0.2, 0.3, 0.9]}), ("[ordered=False]", {"ordered": False})):
                    cases += 1
                    try:
                        T, ext = trimesh.bounds.oriented_bounds(g if oname == "Trimesh" else P, **kw)
                        R = T[:3, :3]
                        if not (rnp.allclose(R @ R.T, rnp.eye(3), atol=1e-8) and abs(rnp.linalg.det(R) - 1.0) < 1e-8 and rnp.allclose(T[3], [0, 0, 0, 1])):
                            fail("%s:obb%s:transform-not-rigid" % (oname, variant), sname)
                        Q = trimesh.transformations.transform_points(Vv, T)
                        if float((rnp.abs(Q) - ext / 2.0).max()) > 1e-6 * max(scale, 1e-12):
                            fail("%s:obb%s:points-outside-the-reported-box" % (oname, variant), sname, float((rnp.abs(Q) - ext / 2.0).max()))
                        if float(rnp.abs(Q.min(axis=0) + Q.max(axis=0)).max()) > 1e-6 * max(scale, 1e-12):
                            fail("%s:obb%s:box-not-centred-at-the-origin" % (oname, variant), sname, (Q.min(axis=0) + Q.max(axis=0)).tolist())
                    except Exception as ex:  # noqa: BLE001
                        fail("%s:obb%s raised %s" % (oname, variant, type(ex).__name__), sname, ex)
                cases += 1
                try:
                    obb = g.bounding_box_oriented
                    Ti = rnp.linalg.inv(obb.primitive.transform)
                    Q = trimesh.transformations.transform_points(Vv, Ti)
                    if float((rnp.abs(Q) - obb.primitive.extents / 2.0).max()) > 1e-6 * max(scale, 1e-12):
                        fail("%s:bounding_box_oriented-does-not-contain" % oname, sname)
                except Exception as ex:  # noqa: BLE001
                    fail("%s:bounding_box_oriented raised %s" % (oname, type(ex).__name__), sname, ex)
                # ---------------- sphere
                cases += 1
                try:
                    C, Rr = trimesh.nsphere.minimum_nsphere(g if oname == "Trimesh" else P)
                    far = float(rnp.linalg.norm(Vv - C, axis=1).max())
                    if far > Rr * (1 + 1e-7) + 1e-12:
                        fail("%s:minimum_nsphere-does-not-contain" % oname, sname, "%g > %g" % (far, Rr))
                    bs = g.bounding_sphere
                    c2 = bs.primitive.center
                    if float(rnp.linalg.norm(Vv - c2, axis=1).max()) > bs.primitive.radius * (1 + 1e-7) + 1e-12:
                        fail("%s:bounding_sphere-does-not-contain" % oname, sname)
                    if len(Vv) <= 14 and sname in ("elongated-sparse", "tetra+interior"):
                        best = _min_sphere_brute(Vv)
                        if best is not None and Rr > best[1] * (1 + 1e-6):
                            fail("%s:minimum_nsphere-not-minimal" % oname, sname, "%g vs optimum %g" % (Rr, best[1]))
                except Exception as ex:  # noqa: BLE001
                    fail("%s:nsphere raised %s" % (oname, type(ex).__name__), sname, ex)
                # ---------------- cylinder
                cases += 1
                try:
                    cy = g.bounding_cylinder
                    Ti = rnp.linalg.inv(cy.primitive.transform)
                    Q = trimesh.transformations.transform_points(Vv, Ti)
                    rad = rnp.linalg.norm(Q[:, :2], axis=1).max()
                    if rad > cy.primitive.radius * (1 + 1e-6) + 1e-12 or rnp.abs(Q[:, 2]).max() > cy.primitive.height / 2.0 * (1 + 1e-6) + 1e-12:
                        fail("%s:bounding_cylinder-does-not-contain" % oname, sname, "r %g/%g h %g/%g" % (rad, cy.primitive.radius, rnp.abs(Q[:, 2]).max(), cy.primitive.height / 2))
                except Exception as ex:  # noqa: BLE001
                    fail("%s:bounding_cylinder raised %s" % (oname, type(ex).__name__), sname, ex)
        # 2-D
        P2 = P[:, :2]
        cases += 1
        try:
            T, ext = trimesh.bounds.oriented_bounds_2D(P2)
            R = T[:2, :2]
            if not (rnp.allclose(R @ R.T, rnp.eye(2), atol=1e-8) and abs(rnp.linalg.det(R) - 1.0) < 1e-8):
                fail("2D:obb:transform-not-rigid", sname)
            Q = trimesh.transformations.transform_points(P2, T)
            if float((rnp.abs(Q) - ext / 2.0).max()) > 1e-6 * max(scale, 1e-12):
                fail("2D:obb:points-outside-the-reported-rectangle", sname)
            C, Rr = trimesh.nsphere.minimum_nsphere(P2)
            if float(rnp.linalg.norm(P2 - C, axis=1).max()) > Rr * (1 + 1e-7) + 1e-12:
                fail("2D:minimum_nsphere-does-not-contain", sname)
        except Exception as ex:  # noqa: BLE001
            fail("2D raised %s" % type(ex).__name__, sname, ex)
    # axis-flat inputs
    cases += 1
    try:
        flat = rnp.column_stack([rng.random((12, 2)), rnp.zeros(12)])
        C, Rr = trimesh.nsphere.minimum_nsphere(flat[:, :2])
        if float(rnp.linalg.norm(flat[:, :2] - C, axis=1).max()) > Rr * (1 + 1e-7):
            fail("2D:minimum_nsphere-does-not-contain", "planar")
        seg = rnp.column_stack([rnp.linspace(0, 1, 7), rnp.full(7, 0.5)])
        C, Rr = trimesh.nsphere.minimum_nsphere(seg)
        if float(rnp.linalg.norm(seg - C, axis=1).max()) > Rr * (1 + 1e-7):
            fail("2D:minimum_nsphere-does-not-contain", "axis-aligned-segment")
    except Exception as ex:  # noqa: BLE001
        fail("minimum_nsphere:axis-flat-points raised %s" % type(ex).__name__, "axis-aligned-segment", ex)
    fails = sorted(cells.values(), key=lambda c: c["cell"])
    r = common.result(cases, cases, fails, "14 point sets x (hull, hull after 4 transforms with 3 earlier reads, AABB, 3 OBB variants, OBB primitive, sphere, cylinder) for point cloud and hull mesh + 2-D variants", exhaustive=True)
    r["failures"] = fails
    return r


# (a contract on bounds.oriented_bounds_2D - the returned rectangle contains and touches the hull,
# for three symbolic hull points with qhull replaced by its contract - was tried: exploration
# takes 10 s / 2 paths, but the obligations (sqrt normalisation, division, atan2, nested
# min / max / argmin) are not decided by z3, cvc5 or the Groebner back end within the 240 s
# budget. It is not registered; containment for oriented boxes stays in the bounded tier.)
