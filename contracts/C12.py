"""
C12 — Accelerated ray and proximity queries equal exhaustive evaluation.

(a) ray_triangle.ray_bounds, one ray with a UNIT direction, every real origin / bounds: every
    point o + t d (t >= 0) that lies inside the tree bounds lies inside the returned box, so
    no triangle crossed inside the bounds is pruned (with (M4) for rtree.intersection and
    triangles.bounds_tree storing each triangle's AABB).  The proof needs |d| = 1: the clamp
    t < 1e-5 -> 1e-5 is in parameter units, the padding in length units.
    Call-site obligation: ray_triangle_id hands ray_bounds unit directions.
(b) intersections.planes_lines and triangles.points_to_barycentric (both methods), one row:
    the reported location is o + distance.d and lies on the plane; barycentric coordinates
    sum to one and reproduce the point (in-plane component).
(c) bounded, real classes: small meshes x rays in general position (axis aligned and oblique,
    origins inside and outside, unit and non-unit directions) against an all-triangles
    Moeller-Trumbore oracle, both ray engines, single and multiple hits, first hit = nearest;
    contains vs exact classification; closest point / distance / signed distance against the
    minimum over all triangles.
"""
import itertools

import numpy as rnp

from contracts import common
from pyvc import core
from pyvc.engine import Ghost, bounded, contract

RT = "trimesh.ray.ray_triangle"
INT = "trimesh.intersections"
TRI = "trimesh.triangles"

META = {
    "level": "proof",
    "assumptions": [
        "(M4) rtree.Index.intersection returns every stored box that intersects the query box; cKDTree.query returns a nearest vertex",
        "(a),(b) one ray / one row per run: the functions are row-local (M3); float64 as reals (T4)",
        "the embree back end is C code: only agreement with the exhaustive oracle is checked (bounded)",
    ],
    "trusted_base": ["pyvc (T1)", "z3/cvc5/sympy (T2)", "float64 == real (T4)", "M4 rtree / kd-tree contracts"],
}


def _dot(a, b):
    return a[0] * b[0] + a[1] * b[1] + a[2] * b[2]


# ----------------------------------------------------------------------------- (a) ray_bounds


def _mk_ray_bounds(axis):
    @contract("C12", RT + ".ray_bounds", name="box-contains-the-ray-inside-the-bounds[primary-axis=%d]" % axis, timeout=60000, max_paths=300)
    def ray_bounds(h):
        o = h.reals("o", 3)
        d = h.reals("d", 3)
        lo = h.reals("lo", 3)
        hi = h.reals("hi", 3)
        t = h.real("t")
        h.assume([lo[k] <= hi[k] for k in range(3)])
        h.assume(h.eq(_dot(d, d), 1.0) if h.mode == "sym" else abs(_dot(d, d) - 1.0) < 1e-9)
        # the primary axis (largest |d|) is `axis`: fixes the argmax branch
        others = [k for k in range(3) if k != axis]
        h.assume([abs(d[axis]) > abs(d[k]) for k in others])
        h.assume(t >= 0)
        x = [o[k] + t * d[k] for k in range(3)]
        h.assume([h.all([lo[k] <= x[k], x[k] <= hi[k]]) for k in range(3)])
        np = h.np
        O = np.array([list(o)]) if h.mode == "sym" else rnp.array([o], dtype=float)
        D = np.array([list(d)]) if h.mode == "sym" else rnp.array([d], dtype=float)
        B = np.array([list(lo), list(hi)]) if h.mode == "sym" else rnp.array([lo, hi], dtype=float)
        box = h.fn(RT + ".ray_bounds")(O, D, B)
        h.check("shape", box.shape == (1, 6))
        h.check("point-inside-box", h.all([h.all([h.le(box[0, k], x[k], slack=1e-12), h.le(x[k], box[0, 3 + k], slack=1e-12)]) for k in range(3)]))


for _ax in range(3):
    _mk_ray_bounds(_ax)


@contract("C12", RT + ".ray_triangle_id", name="call-site:ray_bounds-receives-unit-directions", timeout=60000)
def call_site_unit(h):
    """ray_bounds' precondition |d| = 1 at its only call site (through ray_triangle_candidates)"""
    o = h.reals("o", 3)
    d = h.reals("d", 3)
    h.assume(_dot(d, d) > 1e-6)
    h.assume([h.all([c >= -1000.0, c <= 1000.0]) for c in d])
    seen = []

    def fake_ray_bounds(ray_origins, ray_directions, bounds, buffer_dist=1e-5):
        seen.append(ray_directions)
        return h.np.zeros((len(ray_origins), 6)) if h.mode == "sym" else rnp.zeros((len(ray_origins), 6))

    class _Tree:
        bounds = [-1.0, -1.0, -1.0, 1.0, 1.0, 1.0]

        def intersection(self, b):
            return []

    T = rnp.array([[[0.0, 0, 0], [1, 0, 0], [0, 1, 0]]])
    np = h.np
    O = np.array([list(o)]) if h.mode == "sym" else rnp.array([o], dtype=float)
    D = np.array([list(d)]) if h.mode == "sym" else rnp.array([d], dtype=float)
    if h.mode == "sym":
        h.stub(RT + ".ray_bounds", fake_ray_bounds)
        h.fn(RT + ".ray_triangle_id")(T, O, D, tree=_Tree())
    else:
        from trimesh.ray import ray_triangle as real

        orig = real.ray_bounds
        real.ray_bounds = fake_ray_bounds
        try:
            real.ray_triangle_id(T, O, D, tree=_Tree())
        finally:
            real.ray_bounds = orig
    h.check("ray_bounds-called-once", len(seen) == 1)
    g = seen[0]
    h.check("unit-length", h.eq(_dot(g[0], g[0]), 1.0, atol=1e-9))
    cr = [g[0][1] * d[2] - g[0][2] * d[1], g[0][2] * d[0] - g[0][0] * d[2], g[0][0] * d[1] - g[0][1] * d[0]]
    h.check("same-direction", h.all([h.eq(c, 0.0, atol=1e-9) for c in cr] + [_dot(g[0], d) > 0]))


# ----------------------------------------------------------------------------- (b) plane / barycentric kernels


@contract("C12", INT + ".planes_lines", name="location-on-line-and-plane", timeout=60000)
def planes_lines(h):
    p0 = h.reals("p", 3)
    n = h.reals("n", 3)
    o = h.reals("o", 3)
    d = h.reals("d", 3)
    np = h.np
    mk = (lambda v: np.array([list(v)])) if h.mode == "sym" else (lambda v: rnp.array([v], dtype=float))
    loc, valid, dist = h.fn(INT + ".planes_lines")(mk(p0), mk(n), mk(o), mk(d), return_distance=True)
    dn = _dot(d, n)
    h.check("valid<=>|d.n|>1e-5", (bool(valid[0]) == bool(abs(dn) > 1e-5)) if h.mode != "sym" else core._mkbool(core.tobool(valid[0]) == core.tobool(abs(dn) > 1e-5)))
    if not bool(valid[0]):
        h.check("nothing-returned", loc.shape[0] == 0)
        return
    x = loc[0]
    h.check("on-the-line:x=o+distance.d", h.all([h.eq(x[k], o[k] + dist[0] * d[k]) for k in range(3)]))
    h.check("on-the-plane", h.eq(_dot(n, [x[k] - p0[k] for k in range(3)]), 0.0, atol=1e-7))


def _mk_bary(method):
    @contract("C12", TRI + ".points_to_barycentric", name="weights-reproduce-the-point[%s]" % method, timeout=60000)
    def barycentric(h):
        V = h.reals("v", (3, 3))
        w1 = h.real("w1")
        w2 = h.real("w2")
        e0 = [V[1, k] - V[0, k] for k in range(3)]
        e1 = [V[2, k] - V[0, k] for k in range(3)]
        cr = [e0[1] * e1[2] - e0[2] * e1[1], e0[2] * e1[0] - e0[0] * e1[2], e0[0] * e1[1] - e0[1] * e1[0]]
        h.assume(_dot(cr, cr) > 1e-6)  # a proper triangle
        # any point of the triangle's plane
        P = [V[0, k] + w1 * e0[k] + w2 * e1[k] for k in range(3)]
        np = h.np
        T = np.array([V.tolist()]) if h.mode == "sym" else rnp.array([V], dtype=float)
        Q = np.array([P]) if h.mode == "sym" else rnp.array([P], dtype=float)
        b = h.fn(TRI + ".points_to_barycentric")(T, Q, method=method)
        h.check("one-row-of-three-weights", tuple(b.shape) == (1, 3))
        h.check("sum-to-one", h.eq(b[0, 0] + b[0, 1] + b[0, 2], 1.0))
        h.check("weights-are-the-plane-coordinates", h.all([h.eq(b[0, 1], w1, atol=1e-7), h.eq(b[0, 2], w2, atol=1e-7)]))


_mk_bary("cramer")
_mk_bary("cross")


# ----------------------------------------------------------------------------- (c) bounded tier


def moller_trumbore(tri, o, d, eps=1e-12):
    """all-triangles oracle: (t, u, v) per triangle for ray o + t d; nan where parallel"""
    v0, v1, v2 = tri[:, 0], tri[:, 1], tri[:, 2]
    e1, e2 = v1 - v0, v2 - v0
    p = rnp.cross(d, e2)
    det = (e1 * p).sum(axis=1)
    with rnp.errstate(divide="ignore", invalid="ignore"):
        inv = 1.0 / det
        s = o - v0
        u = (s * p).sum(axis=1) * inv
        q = rnp.cross(s, e1)
        v = (q * d).sum(axis=1) * inv
        t = (e2 * q).sum(axis=1) * inv
    bad = rnp.abs(det) < eps
    t[bad] = rnp.nan
    return t, u, v


def _meshes(tier):
    import trimesh

    fam = [("box", lambda: trimesh.creation.box(extents=[1.0, 2.0, 3.0])), ("ico", lambda: trimesh.creation.icosphere(subdivisions=1, radius=1.3)), ("torus", lambda: trimesh.creation.torus(2.0, 0.5, major_sections=10, minor_sections=6)), ("two_bodies", dict(common.meshes(tier))["two_bodies"]), ("off_origin", lambda: trimesh.creation.icosphere(subdivisions=1).apply_translation([100.0, -50.0, 25.0])), ("thin_box", lambda: trimesh.creation.box(extents=[2.0, 2.0, 0.01]))]
    return fam


def _rays(m, rng, n):
    """rays in general position: origins outside and inside, axis aligned and oblique,
    unit and non-unit directions"""
    c = m.bounds.mean(axis=0)
    ext = m.extents
    out = []
    for k in range(n):
        kind = k % 6
        if kind == 0:  # from outside towards a random interior-ish point, oblique
            o = c + (rng.normal(size=3) * 2.0 + 3.0 * rnp.sign(rng.normal(size=3))) * ext
            tgt = c + (rng.random(3) - 0.5) * ext * 0.9
            d = tgt - o
        elif kind == 1:  # axis aligned from outside
            ax = int(rng.integers(3))
            o = c + (rng.random(3) - 0.5) * ext * 0.8
            o[ax] = m.bounds[0][ax] - 1.0 - rng.random()
            d = rnp.zeros(3)
            d[ax] = 1.0
        elif kind == 2:  # from a point near the centre, oblique
            o = c + (rng.random(3) - 0.5) * ext * 0.1
            d = rng.normal(size=3)
        elif kind == 3:  # non-unit long direction, origin close to the surface along the ray
            ax = int(rng.integers(3))
            o = c + (rng.random(3) - 0.5) * ext * 0.5
            o[ax] = m.bounds[0][ax] - 0.005
            d = rnp.zeros(3)
            d[ax] = 1000.0
        elif kind == 4:  # tiny direction vector
            o = c + (rng.normal(size=3) + 2.5) * ext
            d = (c + (rng.random(3) - 0.5) * ext * 0.5 - o) * 1e-3
        else:  # pointing away: no forward hit from outside
            o = c + 3.0 * ext
            d = rng.random(3) + 0.1
        out.append((o, d))
    # origins hugging the surface (0.01 off a face, inside and outside): candidate triangles
    # lie partly behind the origin
    fi = rng.integers(0, len(m.faces), size=max(6, n // 3))
    for k, f in enumerate(fi):
        side = 1.0 if k % 2 else -1.0
        o = m.triangles_center[f] + side * 0.01 * float(m.scale) * m.face_normals[f]
        d = rng.normal(size=3)
        out.append((o, d))
    return out


def _oracle_hits(tri, o, d, margin):
    """(sorted list of (triangle, t)) for hits well inside a triangle and ahead of the origin;
    `ambiguous` if some triangle is hit within `margin` of an edge / the origin / grazing"""
    t, u, v = moller_trumbore(tri, o, d)
    with rnp.errstate(invalid="ignore"):
        w = 1.0 - u - v
    dl = rnp.linalg.norm(d)
    bm = 0.01  # barycentric margin: a hundredth of the triangle away from its edges
    inside = (u > bm) & (v > bm) & (w > bm) & (t * dl > margin)
    near = ~rnp.isnan(t) & (u > -bm) & (v > -bm) & (w > -bm) & (t * dl > -margin) & ~inside
    # grazing: the ray is nearly parallel to a triangle it is close to
    n = rnp.cross(tri[:, 1] - tri[:, 0], tri[:, 2] - tri[:, 0])
    n /= rnp.linalg.norm(n, axis=1).reshape(-1, 1)
    graze = (rnp.abs(n @ (d / dl)) < 1e-3) & (u > -0.5) & (v > -0.5) & (w > -0.5)
    return sorted((int(i), float(t[i] * dl)) for i in rnp.flatnonzero(inside)), bool(near.any() or graze.any())


@bounded("C12", name="real-code:rays-vs-all-triangles", note="6 meshes x seeded rays (outside/inside origins, axis-aligned/oblique, unit / 1000x / 0.001x directions) against an all-triangles Moeller-Trumbore oracle; both engines; multiple hits, first hit, any; hit lies on ray and triangle")
def rays_vs_oracle(tier, seed):
    import trimesh
    from trimesh.ray import ray_pyembree, ray_triangle

    rng = rnp.random.default_rng(seed + 12)
    n_rays = 60 if tier == "quick" else 600
    cells = {}
    cases = 0

    def fail(key, mname, **kw):
        c = cells.setdefault(key, dict(what=key, cell=key, mesh=mname, count=0, **kw))
        c["count"] += 1

    for mname, mk in _meshes(tier):
        m = mk()
        tri = rnp.asarray(m.triangles)
        scale = float(m.scale)
        engines = [("rtree", ray_triangle.RayMeshIntersector(m))]
        if trimesh.ray.has_embree:
            engines.append(("embree", ray_pyembree.RayMeshIntersector(m)))
        for o, d in _rays(m, rng, n_rays):
            want, ambiguous = _oracle_hits(tri, o, d, margin=1e-4 * scale)
            if ambiguous:
                continue
            wt = sorted(i for i, _ in want)
            for ename, eng in engines:
                cases += 1
                try:
                    loc, iray, itri = eng.intersects_location([o], [d], multiple_hits=True)
                    got = sorted(int(i) for i in itri)
                    if got != wt:
                        fail("%s:hit-set-differs-from-all-triangles" % ename, mname, origin=o.tolist(), direction=d.tolist(), got=got, want=wt)
                        continue
                    # every reported location is on the ray ahead of the origin and on its triangle
                    for p, ti in zip(loc, itri):
                        s = float((p - o) @ d / (d @ d))
                        if s < -1e-9 or float(rnp.linalg.norm(o + s * d - p)) > 1e-6 * max(1.0, scale):
                            fail("%s:location-off-the-ray" % ename, mname, origin=o.tolist(), direction=d.tolist())
                        b = trimesh.triangles.points_to_barycentric(tri[[ti]], [p])[0]
                        nrm = rnp.cross(tri[ti][1] - tri[ti][0], tri[ti][2] - tri[ti][0])
                        if b.min() < -1e-6 or abs(float((p - tri[ti][0]) @ nrm / rnp.linalg.norm(nrm))) > 1e-6 * max(1.0, scale):
                            fail("%s:location-off-the-triangle" % ename, mname, origin=o.tolist(), direction=d.tolist())
                    first = eng.intersects_first([o], [d])
                    wfirst = min(want, key=lambda it: it[1])[0] if want else -1
                    if int(first[0]) != wfirst:
                        fail("%s:first-hit-is-not-the-nearest" % ename, mname, origin=o.tolist(), direction=d.tolist(), got=int(first[0]), want=wfirst)
                    if bool(eng.intersects_any([o], [d])[0]) != bool(want):
                        fail("%s:intersects_any-wrong" % ename, mname, origin=o.tolist(), direction=d.tolist())
                except Exception as ex:  # noqa: BLE001
                    fail("%s:raised %s" % (ename, type(ex).__name__), mname, detail=str(ex)[:100])
        # ---- batches: the answer for a ray must not depend on the other rays of the call
        rays = [(o, d) for o, d in _rays(m, rng, n_rays) if not _oracle_hits(tri, o, d, margin=1e-4 * scale)[1]]
        if rays:
            # several view points aiming at the same surface targets, and a duplicated ray
            tgt = [o + d * (min(t for _, t in _oracle_hits(tri, o, d, 1e-4 * scale)[0]) / rnp.linalg.norm(d)) for o, d in rays if _oracle_hits(tri, o, d, 1e-4 * scale)[0]][:4]
            extra = []
            for t_ in tgt:
                for _ in range(3):
                    o2 = t_ + rng.normal(size=3) * float(m.scale) * 2.0
                    extra.append((o2, t_ - o2))
            # the surface-hugging rays (candidate triangles behind the origin) go FIRST: whatever they
            # leave behind in the per-call arrays must not leak into the rays after them
            n_plain = n_rays
            hug = [r_ for r_ in rays if any(r_ is q for q in rays[-max(6, n_rays // 3):])]
            batch = hug + rays[:20] + rays[:3] + [r_ for r_ in extra if not _oracle_hits(tri, r_[0], r_[1], 1e-4 * scale)[1]]
            O = rnp.array([o for o, _ in batch])
            D = rnp.array([d for _, d in batch])
            for ename, eng in engines:
                cases += 1
                try:
                    loc, iray, itri = eng.intersects_location(O, D, multiple_hits=True)
                    first = eng.intersects_first(O, D)
                    for k, (o, d) in enumerate(batch):
                        want, _ = _oracle_hits(tri, o, d, 1e-4 * scale)
                        got = sorted(int(t_) for t_, r_ in zip(itri, iray) if r_ == k)
                        if got != sorted(i for i, _ in want):
                            fail("%s:batch:hit-set-of-a-ray-depends-on-the-other-rays" % ename, mname, ray=k, got=got, want=sorted(i for i, _ in want))
                            break
                        wfirst = min(want, key=lambda it: it[1])[0] if want else -1
                        if int(first[k]) != wfirst:
                            fail("%s:batch:first-hit-is-not-the-nearest" % ename, mname, ray=k, got=int(first[k]), want=wfirst)
                            break
                except Exception as ex:  # noqa: BLE001
                    fail("%s:batch:raised %s" % (ename, type(ex).__name__), mname, detail=str(ex)[:100])
    fails = sorted(cells.values(), key=lambda c: c["cell"])
    r = common.result(cases, cases, fails, "6 meshes x %d rays x engines; rays within 1e-4*scale of an edge / vertex / the origin or grazing are skipped (general position)" % n_rays, exhaustive=False)
    r["failures"] = fails
    return r


def _closest_on_triangles(tri, p):
    """brute force closest point over all triangles (Ericson), returns (point, dist, index)"""
    best = (None, rnp.inf, -1)
    for i, (a, b, c) in enumerate(tri):
        ab, ac, ap = b - a, c - a, p - a
        d1, d2 = ab @ ap, ac @ ap
        if d1 <= 0 and d2 <= 0:
            q = a
        else:
            bp = p - b
            d3, d4 = ab @ bp, ac @ bp
            if d3 >= 0 and d4 <= d3:
                q = b
            else:
                vc = d1 * d4 - d3 * d2
                if vc <= 0 and d1 >= 0 and d3 <= 0:
                    q = a + ab * (d1 / (d1 - d3))
                else:
                    cp = p - c
                    d5, d6 = ab @ cp, ac @ cp
                    if d6 >= 0 and d5 <= d6:
                        q = c
                    else:
                        vb = d5 * d2 - d1 * d6
                        if vb <= 0 and d2 >= 0 and d6 <= 0:
                            q = a + ac * (d2 / (d2 - d6))
                        else:
                            va = d3 * d6 - d5 * d4
                            if va <= 0 and (d4 - d3) >= 0 and (d5 - d6) >= 0:
                                q = b + (c - b) * ((d4 - d3) / ((d4 - d3) + (d5 - d6)))
                            else:
                                den = 1.0 / (va + vb + vc)
                                q = a + ab * (vb * den) + ac * (vc * den)
        dist = float(rnp.linalg.norm(p - q))
        if dist < best[1]:
            best = (q, dist, i)
    return best


@bounded("C12", name="real-code:proximity-and-containment", note="closest point / distance / signed distance against the minimum over all triangles; contains against exact classification (box, convex solids by half-spaces, torus analytically skipped); points a margin away from the surface")
def proximity(tier, seed):
    import trimesh

    rng = rnp.random.default_rng(seed + 120)
    n_pts = 60 if tier == "quick" else 500
    cells = {}
    cases = 0

    def fail(key, mname, **kw):
        c = cells.setdefault(key, dict(what=key, cell=key, mesh=mname, count=0, **kw))
        c["count"] += 1

    for mname, mk in _meshes(tier):
        m = mk()
        tri = rnp.asarray(m.triangles)
        scale = float(m.scale)
        c = m.bounds.mean(axis=0)
        pts = c + (rng.random((n_pts, 3)) - 0.5) * m.extents * 2.2
        try:
            cl, dist, tid = m.nearest.on_surface(pts)
            sd = trimesh.proximity.signed_distance(m, pts)
        except Exception as ex:  # noqa: BLE001
            fail("on_surface:raised %s" % type(ex).__name__, mname, detail=str(ex)[:100])
            continue
        for i, p in enumerate(pts):
            cases += 1
            q, dmin, j = _closest_on_triangles(tri, p)
            if abs(dist[i] - dmin) > 1e-9 * max(1.0, scale):
                fail("closest-point:distance-not-the-minimum-over-all-triangles", mname, point=p.tolist(), got=float(dist[i]), want=dmin)
            if abs(float(rnp.linalg.norm(cl[i] - p)) - dist[i]) > 1e-9 * max(1.0, scale):
                fail("closest-point:reported-point-not-at-reported-distance", mname, point=p.tolist())
            _, dchk, _ = _closest_on_triangles(tri[[tid[i]]], cl[i])
            if dchk > 1e-8 * max(1.0, scale):
                fail("closest-point:reported-point-not-on-reported-triangle", mname, point=p.tolist())
            if abs(abs(sd[i]) - dmin) > 1e-8 * max(1.0, scale):
                fail("signed-distance:magnitude", mname, point=p.tolist())
        # containment for convex watertight solids: inside <=> behind every face plane
        if m.is_watertight and m.is_convex:
            inside = rnp.all(((pts[:, None, :] - tri[None, :, 0, :]) * m.face_normals[None, :, :]).sum(axis=2) < 0, axis=1)
            margin = rnp.abs(((pts[:, None, :] - tri[None, :, 0, :]) * m.face_normals[None, :, :]).sum(axis=2)).min(axis=1) > 1e-4 * scale
            for ename in ("rtree", "embree"):
                if ename == "embree" and not trimesh.ray.has_embree:
                    continue
                from trimesh.ray import ray_pyembree, ray_triangle

                eng = (ray_triangle if ename == "rtree" else ray_pyembree).RayMeshIntersector(m)
                got = eng.contains_points(pts)
                cases += int(margin.sum())
                bad = rnp.flatnonzero((got != inside) & margin)
                if len(bad):
                    fail("%s:contains-differs-from-half-space-test" % ename, mname, point=pts[bad[0]].tolist(), count_bad=int(len(bad)))
            sgn = rnp.where(inside, 1.0, -1.0)
            bad = rnp.flatnonzero((rnp.sign(sd) != sgn) & margin)
            if len(bad):
                fail("signed-distance:sign (positive inside)", mname, point=pts[bad[0]].tolist())
    fails = sorted(cells.values(), key=lambda c: c["cell"])
    r = common.result(cases, cases, fails, "6 meshes x %d query points in 2.2 x the bounding box" % n_pts, exhaustive=False)
    r["failures"] = fails
    return r


# ----------------------------------------------------------------------------- (d) narrow phase bookkeeping of ray_triangle_id


def _mk_narrow(cand_ray, multiple):
    """cand_ray[i] = the ray of candidate i (candidate i is triangle i)"""
    c = len(cand_ray)
    nr = max(cand_ray) + 1
    tag = "candidates-of-rays=%s;%s" % ("".join(map(str, cand_ray)), "all-hits" if multiple else "first-hit")

    @contract("C12", RT + ".ray_triangle_id", name="narrow-phase-returns-exactly-the-forward-hits[%s]" % tag, kind="bounded-shape", timeout=60000, max_paths=6000, note="broad phase, plane intersection and barycentric kernels replaced by their contracts (arbitrary candidate validity, locations and barycentric coordinates): the filtering / alignment / first-hit selection of the real function is what is verified")
    def narrow(h):
        import trimesh

        tz = float(trimesh.constants.tol.zero)
        L = h.reals("L", (c, 3))
        B = h.reals("B", (c, 3))
        V = h.bools("valid", c)
        O = h.reals("O", (nr, 3))
        dirs = [[0.0, 0.0, 1.0], [1.0, 0.0, 0.0], [0.0, -1.0, 0.0]][:nr]
        tris = rnp.array([[[0.0, 0, 0], [1, 0, 0], [0, 1, 0]]] * c) + rnp.arange(c).reshape(-1, 1, 1)
        normals = rnp.array([[0.0, 0, 1.0]] * c)
        sym = h.mode == "sym"
        np = h.np if sym else rnp
        La, Ba = (np.array(L), np.array(B)) if sym else (rnp.array(L, dtype=float), rnp.array(B, dtype=float))
        Va = np.array(list(V)) if sym else rnp.array(V, dtype=bool)
        Oa = np.array(O) if sym else rnp.array(O, dtype=float)

        def candidates(ray_origins, ray_directions, tree):
            return (np.array(list(range(c))), np.array(list(cand_ray))) if sym else (rnp.arange(c), rnp.array(cand_ray))

        def planes_lines(plane_origins, plane_normals, line_origins, line_directions, **kw):
            return La[Va], Va

        def to_bary(triangles, points, **kw):
            return Ba[Va]

        stubs = [(RT, "ray_triangle_candidates", candidates), ("trimesh.intersections", "planes_lines", planes_lines), ("trimesh.triangles", "points_to_barycentric", to_bary)]
        if sym:
            for mod, name, fn in stubs:
                h.stub(mod + "." + name, fn)
            out = h.fn(RT + ".ray_triangle_id")(np.array(tris.tolist()), Oa, np.array(dirs), multiple_hits=multiple, triangles_normal=np.array(normals.tolist()), tree=object())
        else:
            import importlib

            saved = []
            for mod, name, fn in stubs:
                m = importlib.import_module(mod)
                saved.append((m, name, getattr(m, name)))
                setattr(m, name, fn)
            try:
                from trimesh.ray import ray_triangle as real

                out = real.ray_triangle_id(tris, Oa, rnp.array(dirs), multiple_hits=multiple, triangles_normal=normals, tree=object())
            finally:
                for m, name, fn in saved:
                    setattr(m, name, fn)
        itri, iray, loc = out
        n_out = len(itri)
        dist = [sum([(L[i, k] - O[cand_ray[i], k]) * dirs[cand_ray[i]][k] for k in range(3)]) for i in range(c)]
        pred = [h.all([V[i]] + [B[i, k] > -tz for k in range(3)] + [B[i, k] < 1 + tz for k in range(3)] + [dist[i] > -1e-6]) for i in range(c)]
        rows_ok = []
        for k in range(n_out):
            alts = []
            for i in range(c):
                alts.append(h.all([itri[k] == i, iray[k] == cand_ray[i], pred[i]] + [h.exact(loc[k][a], L[i, a]) for a in range(3)]))
            rows_ok.append(h.any(alts))
        h.check("every-row-is-a-forward-hit-with-its-own-ray-and-location", h.all(rows_ok) if rows_ok else True)
        if multiple:
            h.check("every-forward-hit-is-returned-once-in-candidate-order", h.all([h.implies(pred[i], h.any([itri[k] == i for k in range(n_out)])) for i in range(c)] + [itri[k] < itri[k + 1] for k in range(n_out - 1)]))
        else:
            conds = []
            for r in range(nr):
                mine = [i for i in range(c) if cand_ray[i] == r]
                anyhit = h.any([pred[i] for i in mine])
                rows = [iray[k] == r for k in range(n_out)]
                # exactly one row for a ray that hits, none otherwise
                count = sum([h.ite(x, 1, 0) if sym else int(bool(x)) for x in rows]) if rows else 0
                conds.append(h.implies(anyhit, count == 1) if sym else ((count == 1) if anyhit else True))
                conds.append(h.implies(h.not_(anyhit), count == 0) if sym else ((count == 0) if not anyhit else True))
                # the row of ray r is a nearest hit
                for k in range(n_out):
                    for i in mine:
                        nearest = h.all([h.implies(pred[j], dist[i] <= dist[j]) if sym else ((dist[i] <= dist[j] + 1e-12) if pred[j] else True) for j in mine])
                        conds.append(h.implies(h.all([iray[k] == r, itri[k] == i]), nearest) if sym else (nearest if (iray[k] == r and itri[k] == i) else True))
            h.check("one-row-per-hitting-ray-and-it-is-the-nearest", h.all(conds))

    return narrow


for _cr in ((0,), (0, 0), (0, 0, 0), (0, 0, 1), (0, 1, 1), (0, 0, 1, 1)):
    for _mh in (True, False):
        _mk_narrow(_cr, _mh)
