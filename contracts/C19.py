"""
C19 — Rotation and transform representations convert consistently.

Contracts on the real functions of trimesh/transformations.py (mirrored, executed on
symbolic reals; trig/sqrt/atan2 by defining algebraic axioms).  Every 4x4/3x3 object has a
fixed shape, so these obligations hold for *all* real inputs: level proof.
"""
import math

import numpy as rnp

from pyvc.engine import contract, bounded
from pyvc import core

TF = "trimesh.transformations"

META = {
    "level": "proof",
    "assumptions": [
        "float64 arithmetic is treated as exact real arithmetic (T4): rounding, NaN/Inf, -0.0 are outside every obligation",
        "sin/cos/arctan2/arccos/arcsin/sqrt are characterised by their algebraic defining axioms (s^2+c^2=1, r*sin=y, r*cos=x, r^2=x^2+y^2, double-angle link between a and a/2); no other property of the transcendental functions is used",
        "euler_from_matrix: the numerical band 0 < cy <= _EPS (resp. sy) is declared slack and excluded by precondition; exact gimbal lock (cy == 0) and the regular branch are covered",
        "rotation_from_matrix, quaternion_from_matrix(isprecise=False), affine_matrix_from_points, superimposition_matrix call eig/eigh/svd and are not under contract",
        "pyvc (mirror loader, shim, explorer) and z3/cvc5 are trusted (T1, T2)",
    ],
    "trusted_base": ["pyvc symbolic executor + numpy shim (T1)", "z3 4.x/5.x, cvc5 (T2)", "float64 == real (T4)"],
}

AXES = [
    "sxyz", "sxyx", "sxzy", "sxzx", "syzx", "syzy", "syxz", "syxy", "szxy", "szxz", "szyx", "szyz",
    "rzyx", "rxyx", "ryzx", "rxzx", "rxzy", "ryzy", "rzxy", "ryxy", "ryxz", "rzxz", "rxyz", "rzyz",
]  # fmt: skip


def _I(h, n):
    return [[1.0 if i == j else 0.0 for j in range(n)] for i in range(n)]


def _det3(R):
    return (
        R[0, 0] * (R[1, 1] * R[2, 2] - R[1, 2] * R[2, 1])
        - R[0, 1] * (R[1, 0] * R[2, 2] - R[1, 2] * R[2, 0])
        + R[0, 2] * (R[1, 0] * R[2, 1] - R[1, 1] * R[2, 0])
    )


def _rot_clauses(h, M, prefix=""):
    """M (4x4) is a homogeneous rotation: orthonormal, det +1, affine last row"""
    R = M[:3, :3]
    G = R.T.dot(R) if h.mode == "sym" else R.T @ R
    h.check(prefix + "orthonormal", h.eq(G, _I(h, 3)))
    h.check(prefix + "det=+1", h.eq(_det3(R), 1.0))
    h.check(prefix + "last-row", h.eq(M[3, :], [0.0, 0.0, 0.0, 1.0]))


# ----------------------------------------------------------------------------- axis-angle


@contract("C19", TF + ".rotation_matrix", name="rotation")
def rotation_matrix(h):
    a = h.real("angle")
    d = h.reals("d", 3)
    h.assume(d[0] * d[0] + d[1] * d[1] + d[2] * d[2] > 0)
    M = h.fn(TF + ".rotation_matrix")(a, d)
    _rot_clauses(h, M)
    h.check("no-translation", h.eq(M[:3, 3], [0.0, 0.0, 0.0]))
    # the axis is fixed
    h.check("fixes-axis", h.eq(M[:3, :3].dot(d), d))
    # trace = 1 + 2 cos(angle)
    h.check("trace", h.eq(M[0, 0] + M[1, 1] + M[2, 2], 1.0 + 2.0 * h.np.cos(a)))
    # (angle, axis) and (-angle, -axis) describe the same rotation
    M2 = h.fn(TF + ".rotation_matrix")(-a, -d)
    h.check("neg-angle-neg-axis", h.eq(M2, M))


@contract("C19", TF + ".rotation_matrix", name="about-point")
def rotation_matrix_point(h):
    a = h.real("angle")
    d = h.reals("d", 3)
    p = h.reals("p", 3)
    h.assume(d[0] * d[0] + d[1] * d[1] + d[2] * d[2] > 0)
    M = h.fn(TF + ".rotation_matrix")(a, d, p)
    _rot_clauses(h, M)
    # rotating about a point leaves that point fixed
    h.check("fixes-point", h.eq(M[:3, :3].dot(p) + M[:3, 3], p))
    # and every point on the axis through it
    t = h.real("t")
    q = p + t * d
    h.check("fixes-axis-line", h.eq(M[:3, :3].dot(q) + M[:3, 3], q))


@contract("C19", TF + ".transform_around", name="fixes-point")
def transform_around(h):
    M = h.reals("M", (4, 4))
    p = h.reals("p", 3)
    h.assume(h.eq(M[3, :], [0.0, 0.0, 0.0, 1.0]))
    R = h.fn(TF + ".transform_around")(M, p)
    # result = T(p) . M . T(-p): the point p is moved only by M's own translation
    h.check("point", h.eq(R[:3, :3].dot(p) + R[:3, 3], p + M[:3, 3]))
    h.check("linear-part-kept", h.eq(R[:3, :3], M[:3, :3]))
    h.check("last-row", h.eq(R[3, :], [0.0, 0.0, 0.0, 1.0]))


@contract("C19", TF + ".transform_around", name="fixes-point-2D")
def transform_around_2d(h):
    M = h.reals("M", (3, 3))
    p = h.reals("p", 2)
    h.assume(h.eq(M[2, :], [0.0, 0.0, 1.0]))
    R = h.fn(TF + ".transform_around")(M, p)
    h.check("point", h.eq(R[:2, :2].dot(p) + R[:2, 2], p + M[:2, 2]))
    h.check("linear-part-kept", h.eq(R[:2, :2], M[:2, :2]))


# ----------------------------------------------------------------------------- quaternions


def _qnorm2(q):
    return q[0] * q[0] + q[1] * q[1] + q[2] * q[2] + q[3] * q[3]


@contract("C19", TF + ".quaternion_matrix", name="rotation")
def quaternion_matrix(h):
    q = h.reals("q", 4)
    eps = h.module(TF)._EPS
    h.assume(_qnorm2(q) >= eps)
    M = h.fn(TF + ".quaternion_matrix")(q)
    _rot_clauses(h, M)
    h.check("no-translation", h.eq(M[:3, 3], [0.0, 0.0, 0.0]))
    M2 = h.fn(TF + ".quaternion_matrix")(-q)
    h.check("q-and-minus-q", h.eq(M2, M))


@contract("C19", TF + ".quaternion_matrix", name="near-zero-is-identity")
def quaternion_matrix_zero(h):
    q = h.reals("q", 4)
    eps = h.module(TF)._EPS
    h.assume(_qnorm2(q) < eps)
    M = h.fn(TF + ".quaternion_matrix")(q)
    h.check("identity", h.eq(M, _I(h, 4)))


@contract("C19", TF + ".quaternion_about_axis", name="unit-and-matches-rotation_matrix")
def quaternion_about_axis(h):
    a = h.real("angle")
    d = h.reals("d", 3)
    eps = h.module(TF)._EPS
    n2 = d[0] * d[0] + d[1] * d[1] + d[2] * d[2]
    h.assume(n2 > eps * eps)
    q = h.fn(TF + ".quaternion_about_axis")(a, d)
    h.check("unit", h.eq(_qnorm2(q), 1.0))
    # axis-angle -> quaternion -> matrix equals axis-angle -> matrix
    Mq = h.fn(TF + ".quaternion_matrix")(q)
    Mr = h.fn(TF + ".rotation_matrix")(a, d)
    h.check("same-rotation", h.eq(Mq, Mr))


def _P(q):
    """n(q) * R(q): the homogeneous quadratic form of the rotation matrix of q"""
    w, x, y, z = q[0], q[1], q[2], q[3]
    n = w * w + x * x + y * y + z * z
    return [
        [n - 2.0 * (y * y + z * z), 2.0 * (x * y - w * z), 2.0 * (x * z + w * y)],
        [2.0 * (x * y + w * z), n - 2.0 * (x * x + z * z), 2.0 * (y * z - w * x)],
        [2.0 * (x * z - w * y), 2.0 * (y * z + w * x), n - 2.0 * (x * x + y * y)],
    ]


def _matmul3(A, B):
    return [[sum(A[i][k] * B[k][j] for k in range(3)) for j in range(3)] for i in range(3)]


@contract("C19", TF + ".quaternion_matrix", name="closed-form")
def quaternion_matrix_closed_form(h):
    """for every quaternion that is not numerically zero: |q|^2 * R = P(q)"""
    q = h.reals("q", 4)
    eps = h.module(TF)._EPS
    n = _qnorm2(q)
    h.assume(n >= eps)
    M = h.fn(TF + ".quaternion_matrix")(q)
    P = _P(q)
    for i in range(3):
        for j in range(3):
            h.check("n*R[%d,%d]=P" % (i, j), h.eq(n * M[i, j], P[i][j]))


@contract("C19", TF + ".quaternion_multiply", name="hamilton-product-and-homomorphism")
def quaternion_multiply(h):
    """value = Hamilton product; with quaternion_matrix/closed-form this gives
    R(q1*q0) = P(q1*q0)/n(q1*q0) = P(q1).P(q0)/(n(q1) n(q0)) = R(q1).R(q0) for all non-zero q"""
    q1 = h.reals("a", 4)
    q0 = h.reals("b", 4)
    q = h.fn(TF + ".quaternion_multiply")(q1, q0)
    w1, x1, y1, z1 = q1[0], q1[1], q1[2], q1[3]
    w0, x0, y0, z0 = q0[0], q0[1], q0[2], q0[3]
    ham = [
        w1 * w0 - x1 * x0 - y1 * y0 - z1 * z0,
        w1 * x0 + x1 * w0 + y1 * z0 - z1 * y0,
        w1 * y0 - x1 * z0 + y1 * w0 + z1 * x0,
        w1 * z0 + x1 * y0 - y1 * x0 + z1 * w0,
    ]
    h.check("hamilton-product", h.eq(q, ham))
    h.check("norm-multiplicative", h.eq(_qnorm2(q), _qnorm2(q1) * _qnorm2(q0)))
    PP = _matmul3(_P(q1), _P(q0))
    Pq = _P(q)
    for i in range(3):
        for j in range(3):
            h.check("P(q1*q0)=P(q1).P(q0)[%d,%d]" % (i, j), h.eq(Pq[i][j], PP[i][j]))


@contract("C19", TF + ".quaternion_inverse", name="inverse-and-conjugate")
def quaternion_inverse(h):
    q = h.reals("q", 4)
    h.assume(_qnorm2(q) > 0)
    qi = h.fn(TF + ".quaternion_inverse")(q)
    qc = h.fn(TF + ".quaternion_conjugate")(q)
    mul = h.fn(TF + ".quaternion_multiply")
    h.check("q*inv(q)=1", h.eq(mul(q, qi), [1.0, 0.0, 0.0, 0.0]))
    h.check("inv(q)*q=1", h.eq(mul(qi, q), [1.0, 0.0, 0.0, 0.0]))
    h.check("conjugate", h.eq(qc, [q[0], -q[1], -q[2], -q[3]]))
    h.check("q*conj(q)=|q|^2", h.eq(mul(q, qc), [_qnorm2(q), 0.0, 0.0, 0.0]))
    h.check("input-not-modified", h.eq(q, h.reals("q", 4)))


@contract("C19", TF + ".quaternion_from_matrix", name="roundtrip-isprecise")
def quaternion_from_matrix(h):
    q = h.reals("q", 4)
    h.assume(h.eq(_qnorm2(q), 1.0))
    M = h.fn(TF + ".quaternion_matrix")(q)
    q2 = h.fn(TF + ".quaternion_from_matrix")(M, True)
    same = h.eq(q2, q)
    neg = h.eq(q2, -q)
    h.check("same-up-to-sign", h.any([same, neg]))
    h.check("w>=0", q2[0] >= 0)
    h.check("unit", h.eq(_qnorm2(q2), 1.0))


@contract("C19", TF + ".quaternion_slerp", name="endpoints")
def quaternion_slerp(h):
    q0 = h.reals("a", 4)
    q1 = h.reals("b", 4)
    h.assume(_qnorm2(q0) > 0)
    h.assume(_qnorm2(q1) > 0)
    f = h.fn(TF + ".quaternion_slerp")
    unit = h.fn(TF + ".unit_vector")
    r0 = f(q0, q1, 0.0)
    r1 = f(q0, q1, 1.0)
    h.check("fraction-0", h.eq(r0, unit(q0)))
    h.check("fraction-1", h.eq(r1, unit(q1)))
    h.check("unit-0", h.eq(_qnorm2(r0), 1.0))


# ----------------------------------------------------------------------------- euler


def _euler_inputs(h):
    # angles are parametrised by their halves so that quaternion_from_euler's a/2 and
    # euler_matrix's a share one trigonometric base (double-angle link)
    hi, hj, hk = h.real("hi"), h.real("hj"), h.real("hk")
    return 2.0 * hi, 2.0 * hj, 2.0 * hk


for _axes in AXES:

    def _mk(axes):
        @contract("C19", TF + ".euler_matrix", name="rotation[%s]" % axes)
        def euler_matrix(h):
            ai, aj, ak = h.real("ai"), h.real("aj"), h.real("ak")
            M = h.fn(TF + ".euler_matrix")(ai, aj, ak, axes)
            _rot_clauses(h, M)
            h.check("no-translation", h.eq(M[:3, 3], [0.0, 0.0, 0.0]))

        @contract("C19", TF + ".euler_from_matrix", name="roundtrip[%s]" % axes, timeout=90000, budget=600)
        def euler_roundtrip(h):
            ai, aj, ak = h.real("ai"), h.real("aj"), h.real("ak")
            tf = h.module(TF)
            eps = tf._EPS
            _, _, repetition, _ = tf._AXES2TUPLE[axes]
            # numerical band excluded (declared slack): |sin aj| resp. |cos aj| in (0, _EPS]
            t = h.np.sin(aj) if repetition else h.np.cos(aj)
            h.assume(h.any([h.abs(t) > eps, t == 0]))
            R0 = h.fn(TF + ".euler_matrix")(ai, aj, ak, axes)
            # lemma (polynomial identity): the quantity euler_from_matrix takes the root of
            firstaxis, parity, _, _ = tf._AXES2TUPLE[axes]
            i = firstaxis
            j = tf._NEXT_AXIS[i + parity]
            k = tf._NEXT_AXIS[i - parity + 1]
            if repetition:
                h.check("lemma:sy^2=sin^2", h.eq(R0[i, j] * R0[i, j] + R0[i, k] * R0[i, k], t * t), lemma=True)
            else:
                h.check("lemma:cy^2=cos^2", h.eq(R0[i, i] * R0[i, i] + R0[j, i] * R0[j, i], t * t), lemma=True)
            bi, bj, bk = h.fn(TF + ".euler_from_matrix")(R0, axes)
            R1 = h.fn(TF + ".euler_matrix")(bi, bj, bk, axes)
            h.check("same-matrix", h.eq(R1, R0))

        @contract("C19", TF + ".quaternion_from_euler", name="matches-euler_matrix[%s]" % axes)
        def quaternion_from_euler(h):
            ai, aj, ak = _euler_inputs(h)
            q = h.fn(TF + ".quaternion_from_euler")(ai, aj, ak, axes)
            h.check("unit", h.eq(_qnorm2(q), 1.0))
            Mq = h.fn(TF + ".quaternion_matrix")(q)
            Me = h.fn(TF + ".euler_matrix")(ai, aj, ak, axes)
            h.check("same-rotation", h.eq(Mq, Me))

    _mk(_axes)


# ----------------------------------------------------------------------------- compose / decompose


@contract("C19", TF + ".compose_matrix", name="factors")
def compose_matrix(h):
    s = h.reals("s", 3)
    sh = h.reals("sh", 3)
    an = h.reals("an", 3)
    t = h.reals("t", 3)
    M = h.fn(TF + ".compose_matrix")(scale=s, shear=sh, angles=an, translate=t)
    R = h.fn(TF + ".euler_matrix")(an[0], an[1], an[2], "sxyz")
    Z = [[1.0, sh[0], sh[1]], [0.0, 1.0, sh[2]], [0.0, 0.0, 1.0]]
    S = [[s[0], 0.0, 0.0], [0.0, s[1], 0.0], [0.0, 0.0, s[2]]]
    np = h.np
    L = np.dot(np.dot(R[:3, :3], np.asarray(Z)), np.asarray(S)) if h.mode == "concrete" else R[:3, :3].dot(np.array(Z)).dot(np.array(S))
    h.check("linear=R.Z.S", h.eq(M[:3, :3], L))
    h.check("translation", h.eq(M[:3, 3], t))
    h.check("last-row", h.eq(M[3, :], [0.0, 0.0, 0.0, 1.0]))


# (a symbolic decompose_matrix(compose_matrix(...)) round trip was registered for the thorough
# tier: its exploration - sqrt normalisations, Gram-Schmidt divisions, three inverse
# trigonometric branches - did not finish within 25 minutes (3 hours in one run) and it was
# removed rather than left without a verdict; the bounded run below covers it instead)


@bounded("C19", name="real-code:compose-decompose-round-trip", note="seeded scale / shear / Euler angles / translation factor sets incl. negative scales, zero shear, angles at and near the gimbal lock: decompose_matrix then compose_matrix rebuilds the matrix; translation and perspective returned as given")
def compose_decompose(tier, seed):
    import trimesh.transformations as tf

    rng = rnp.random.default_rng(seed + 19)
    n = 300 if tier == "quick" else 5000
    cells = {}

    def fail(key, detail=""):
        c = cells.setdefault(key, {"what": key, "cell": key, "detail": str(detail)[:300], "count": 0})
        c["count"] += 1

    cases = 0
    for k in range(n):
        kind = k % 6
        s = rng.uniform(0.2, 3.0, size=3) * (rng.choice([-1.0, 1.0], size=3) if kind == 1 else 1.0)
        sh = rng.uniform(-1.0, 1.0, size=3) if kind != 2 else rnp.zeros(3)
        an = rng.uniform(-math.pi, math.pi, size=3)
        if kind == 3:
            an[1] = rng.choice([-1.0, 1.0]) * math.pi / 2
        if kind == 4:
            an[1] = rng.choice([-1.0, 1.0]) * (math.pi / 2 - 10.0 ** rng.uniform(-9, -3))
        t = rng.uniform(-100.0, 100.0, size=3) if kind != 5 else rnp.zeros(3)
        cases += 1
        try:
            M = tf.compose_matrix(scale=s, shear=sh, angles=an, translate=t)
            s2, sh2, an2, t2, p2 = tf.decompose_matrix(M)
            M2 = tf.compose_matrix(scale=s2, shear=sh2, angles=an2, translate=t2, perspective=p2)
            tolm = 1e-8 * max(1.0, float(rnp.abs(M).max()))
            if not rnp.allclose(M2, M, atol=tolm):
                fail("recomposed-matrix-differs[kind %d]" % kind, "max |d| %.3g for scale %s shear %s angles %s" % (float(rnp.abs(M2 - M).max()), s.tolist(), sh.tolist(), an.tolist()))
            if not rnp.allclose(t2, t, atol=1e-9 * max(1.0, float(rnp.abs(t).max()))):
                fail("translation-not-returned[kind %d]" % kind)
            if not rnp.allclose(p2, [0, 0, 0, 1], atol=1e-9):
                fail("perspective-not-trivial[kind %d]" % kind)
        except Exception as ex:  # noqa: BLE001
            fail("raised %s[kind %d]" % (type(ex).__name__, kind), ex)
    fails = sorted(cells.values(), key=lambda c: c["cell"])
    from contracts import common

    r = common.result(cases, cases, fails, "%d seeded factor sets in 6 kinds (generic, negative scales, no shear, gimbal lock, near lock, no translation)" % n, exhaustive=False)
    r["failures"] = fails
    return r


# ----------------------------------------------------------------------------- points / planar


@contract("C19", TF + ".transform_points", name="homogeneous-3D", kind="bounded-shape", note="n=2 rows, all real values (M3)")
def transform_points_3d(h):
    P = h.reals("P", (2, 3))
    M = h.reals("M", (4, 4))
    out = h.fn(TF + ".transform_points")(P, M)
    np = h.np
    dev = np.abs(M - np.eye(4)).max()
    for i in range(2):
        want = M[:3, :3].dot(P[i]) + M[:3, 3]
        # identity shortcut: max|M-I| < 1e-8 returns the points unchanged
        h.check("row%d" % i, h.any([h.eq(out[i], want), h.all([dev < 1e-8, h.eq(out[i], P[i])])]))
    h.check("exact-off-shortcut", h.implies(dev >= 1e-8, h.all([h.eq(out[i], M[:3, :3].dot(P[i]) + M[:3, 3]) for i in range(2)])))


@contract("C19", TF + ".transform_points", name="homogeneous-2D", kind="bounded-shape", note="n=2 rows, all real values (M3)")
def transform_points_2d(h):
    P = h.reals("P", (2, 2))
    M = h.reals("M", (3, 3))
    out = h.fn(TF + ".transform_points")(P, M)
    np = h.np
    dev = np.abs(M - np.eye(3)).max()
    h.check("exact-off-shortcut", h.implies(dev >= 1e-8, h.all([h.eq(out[i], M[:2, :2].dot(P[i]) + M[:2, 2]) for i in range(2)])))
    h.check("shortcut-returns-input", h.implies(dev < 1e-8, h.eq(out, P)))


@contract("C19", TF + ".transform_points", name="no-translate", kind="bounded-shape", note="n=2 rows, all real values (M3)")
def transform_points_notranslate(h):
    P = h.reals("P", (2, 3))
    M = h.reals("M", (4, 4))
    out = h.fn(TF + ".transform_points")(P, M, translate=False)
    np = h.np
    dev = np.abs(M - np.eye(4)).max()
    h.check("exact-off-shortcut", h.implies(dev >= 1e-8, h.all([h.eq(out[i], M[:3, :3].dot(P[i])) for i in range(2)])))


@contract("C19", TF + ".planar_matrix", name="rotation+offset")
def planar_matrix(h):
    th = h.real("theta")
    off = h.reals("off", 2)
    T = h.fn(TF + ".planar_matrix")(offset=off, theta=th)
    c, s = h.np.cos(th), h.np.sin(th)
    h.check("matrix", h.eq(T, [[c, s, off[0]], [-s, c, off[1]], [0.0, 0.0, 1.0]]))
    R = T[:2, :2]
    h.check("orthonormal", h.eq(R.T.dot(R), _I(h, 2)))
    h.check("det=+1", h.eq(R[0, 0] * R[1, 1] - R[0, 1] * R[1, 0], 1.0))


@contract("C19", TF + ".planar_matrix", name="scale-applied-after-rotation-and-offset")
def planar_matrix_scale(h):
    th = h.real("theta")
    off = h.reals("off", 2)
    sc = h.real("scale")
    T = h.fn(TF + ".planar_matrix")(offset=off, theta=th, scale=sc)
    c, s = h.np.cos(th), h.np.sin(th)
    h.check("matrix=S.T", h.eq(T, [[sc * c, sc * s, sc * off[0]], [-sc * s, sc * c, sc * off[1]], [0.0, 0.0, 1.0]]))


@contract("C19", TF + ".planar_matrix", name="about-point")
def planar_matrix_point(h):
    th = h.real("theta")
    p = h.reals("p", 2)
    T = h.fn(TF + ".planar_matrix")(theta=th, point=p)
    h.check("fixes-point", h.eq(T[:2, :2].dot(p) + T[:2, 2], p))


@contract("C19", TF + ".planar_matrix_to_3D", name="embedding")
def planar_matrix_to_3d(h):
    M = h.reals("M", (3, 3))
    R = h.fn(TF + ".planar_matrix_to_3D")(M)
    want = [[M[0, 0], M[0, 1], 0.0, M[0, 2]], [M[1, 0], M[1, 1], 0.0, M[1, 2]], [0.0, 0.0, 1.0, 0.0], [0.0, 0.0, 0.0, 1.0]]
    h.check("embedding", h.eq(R, want))


@contract("C19", TF + ".scale_and_translate", name="matrix")
def scale_and_translate(h):
    s = h.reals("s", 3)
    t = h.reals("t", 3)
    M = h.fn(TF + ".scale_and_translate")(scale=s, translate=t)
    want = [[s[0], 0.0, 0.0, t[0]], [0.0, s[1], 0.0, t[1]], [0.0, 0.0, s[2], t[2]], [0.0, 0.0, 0.0, 1.0]]
    h.check("matrix", h.eq(M, want))


@contract("C19", TF + ".scale_and_translate", name="scalar-scale")
def scale_and_translate_scalar(h):
    s = h.real("s")
    t = h.reals("t", 3)
    M = h.fn(TF + ".scale_and_translate")(scale=s, translate=t)
    want = [[s, 0.0, 0.0, t[0]], [0.0, s, 0.0, t[1]], [0.0, 0.0, s, t[2]], [0.0, 0.0, 0.0, 1.0]]
    h.check("matrix", h.eq(M, want))


@contract("C19", TF + ".is_rigid", name="criterion")
def is_rigid(h):
    M = h.reals("M", (4, 4))
    r = h.fn(TF + ".is_rigid")(M)
    R = M[:3, :3]
    # an exactly rigid matrix is always accepted
    exact = h.all([h.eq(R.dot(R.T), _I(h, 3)), h.eq(M[3, :], [0.0, 0.0, 0.0, 1.0])])
    h.check("exactly-rigid-accepted", h.implies(exact, r))
    # an accepted matrix is orthonormal to within epsilon (entries of R.R^T - I span < 1e-8)
    G = R.dot(R.T)
    h.check("accepted-is-near-orthonormal", h.implies(r, h.all([h.abs(G[0, 0] - G[1, 1]) < 1e-8, h.abs(G[0, 1] - (G[2, 2] - 1.0)) < 1e-8])))


@contract("C19", TF + ".translation_matrix", name="matrix")
def translation_matrix(h):
    t = h.reals("t", 3)
    M = h.fn(TF + ".translation_matrix")(t)
    want = [[1.0, 0.0, 0.0, t[0]], [0.0, 1.0, 0.0, t[1]], [0.0, 0.0, 1.0, t[2]], [0.0, 0.0, 0.0, 1.0]]
    h.check("matrix", h.eq(M, want))
    h.check("from-matrix", h.eq(h.fn(TF + ".translation_from_matrix")(M), t))


@contract("C19", TF + ".reflection_matrix", name="involution")
def reflection_matrix(h):
    p = h.reals("p", 3)
    n = h.reals("n", 3)
    h.assume(n[0] * n[0] + n[1] * n[1] + n[2] * n[2] > 0)
    M = h.fn(TF + ".reflection_matrix")(p, n)
    h.check("involution", h.eq(M.dot(M), _I(h, 4)))
    h.check("fixes-plane-point", h.eq(M[:3, :3].dot(p) + M[:3, 3], p))
    h.check("det=-1", h.eq(_det3(M[:3, :3]), -1.0))


@contract("C19", TF + ".inverse_matrix", name="inverse")
def inverse_matrix(h):
    M = h.reals("M", (4, 4))
    h.assume(h.eq(M[3, :], [0.0, 0.0, 0.0, 1.0]))
    h.assume(_det3(M[:3, :3]) != 0)
    X = h.fn(TF + ".inverse_matrix")(M)
    if h.mode == "sym":
        h.check("M.X=I", h.eq(M.dot(X), _I(h, 4)))
    else:
        h.check("M.X=I", h.eq(M @ X, _I(h, 4), atol=1e-6))


@bounded("C19", name="real-code:matrix-quaternion-round-trips-in-floating-point", note="rotations by angles at and within 1e-12..1e-3 of 0, pi/2 and pi about seeded axes, built with rotation_matrix (so they carry round-off): quaternion_from_matrix (both isprecise settings) returns a unit quaternion whose matrix is the input; euler_from_matrix / euler_matrix for all 24 conventions likewise")
def float_round_trips(tier, seed):
    import trimesh.transformations as tf

    rng = rnp.random.default_rng(seed + 191)
    cells = {}
    cases = 0

    def fail(key, detail=""):
        c = cells.setdefault(key, {"what": key, "cell": key, "detail": str(detail)[:300], "count": 0})
        c["count"] += 1

    n_axes = 12 if tier == "quick" else 120
    axes_ = [rnp.array(a, dtype=float) for a in ([1, 0, 0], [0, 1, 0], [0, 0, 1], [1, 1, 0], [1, 1, 1])] + [rng.normal(size=3) for _ in range(n_axes)]
    deltas = [0.0, 1e-12, 1e-9, 1e-7, 1e-5, 1e-3]
    for base in (0.0, math.pi / 2, math.pi):
        for d in deltas:
            for sgn in (1.0, -1.0):
                for ax in axes_:
                    ang = base + sgn * d
                    M = tf.rotation_matrix(ang, ax)
                    for precise in (True, False):
                        cases += 1
                        try:
                            q = tf.quaternion_from_matrix(M, isprecise=precise)
                            nrm = float(rnp.dot(q, q))
                            if not rnp.isfinite(q).all() or abs(nrm - 1.0) > 1e-9:
                                fail("quaternion_from_matrix[isprecise=%s]:not-a-unit-quaternion" % precise, "angle %r axis %s: |q|^2 = %r" % (ang, ax.tolist(), nrm))
                                continue
                            M2 = tf.quaternion_matrix(q)
                            if float(rnp.abs(M2 - M).max()) > 1e-7:
                                fail("quaternion_from_matrix[isprecise=%s]:matrix-not-recovered" % precise, "angle %r axis %s: max |d| %.3g" % (ang, ax.tolist(), float(rnp.abs(M2 - M).max())))
                        except Exception as ex:  # noqa: BLE001
                            fail("quaternion_from_matrix[isprecise=%s]:raised %s" % (precise, type(ex).__name__), ex)
                    if d in (0.0, 1e-9, 1e-5):
                        for conv in tf._AXES2TUPLE:
                            cases += 1
                            try:
                                e = tf.euler_from_matrix(M, conv)
                                M3 = tf.euler_matrix(*e, axes=conv)
                                if float(rnp.abs(M3 - M).max()) > 1e-6:
                                    fail("euler_from_matrix[%s]:matrix-not-recovered" % conv, "angle %r axis %s: max |d| %.3g" % (ang, ax.tolist(), float(rnp.abs(M3 - M).max())))
                            except Exception as ex:  # noqa: BLE001
                                fail("euler_from_matrix[%s]:raised %s" % (conv, type(ex).__name__), ex)
    fails = sorted(cells.values(), key=lambda c: c["cell"])
    from contracts import common

    r = common.result(cases, cases, fails, "3 base angles x 6 offsets x 2 signs x %d axes x (2 quaternion settings + 24 Euler conventions at 3 offsets)" % len(axes_), exhaustive=False)
    r["failures"] = fails
    return r
