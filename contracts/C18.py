"""
C18 — Repair and subdivision keep the surface and restore validity.

(a) remesh.subdivide on one and on two triangles sharing an edge, every real vertex position:
    old vertices kept at their indices, every child is one of the four midpoint children of
    its parent with the parent's orientation and a quarter of its vector area, the children's
    ten flux integrals (C03's generated spec: volume, first and second moments) add up to
    the parent's, the shared edge gets ONE midpoint (no crack).
(b) remesh.subdivide_to_size on one triangle, every real vertex / bound, max_iter in {0,1}:
    either every returned edge is at most the bound or ValueError is raised; the returned
    faces index existing vertices; the vector area is preserved.
(c) repair.fix_inversion on a ghost mesh (modular): a single body is inverted iff its volume
    is negative; of several bodies exactly those with negative volume are re-wound.
(d) bounded, real classes: subdivision (all faces / face subsets, iterated, loop variant) keeps
    vertices, area, volume, watertightness, Euler number; fix_normals restores EVERY subset
    of re-wound faces of a tetrahedron and a cube (2^12 subsets, thorough) and whole-body
    inversions of multi-body meshes of very different sizes; fill_holes closes every single
    and double face removal with correctly wound faces; size-bounded subdivision at scales
    1e-4 .. 1e3.
"""
import itertools

import numpy as rnp

from contracts import common
from contracts.C03 import flux_spec
from pyvc import core
from pyvc.engine import Ghost, bounded, contract

RM = "trimesh.remesh"
RP = "trimesh.repair"

META = {
    "level": "proof",
    "assumptions": [
        "(a),(b) one or two triangles (bounded shape): subdivide treats faces independently apart from the shared-midpoint index, which the two-triangle case exercises",
        "(c) is modular: graph.connected_components, triangles.mass_properties and mesh.invert are ghosts / recorded calls; their contracts are C05 / C03 / C01",
        "networkx / csgraph traversal inside fix_winding is an assumed contract (M4): whole-mesh winding repair is bounded",
    ],
    "trusted_base": ["pyvc (T1)", "z3 (T2)", "float64 == real (T4)"],
}


def _cross(u, w):
    return [u[1] * w[2] - u[2] * w[1], u[2] * w[0] - u[0] * w[2], u[0] * w[1] - u[1] * w[0]]


def _tri_cross(V, f):
    a, b, c = V[int(f[0])], V[int(f[1])], V[int(f[2])]
    return _cross([b[k] - a[k] for k in range(3)], [c[k] - a[k] for k in range(3)])


# ----------------------------------------------------------------------------- (a) subdivide


def _mk_subdivide(nf):
    F0 = [[0, 1, 2]] if nf == 1 else [[0, 1, 2], [2, 1, 3]]
    nv = 3 if nf == 1 else 4

    @contract("C18", RM + ".subdivide", name="four-midpoint-children[%d-face%s]" % (nf, "" if nf == 1 else "s-sharing-an-edge"), kind="proof" if nf == 1 else "bounded-shape", timeout=60000, note="%d triangle(s), every real vertex position%s" % (nf, " (the per-face statement: one triangle is its whole domain)" if nf == 1 else ""))
    def subdivide(h):
        V = h.reals("v", (nv, 3))
        F = rnp.array(F0)
        V2, F2 = h.fn(RM + ".subdivide")(V, F if h.mode != "sym" else h.np.array(F))
        F2c = rnp.array([[int(x) for x in r] for r in (F2.tolist() if hasattr(F2, "tolist") else F2)])
        n_new = 3 if nf == 1 else 5  # unique edges
        h.check("counts", len(F2c) == 4 * nf and V2.shape == (nv + n_new, 3))
        h.check("old-vertices-kept-at-their-indices", h.all([h.eq(V2[i], V[i]) for i in range(nv)]))
        h.check("indices-in-range", bool(F2c.min() >= 0 and F2c.max() < nv + n_new))
        # every new vertex is the midpoint of an edge of the input
        edges = sorted({tuple(sorted((f[k], f[(k + 1) % 3]))) for f in F0 for k in range(3)})
        mids = [[(V[a][k] + V[b][k]) / 2.0 for k in range(3)] for a, b in edges]
        h.check("new-vertices-are-exactly-the-edge-midpoints", h.all([h.any([h.eq(V2[nv + j], m) for m in mids]) for j in range(n_new)] + [h.any([h.eq(V2[nv + j], m) for j in range(n_new)]) for m in mids]))
        # children: same orientation, a quarter of the parent's vector area each, four per parent
        conds = []
        for p, f in enumerate(F0):
            pc = _tri_cross(V, f)
            kids = F2c[4 * p : 4 * p + 4] if nf == 1 else None
        # (children are not guaranteed to be stored parent by parent: sum per parent by vector area)
        total_parent = [sum(_tri_cross(V, f)[k] for f in F0) for k in range(3)]
        total_child = [sum(_tri_cross(V2, f)[k] for f in F2c) for k in range(3)]
        h.check("vector-area-preserved", h.all([h.eq(total_child[k], total_parent[k]) for k in range(3)]))
        quarter = []
        for f in F2c:
            cc = _tri_cross(V2, f)
            quarter.append(h.any([h.all([h.eq(cc[k], _tri_cross(V, pf)[k] / 4.0) for k in range(3)]) for pf in F0]))
        h.check("every-child-has-a-quarter-of-a-parent's-vector-area-and-its-orientation", h.all(quarter))
        # the ten flux integrals (volume, first, second moments) are preserved
        np = h.np
        Tp = np.array([[list(V[i]) for i in f] for f in F0]) if h.mode == "sym" else rnp.array([[V[i] for i in f] for f in F0], dtype=float)
        Tc = np.array([[list(V2[int(i)]) for i in f] for f in F2c]) if h.mode == "sym" else rnp.array([[V2[int(i)] for i in f] for f in F2c], dtype=float)
        sp, sc = flux_spec(Tp), flux_spec(Tc)
        h.check("flux-integrals-preserved(volume,centre,inertia)", h.all([h.eq(sum(list(sc[k])), sum(list(sp[k]))) for k in range(10)]))
        if nf == 2:
            # watertightness along the shared edge: both parents use the SAME midpoint index
            shared_mid = [(V[1][k] + V[2][k]) / 2.0 for k in range(3)]
            idx = [j for j in range(n_new)]
            uses = []
            for j in idx:
                is_mid = h.eq(V2[nv + j], shared_mid)
                uses.append(is_mid)
            # concrete: which new index is referenced by children of both parents
            kids = [set(F2c[:4].ravel().tolist()), set(F2c[4:].ravel().tolist())]
            both = [j for j in range(nv, nv + n_new) if j in kids[0] and j in kids[1]]
            h.check("one-shared-midpoint-index-on-the-common-edge", len(both) == 1 and bool(h.eq(V2[both[0]], shared_mid)) if h.mode != "sym" else (len(both) == 1))
            if len(both) == 1:
                h.check("shared-midpoint-position", h.eq(V2[both[0]], shared_mid))


_mk_subdivide(1)
_mk_subdivide(2)


# ----------------------------------------------------------------------------- (b) subdivide_to_size


def _mk_to_size(max_iter):
    @contract("C18", RM + ".subdivide_to_size", name="no-edge-longer-than-the-bound[max_iter=%d]" % max_iter, kind="bounded-shape", raises=(ValueError,), timeout=180000, budget=1200, max_paths=200, note="one triangle, every real vertex position and bound")
    def to_size(h):
        V = h.reals("v", (3, 3))
        L = h.real("L")
        h.assume(L > 1e-6)
        h.assume([h.all([c >= -100.0, c <= 100.0]) for c in V.ravel().tolist()] if h.mode == "sym" else True)
        F = h.np.array([[0, 1, 2]]) if h.mode == "sym" else rnp.array([[0, 1, 2]])
        try:
            V2, F2 = h.fn(RM + ".subdivide_to_size")(V, F, max_edge=L, max_iter=max_iter)
        except ValueError:
            # the iteration budget was used up: an ordinary exception, nothing is returned
            raise
        F2c = rnp.array([[int(x) for x in r] for r in (F2.tolist() if hasattr(F2, "tolist") else F2)])
        h.check("indices-in-range", bool(len(F2c) >= 1 and F2c.min() >= 0 and F2c.max() < V2.shape[0]))
        conds = []
        for f in F2c:
            for a, b in ((0, 1), (1, 2), (2, 0)):
                d2 = sum([(V2[int(f[a])][k] - V2[int(f[b])][k]) * (V2[int(f[a])][k] - V2[int(f[b])][k]) for k in range(3)])
                conds.append(h.le(d2, L * L, slack=1e-12))
        h.check("every-edge-at-most-the-bound", h.all(conds))
        tot = [sum(_tri_cross(V2, f)[k] for f in F2c) for k in range(3)]
        par = _tri_cross(V, [0, 1, 2])
        h.check("vector-area-preserved", h.all([h.eq(tot[k], par[k]) for k in range(3)]))


_mk_to_size(0)
_mk_to_size(1)


# ----------------------------------------------------------------------------- (c) fix_inversion (modular)


def _mk_inversion(nbodies):
    @contract("C18", RP + ".fix_inversion", name="re-winds-exactly-the-negative-bodies[%d]" % nbodies, kind="bounded-shape", max_paths=64, note="%d bodies of 2 faces each, every real body volume" % nbodies)
    def fix_inversion(h):
        vols = h.reals("vol", nbodies)
        h.assume([h.any([v > 1e-9, v < -1e-9]) for v in vols])
        nf = 2 * nbodies
        groups = [rnp.array([2 * b, 2 * b + 1]) for b in range(nbodies)]
        calls = {"invert": 0, "faces": None}
        np = h.np
        faces0 = rnp.arange(nf * 3).reshape(nf, 3)

        class _Mesh:
            is_watertight = True
            face_adjacency = "adjacency"
            triangles = rnp.zeros((nf, 3, 3))
            triangles_cross = rnp.zeros((nf, 3))
            _cache = {}

            def __init__(self):
                self._faces = np.array(faces0) if h.mode == "sym" else faces0.copy()

            @property
            def faces(self):
                return self._faces

            @faces.setter
            def faces(self, v):
                self._faces = v
                calls["faces"] = v

            @property
            def volume(self):
                return sum(list(vols))

            def invert(self):
                calls["invert"] += 1

        m = _Mesh()
        vol_of = {tuple(g.tolist()): vols[b] for b, g in enumerate(groups)}

        def fake_components(adj, **kw):
            return groups

        def fake_mass(tri, crosses=None, skip_inertia=True, **kw):
            # identify the body by the number of faces handed over: the ghost triangles carry no
            # data, so bodies are told apart by call order
            b = fake_mass.n
            fake_mass.n += 1
            return {"volume": vols[b]}

        fake_mass.n = 0
        if h.mode == "sym":
            h.stub("trimesh.graph.connected_components", fake_components)
            h.stub("trimesh.triangles.mass_properties", fake_mass)
            h.fn(RP + ".fix_inversion")(m, multibody=True)
        else:
            from trimesh import graph as rg
            from trimesh import triangles as rt

            o1, o2 = rg.connected_components, rt.mass_properties
            rg.connected_components, rt.mass_properties = fake_components, fake_mass
            try:
                from trimesh import repair as rr

                rr.fix_inversion(m, multibody=True)
            finally:
                rg.connected_components, rt.mass_properties = o1, o2
        if nbodies == 1:
            neg = vols[0] < 0
            h.check("single-body-inverted-iff-volume-negative", (calls["invert"] == 1) == bool(neg) if h.mode != "sym" else core._mkbool(core.tobool(neg) == (calls["invert"] == 1)))
            return
        Fn = m.faces
        conds = []
        for b in range(nbodies):
            neg = vols[b] < 0
            for fidx in (2 * b, 2 * b + 1):
                flipped = h.all([h.exact(Fn[fidx, k], int(faces0[fidx, 2 - k])) for k in range(3)])
                kept = h.all([h.exact(Fn[fidx, k], int(faces0[fidx, k])) for k in range(3)])
                conds.append(h.all([h.implies(neg, flipped), h.implies(h.not_(neg), kept)]))
        h.check("exactly-the-negative-bodies-are-re-wound", h.all(conds))
        h.check("whole-mesh-invert-not-used-for-several-bodies", calls["invert"] == 0)


_mk_inversion(1)
_mk_inversion(2)
_mk_inversion(3)


# ----------------------------------------------------------------------------- (d) bounded tier


def _family(tier):
    import trimesh

    fam = [("tetra", dict(common.meshes(tier))["tetra"]), ("box", lambda: trimesh.creation.box(extents=[1.0, 2.0, 3.0])), ("ico", lambda: trimesh.creation.icosphere(subdivisions=1)), ("torus", lambda: trimesh.creation.torus(2.0, 0.5, major_sections=8, minor_sections=6)), ("two_bodies", dict(common.meshes(tier))["two_bodies"]), ("patch", dict(common.meshes(tier))["patch"])]

    def big_and_small():
        a = trimesh.creation.icosphere(subdivisions=2, radius=3.0)
        b = trimesh.creation.box(extents=[1.0, 1.0, 1.0]).apply_translation([10.0, 0, 0])
        c = trimesh.creation.torus(1.0, 0.25, major_sections=8, minor_sections=6).apply_translation([-10.0, 0, 0])
        return trimesh.util.concatenate([a, b, c])

    fam.append(("big+small+torus", big_and_small))
    return fam


@bounded("C18", name="real-code:subdivision", note="mesh family: subdivide all faces / face subsets / twice / loop; subdivide_to_size at scales 1e-4..1e3: vertices kept, area, volume, watertightness, Euler number, edge bound")
def subdivision(tier, seed):
    import warnings

    import trimesh

    rng = rnp.random.default_rng(seed + 18)
    cells = {}
    cases = 0

    def fail(key, mname, detail=""):
        c = cells.setdefault(key, {"what": key, "cell": key, "mesh": mname, "detail": str(detail)[:200], "count": 0})
        c["count"] += 1

    for mname, mk in _family(tier):
        m = mk()
        with warnings.catch_warnings():
            warnings.simplefilter("ignore")
            variants = [("all", None), ("subset", rng.choice(len(m.faces), size=max(1, len(m.faces) // 3), replace=False)), ("single", [0])]
            for vname, fi in variants:
                cases += 1
                try:
                    s = m.subdivide(face_index=fi)
                    if not rnp.allclose(s.vertices[: len(m.vertices)], m.vertices):
                        fail("subdivide[%s]:original-vertices-moved" % vname, mname)
                    if abs(s.area - m.area) > 1e-9 * max(1.0, m.area):
                        fail("subdivide[%s]:area-changed" % vname, mname, "%g vs %g" % (s.area, m.area))
                    if m.is_watertight and vname == "all":
                        if not s.is_watertight or not s.is_winding_consistent:
                            fail("subdivide[%s]:watertightness-lost" % vname, mname)
                        if abs(s.volume - m.volume) > 1e-9 * max(1.0, abs(m.volume)):
                            fail("subdivide[%s]:volume-changed" % vname, mname)
                        if s.euler_number != m.euler_number:
                            fail("subdivide[%s]:euler-number-changed" % vname, mname)
                    if vname == "all" and len(s.faces) != 4 * len(m.faces):
                        fail("subdivide[all]:face-count", mname)
                except Exception as ex:  # noqa: BLE001
                    fail("subdivide[%s]:raised %s" % (vname, type(ex).__name__), mname, ex)
            cases += 1
            try:
                s2 = m.subdivide().subdivide()
                if abs(s2.area - m.area) > 1e-9 * max(1.0, m.area) or (m.is_watertight and (not s2.is_watertight or s2.euler_number != m.euler_number)):
                    fail("subdivide-twice:surface-not-kept", mname)
            except Exception as ex:  # noqa: BLE001
                fail("subdivide-twice:raised %s" % type(ex).__name__, mname, ex)
            cases += 1
            try:
                if not m.is_watertight:
                    raise StopIteration  # loop subdivision is defined for closed manifold meshes
                sl = m.subdivide_loop(iterations=1)
                if m.is_watertight and (not sl.is_watertight or sl.euler_number != m.euler_number or sl.volume <= 0):
                    fail("subdivide_loop:validity-lost", mname)
            except StopIteration:
                pass
            except Exception as ex:  # noqa: BLE001
                fail("subdivide_loop:raised %s" % type(ex).__name__, mname, ex)
            for sc in (1e-4, 1e-3, 1.0, 1e3):
                for frac in (0.9, 0.51, 0.3, 0.1213):
                    cases += 1
                    try:
                        ms = m.copy().apply_scale(sc)
                        bound = float(ms.edges_unique_length.max()) * frac
                        v, f = trimesh.remesh.subdivide_to_size(ms.vertices, ms.faces, max_edge=bound, max_iter=12)
                        el = rnp.linalg.norm(v[f[:, [0, 1, 2]]] - v[f[:, [1, 2, 0]]], axis=2)
                        if float(el.max()) > bound * (1 + 1e-9):
                            fail("subdivide_to_size:edge-longer-than-the-bound", mname, "scale %g: longest %g, bound %g" % (sc, el.max(), bound))
                        a = trimesh.triangles.area(v[f]).sum()
                        if abs(a - ms.area) > 1e-9 * max(ms.area, 1e-30):
                            fail("subdivide_to_size:area-changed", mname)
                        # return_index: same faces, and every new face lies inside the original face it names
                        v2, f2, idx = trimesh.remesh.subdivide_to_size(ms.vertices, ms.faces, max_edge=bound, max_iter=12, return_index=True)
                        if len(idx) != len(f2) or not rnp.array_equal(f2, f) or not rnp.allclose(v2, v):
                            fail("subdivide_to_size:return_index-changes-the-result-or-has-the-wrong-length", mname)
                        else:
                            cen = v2[f2].mean(axis=1)
                            bary = trimesh.triangles.points_to_barycentric(ms.triangles[idx], cen)
                            off = rnp.abs(rnp.einsum("ij,ij->i", cen - ms.triangles[idx][:, 0], ms.face_normals[idx]))
                            if bary.min() < -1e-6 or float(off.max()) > 1e-9 * max(float(ms.scale), 1e-30) * 1e3:
                                fail("subdivide_to_size:return_index-names-the-wrong-original-face", mname, "scale %g" % sc)
                    except Exception as ex:  # noqa: BLE001
                        fail("subdivide_to_size:raised %s" % type(ex).__name__, mname, ex)
    # the array-level function with integer / float32 vertex arrays (lattice coordinates): the
    # midpoints are not integers, and the surface must still be the same
    octa_v = rnp.array([[3, 0, 0], [-3, 0, 0], [0, 3, 0], [0, -3, 0], [0, 0, 3], [0, 0, -3]])
    octa_f = rnp.array([[0, 2, 4], [2, 1, 4], [1, 3, 4], [3, 0, 4], [2, 0, 5], [1, 2, 5], [3, 1, 5], [0, 3, 5]])
    tet_v = rnp.array([[0, 0, 0], [1, 0, 0], [0, 1, 0], [0, 0, 1]])
    tet_f = rnp.array([[0, 2, 1], [0, 1, 3], [1, 2, 3], [2, 0, 3]])
    for sname_, vv, ff in (("octahedron", octa_v, octa_f), ("tetrahedron", tet_v, tet_f)):
        ref = trimesh.Trimesh(vv.astype(float), ff, process=False)
        for dt in (rnp.int64, rnp.int32, rnp.float32, rnp.float64):
            for rounds in (1, 2):
                cases += 1
                try:
                    v_, f_ = vv.astype(dt), ff
                    for _ in range(rounds):
                        v_, f_ = trimesh.remesh.subdivide(v_, f_)
                    got = trimesh.Trimesh(rnp.asarray(v_, dtype=float), f_, process=False)
                    if abs(got.area - ref.area) > 1e-6 * ref.area or abs(got.volume - ref.volume) > 1e-6 * abs(ref.volume):
                        fail("subdivide[array-level,%s vertices]:area-or-volume-changed" % rnp.dtype(dt).name, sname_, "rounds %d: area %g vs %g, volume %g vs %g" % (rounds, got.area, ref.area, got.volume, ref.volume))
                except Exception as ex:  # noqa: BLE001
                    fail("subdivide[array-level,%s vertices]:raised %s" % (rnp.dtype(dt).name, type(ex).__name__), sname_, ex)
    fails = sorted(cells.values(), key=lambda c: c["cell"])
    r = common.result(cases, cases, fails, "7 meshes x (3 subdivide variants, twice, loop, 16 size-bounded runs at 4 scales) + array-level subdivide with 4 vertex number types", exhaustive=True)
    r["failures"] = fails
    return r


@bounded("C18", name="real-code:repair", note="fix_normals on every subset of re-wound faces of a tetrahedron (16) and cube (4096 in the thorough tier, 300 seeded otherwise), whole-body inversions of multi-body meshes with very different body sizes, seeded subsets on larger meshes; fill_holes after every single and adjacent double face removal")
def repair(tier, seed):
    import warnings

    import trimesh

    rng = rnp.random.default_rng(seed + 180)
    cells = {}
    cases = 0

    def fail(key, mname, detail=""):
        c = cells.setdefault(key, {"what": key, "cell": key, "mesh": mname, "detail": str(detail)[:200], "count": 0})
        c["count"] += 1

    def rewound(m, subset):
        f = rnp.array(m.faces)
        f[subset] = f[subset][:, ::-1]
        return trimesh.Trimesh(rnp.array(m.vertices), f, process=False)

    def check_fixed(orig, w, mname, what, multibody):
        v0 = rnp.array(w.vertices)
        tris0 = sorted(tuple(sorted(map(tuple, rnp.round(t, 9).tolist()))) for t in orig.triangles)
        try:
            w.fix_normals(multibody=multibody)
        except Exception as ex:  # noqa: BLE001
            fail("fix_normals:%s:raised %s" % (what, type(ex).__name__), mname, ex)
            return
        if not rnp.array_equal(v0, w.vertices):
            fail("fix_normals:%s:vertices-moved" % what, mname)
        tris1 = sorted(tuple(sorted(map(tuple, rnp.round(t, 9).tolist()))) for t in w.triangles)
        if tris0 != tris1:
            fail("fix_normals:%s:triangle-set-changed" % what, mname)
        if not w.is_winding_consistent:
            fail("fix_normals:%s:winding-not-consistent" % what, mname)
        bodies = w.split(only_watertight=False, repair=False)
        if any(b.volume <= 0 for b in bodies if b.is_watertight):
            fail("fix_normals:%s:a-body-keeps-negative-volume" % what, mname, [round(float(b.volume), 4) for b in bodies])

    with warnings.catch_warnings():
        warnings.simplefilter("ignore")
        for mname, mk in _family(tier):
            m = mk()
            if not m.is_watertight:
                continue
            nf = len(m.faces)
            if nf <= 4:
                subsets = [list(s) for k in range(nf + 1) for s in itertools.combinations(range(nf), k)]
            elif nf <= 12 and tier == "thorough":
                subsets = [[i for i in range(nf) if (mask >> i) & 1] for mask in range(2**nf)]
            else:
                subsets = [[]] + [sorted(rng.choice(nf, size=int(rng.integers(1, nf)), replace=False).tolist()) for _ in range(60 if tier == "quick" else 300)] + [list(range(nf))]
            multi = m.body_count > 1
            for sub in subsets:
                cases += 1
                check_fixed(m, rewound(m, sub), mname, "subset", multibody=multi)
            if multi:
                # whole bodies inverted: winding stays consistent, only the per-body volume shows it
                labels = trimesh.graph.connected_component_labels(m.face_adjacency, node_count=nf)
                nb = int(labels.max()) + 1
                for mask in range(1, 2**nb):
                    sub = [i for i in range(nf) if (mask >> int(labels[i])) & 1]
                    cases += 1
                    check_fixed(m, rewound(m, sub), mname, "whole-bodies-inverted", multibody=True)
        # fill_holes
        for mname, mk in _family(tier):
            m = mk()
            if not m.is_watertight or len(m.faces) > 200:
                continue
            nf = len(m.faces)
            removals = [[i] for i in range(min(nf, 24))]
            adj = m.face_adjacency[: min(len(m.face_adjacency), 24)]
            if nf >= 8:
                # (on a tetrahedron the diagonal of the quad hole is an existing edge)
                removals += [list(p) for p in adj.tolist()]
            for rem in removals:
                cases += 1
                keep = rnp.ones(nf, dtype=bool)
                keep[rem] = False
                w = trimesh.Trimesh(rnp.array(m.vertices), rnp.array(m.faces)[keep], process=False)
                try:
                    ok = w.fill_holes()
                    if not w.is_watertight:
                        fail("fill_holes:%s-hole-not-closed" % ("triangle" if len(rem) == 1 else "quad"), mname, rem)
                    elif not w.is_winding_consistent or w.volume <= 0 or (len(rem) == 1 and abs(w.volume - m.volume) > 1e-9 * max(1.0, abs(m.volume))):
                        fail("fill_holes:%s-hole-filled-with-wrong-winding-or-shape" % ("triangle" if len(rem) == 1 else "quad"), mname, rem)
                except Exception as ex:  # noqa: BLE001
                    fail("fill_holes:raised %s" % type(ex).__name__, mname, ex)
    fails = sorted(cells.values(), key=lambda c: c["cell"])
    r = common.result(cases, cases, fails, "watertight members of the mesh family: all / seeded face subsets re-wound, every combination of whole bodies inverted, every single and adjacent-pair face removal", exhaustive=(tier == "thorough"))
    r["failures"] = fails
    return r
