"""
C03 — Mass properties equal the exact integrals over the enclosed solid.

The real triangles.cross / area / mass_properties and inertia.* run on an array of shape
(N, 3, 3) with N *symbolic*: each obligation holds for every triangle count and every real
coordinate.  The spec is generated, not typed in: flux integrals of the ten fields F_k
(div F_k = 1, x, y, z, x^2, y^2, z^2, xy, yz, zx) over a parametrised triangle, by the
Dirichlet simplex formula  ∫∫ u^i v^j = i! j! / (i+j+2)!  (M2).  With the divergence
theorem (M1) the sums of these fluxes over a closed, consistently wound surface are the
integrals over the enclosed solid.
"""
import itertools
from fractions import Fraction
from math import factorial

import numpy as rnp

from pyvc.engine import bounded, contract

TRI = "trimesh.triangles"
INR = "trimesh.inertia"

META = {
    "level": "proof",
    "assumptions": [
        "(M1) divergence theorem links the proved per-triangle flux identities to integrals over the enclosed solid for closed, consistently wound surfaces",
        "(M2) Dirichlet simplex integral generates the per-triangle spec",
        "(T4) float64 treated as exact reals; the |volume| < tol.zero branch is kept exactly as written",
        "Σ over the symbolic triangle axis is opaque: only extensionality (equal summands for the generic row) and scaling by a constant are used",
        "Trimesh.mass_properties / volume / center_mass / moment_inertia delegate to triangles.mass_properties with crosses = triangles.cross(triangles) (call chain checked by the C01 dependency inference, not re-proved here)",
    ],
    "trusted_base": ["pyvc symbolic executor + numpy shim + lambda arrays (T1)", "z3/cvc5 (T2)", "float64 == real (T4)", "M1 divergence theorem", "M2 Dirichlet formula"],
}


def flux_spec(T):
    """ten arrays (N,): ∫_T F_k . n dA for each triangle, generated from M2.
    T is (N,3,3): works on numpy arrays and on symbolic-length arrays alike."""
    a = [T[:, 0, d] for d in range(3)]
    b = [T[:, 1, d] for d in range(3)]
    c = [T[:, 2, d] for d in range(3)]
    e1 = [b[d] - a[d] for d in range(3)]
    e2 = [c[d] - a[d] for d in range(3)]
    # (b-a) x (c-a): twice the area vector, orientation of the winding
    cr = [e1[1] * e2[2] - e1[2] * e2[1], e1[2] * e2[0] - e1[0] * e2[2], e1[0] * e2[1] - e1[1] * e2[0]]
    lin = lambda d: (a[d], e1[d], e2[d])  # x_d(u,v) = a_d + u e1_d + v e2_d

    def flux(factors, comp):
        tot = 0.0
        for ch in itertools.product(range(3), repeat=len(factors)):
            nu, nv = ch.count(1), ch.count(2)
            w = Fraction(factorial(nu) * factorial(nv), factorial(nu + nv + 2))
            term = float(w) if False else w.numerator / w.denominator
            # keep the weight exact: multiply by numerator, divide by denominator
            t = None
            for f, cc in zip(factors, ch):
                t = lin(f)[cc] if t is None else t * lin(f)[cc]
            tot = tot + t * float(w.numerator) / float(w.denominator)
        return cr[comp] * tot

    spec = [flux([0], 0)]
    spec += [flux([d, d], d) / 2.0 for d in range(3)]
    spec += [flux([d, d, d], d) / 3.0 for d in range(3)]
    spec += [flux([d, d, (d + 1) % 3], d) / 2.0 for d in range(3)]
    return spec


def _J(I, V, com):
    """second-moment tensor about the point `com` from raw moments about the origin"""
    cx, cy, cz = com[0], com[1], com[2]
    xx, yy, zz, xy, yz, zx = I[4], I[5], I[6], I[7], I[8], I[9]
    return [
        [yy + zz - V * (cy * cy + cz * cz), -(xy - V * cx * cy), -(zx - V * cx * cz)],
        [-(xy - V * cx * cy), xx + zz - V * (cx * cx + cz * cz), -(yz - V * cy * cz)],
        [-(zx - V * cx * cz), -(yz - V * cy * cz), xx + yy - V * (cx * cx + cy * cy)],
    ]


@contract("C03", TRI + ".cross", name="edge-cross-product")
def cross(h):
    N = h.length("N")
    T = h.lreals("T", N, (3, 3))
    out = h.fn(TRI + ".cross")(T)

    def row(i):
        a, b, c = T[i, 0], T[i, 1], T[i, 2]
        e1, e2 = b - a, c - a
        want = [e1[1] * e2[2] - e1[2] * e2[1], e1[2] * e2[0] - e1[0] * e2[2], e1[0] * e2[1] - e1[1] * e2[0]]
        return h.eq(out[i], want)

    h.check("(b-a)x(c-a)", h.forall(N, row))


@contract("C03", TRI + ".area", name="half-norm-of-cross")
def area(h):
    N = h.length("N")
    T = h.lreals("T", N, (3, 3))
    ar = h.fn(TRI + ".area")(T)
    cr = h.fn(TRI + ".cross")(T)

    def row(i):
        c = cr[i]
        return [ar[i] >= 0, h.eq(4.0 * ar[i] * ar[i], c[0] * c[0] + c[1] * c[1] + c[2] * c[2])]

    h.check("area>=0 and 4*area^2=|cross|^2", h.forall(N, row))


@contract("C03", TRI + ".mass_properties", name="integrals")
def mass_properties(h):
    N = h.length("N")
    T = h.lreals("T", N, (3, 3))
    rho = h.real("rho")
    tol = h.module("trimesh.constants").tol
    mp = h.fn(TRI + ".mass_properties")(T, density=rho)
    I = [s.sum() for s in flux_spec(T)]
    V = I[0]
    h.check("volume=∫1", h.eq(mp.volume, V))
    h.check("mass=density*volume", h.eq(mp.mass, rho * V))
    h.check("density", h.eq(mp.density, rho))
    small = h.abs(V) < tol.zero
    com = mp.center_mass
    h.check("center_mass=∫x/∫1", h.implies(h.not_(small), h.all([h.eq(com[d] * V, I[1 + d]) for d in range(3)])))
    h.check("center_mass=0 when volume~0", h.implies(small, h.eq(com, [0.0, 0.0, 0.0])))
    J = _J(I, V, com)
    h.check("inertia=density*J(moments, center_mass)", h.eq(mp.inertia, [[rho * J[r][c] for c in range(3)] for r in range(3)]))
    h.check("inertia-symmetric", h.all([h.eq(mp.inertia[r][c], mp.inertia[c][r]) for r in range(3) for c in range(r)]))


@contract("C03", TRI + ".mass_properties", name="center-mass-override")
def mass_properties_override(h):
    N = h.length("N")
    T = h.lreals("T", N, (3, 3))
    rho = h.real("rho")
    c0 = h.reals("c", 3)
    mp = h.fn(TRI + ".mass_properties")(T, density=rho, center_mass=c0)
    I = [s.sum() for s in flux_spec(T)]
    V = I[0]
    h.check("override-honoured", h.eq(mp.center_mass, c0))
    h.check("volume=∫1", h.eq(mp.volume, V))
    J = _J(I, V, c0)
    h.check("inertia-about-override", h.eq(mp.inertia, [[rho * J[r][c] for c in range(3)] for r in range(3)]))


@contract("C03", TRI + ".mass_properties", name="given-crosses")
def mass_properties_crosses(h):
    """call-site form used by Trimesh.mass_properties: crosses = cross(triangles)"""
    N = h.length("N")
    T = h.lreals("T", N, (3, 3))
    cr = h.fn(TRI + ".cross")(T)
    mp = h.fn(TRI + ".mass_properties")(T, crosses=cr, skip_inertia=True)
    I = [s.sum() for s in flux_spec(T)]
    h.check("volume=∫1", h.eq(mp.volume, I[0]))
    h.check("mass", h.eq(mp.mass, I[0]))


@contract("C03", TRI + ".mass_properties", name="density-linear")
def mass_properties_density(h):
    N = h.length("N")
    T = h.lreals("T", N, (3, 3))
    rho = h.real("rho")
    f = h.fn(TRI + ".mass_properties")
    a = f(T, density=rho)
    b = f(T, density=1.0)
    h.check("mass-linear", h.eq(a.mass, rho * b.mass))
    h.check("inertia-linear", h.eq(a.inertia, [[rho * b.inertia[r][c] for c in range(3)] for r in range(3)]))
    h.check("volume-unchanged", h.eq(a.volume, b.volume))
    h.check("center-unchanged", h.eq(a.center_mass, b.center_mass))


# ----------------------------------------------------------------------------- inertia frames


def _rot(h, name):
    """a symbolic proper-orthonormal 3x3 matrix"""
    R = h.reals(name, (3, 3))
    G = R.T.dot(R) if h.mode == "sym" else R.T @ R
    h.assume(h.eq(G, [[1.0, 0.0, 0.0], [0.0, 1.0, 0.0], [0.0, 0.0, 1.0]]))
    return R


@contract("C03", INR + ".transform_inertia", name="rotation-law", timeout=60000)
def transform_inertia(h):
    R = _rot(h, "R")
    S = h.reals("S", (3, 3))
    h.assume(h.eq(S, S.T))
    out = h.fn(INR + ".transform_inertia")(R, S)
    want = R.dot(S).dot(R.T) if h.mode == "sym" else R @ S @ R.T
    h.check("R.I.R^T", h.eq(out, want))


@contract("C03", INR + ".transform_inertia", name="parallel-axis", timeout=60000)
def transform_inertia_parallel(h):
    """4x4 transform: inertia about the new frame's origin, expressed in its axes"""
    R = _rot(h, "R")
    t = h.reals("t", 3)
    S = h.reals("S", (3, 3))
    m = h.real("m")
    h.assume(h.eq(S, S.T))
    np = h.np
    M = np.eye(4)
    if h.mode == "sym":
        M = h.np.array(M)
    M = M.copy()
    M[:3, :3] = R
    M[:3, 3] = t
    out = h.fn(INR + ".transform_inertia")(M, S, parallel_axis=True, mass=m)
    # parallel-axis step about offset a, then rotation
    a = t
    aa = a[0] * a[0] + a[1] * a[1] + a[2] * a[2]
    shifted = [[S[r, c] + m * ((aa if r == c else 0.0) - a[r] * a[c]) for c in range(3)] for r in range(3)]
    sh = np.array(shifted) if h.mode == "sym" else np.asarray(shifted, dtype=float)
    # `transform` is the pose of the new frame: components in its axes are R^T (.) R
    want = R.T.dot(sh).dot(R) if h.mode == "sym" else R.T @ sh @ R
    h.check("R^T.(I + m(|a|^2 E - a a^T)).R", h.eq(out, want))


# ----------------------------------------------------------------------------- Trimesh level (modular: ghost self)

from pyvc.engine import Ghost  # noqa: E402

BASE = "trimesh.base.Trimesh"


def _ghost_mesh(h, T, data):
    cr = h.fn(TRI + ".cross")(T)
    return Ghost(triangles=T, triangles_cross=cr, _data=Ghost(data=data))


@contract("C03", BASE + ".mass_properties", name="delegates-with-overrides")
def trimesh_mass_properties(h):
    """Trimesh.mass_properties = triangles.mass_properties(triangles, cross(triangles),
    density override, centre-of-mass override) - checked against the integral spec"""
    N = h.length("N")
    T = h.lreals("T", N, (3, 3))
    rho = h.real("rho")
    f = h.method(BASE + ".mass_properties")
    I = [s.sum() for s in flux_spec(T)]
    V = I[0]
    tol = h.module("trimesh.constants").tol
    # no overrides: density 1
    mp = f(_ghost_mesh(h, T, {}))
    h.check("default-density-1", h.all([h.eq(mp.density, 1.0), h.eq(mp.mass, V), h.eq(mp.volume, V)]))
    # density override
    mp = f(_ghost_mesh(h, T, {"density": rho}))
    com = mp.center_mass
    J = _J(I, V, com)
    h.check("density-override", h.all([h.eq(mp.density, rho), h.eq(mp.mass, rho * V), h.eq(mp.volume, V)]))
    h.check("center_mass=∫x/∫1", h.implies(h.not_(h.abs(V) < tol.zero), h.all([h.eq(com[d] * V, I[1 + d]) for d in range(3)])))
    h.check("inertia=density*J", h.eq(mp.inertia, [[rho * J[r][c] for c in range(3)] for r in range(3)]))
    # centre of mass override
    c0 = h.reals("c", 3)
    mp = f(_ghost_mesh(h, T, {"density": rho, "center_mass": c0}))
    J = _J(I, V, c0)
    h.check("center-override-honoured", h.eq(mp.center_mass, c0))
    h.check("inertia-about-override", h.eq(mp.inertia, [[rho * J[r][c] for c in range(3)] for r in range(3)]))


def _sym_mp(h):
    triangles = h.module(TRI)
    c = h.reals("c", 3)
    S = h.reals("S", (3, 3))
    h.assume(h.eq(S, S.T))
    m = h.real("m")
    V = h.real("V")
    rho = h.real("rho")
    return triangles.MassProperties(density=rho, mass=m, volume=V, center_mass=c, inertia=S), c, S, m, V, rho


@contract("C03", BASE + ".moment_inertia_frame", name="parallel-axis-and-rotation", timeout=60000)
def trimesh_inertia_frame(h):
    """inertia about the origin of frame T expressed in T's axes, from the mass properties
    (mass, NOT volume; inertia about the centre of mass)"""
    mp, c, S, m, V, rho = _sym_mp(h)
    R = _rot(h, "R")
    t = h.reals("t", 3)
    np = h.np
    M = (np.array(np.eye(4)) if h.mode == "sym" else np.eye(4)).copy()
    M[:3, :3] = R
    M[:3, 3] = t
    out = h.method(BASE + ".moment_inertia_frame")(Ghost(mass_properties=mp), M)
    a = [t[k] - c[k] for k in range(3)]  # frame origin relative to the centre of mass
    aa = a[0] * a[0] + a[1] * a[1] + a[2] * a[2]
    shifted = [[S[r, k] + m * ((aa if r == k else 0.0) - a[r] * a[k]) for k in range(3)] for r in range(3)]
    sh = np.array(shifted) if h.mode == "sym" else np.asarray(shifted, dtype=float)
    want = R.T.dot(sh).dot(R) if h.mode == "sym" else R.T @ sh @ R
    h.check("R^T.(I_com + m(|a|^2 E - a a^T)).R", h.eq(out, want))


@contract("C03", BASE + ".volume", name="scalar-getters")
def trimesh_getters(h):
    mp, c, S, m, V, rho = _sym_mp(h)
    g = Ghost(mass_properties=mp)
    h.check("volume", h.eq(h.method(BASE + ".volume")(g), V))
    h.check("mass", h.eq(h.method(BASE + ".mass")(g), m))
    h.check("center_mass", h.eq(h.method(BASE + ".center_mass")(g), c))
    h.check("moment_inertia", h.eq(h.method(BASE + ".moment_inertia")(g), S))
    h.check("density", h.eq(h.method(BASE + ".density")(g), rho))


@contract("C03", BASE + ".area", name="sum-of-triangle-areas")
def trimesh_area(h):
    N = h.length("N")
    T = h.lreals("T", N, (3, 3))
    cr = h.fn(TRI + ".cross")(T)
    af = h.method(BASE + ".area_faces")(Ghost(triangles_cross=cr))

    def row(i):
        c = cr[i]
        return [af[i] >= 0, h.eq(4.0 * af[i] * af[i], c[0] * c[0] + c[1] * c[1] + c[2] * c[2])]

    h.check("area_faces=|cross|/2", h.forall(N, row))
    tot = h.method(BASE + ".area")(Ghost(area_faces=af))
    h.check("area=sum(area_faces)", h.eq(tot, af.sum()))


# ----------------------------------------------------------------------------- bounded: number types and an exact reference


@bounded("C03", name="real-code:exact-integrals-for-every-input-number-type", note="closed meshes with dyadic coordinates (exact in float16/32/64) far from the origin: triangles.mass_properties and Trimesh volume / centre of mass / inertia against the integrals computed in exact rational arithmetic; float64, float32, float16, int64, int32 and Fortran-ordered input")
def exact_reference(tier, seed):
    from fractions import Fraction

    import trimesh

    cells = {}
    cases = 0

    def fail(key, detail=""):
        c = cells.setdefault(key, {"what": key, "cell": key, "detail": str(detail)[:200], "count": 0})
        c["count"] += 1

    def exact(tris):
        """volume, first moments, second moments by exact signed-tetrahedron sums"""
        V = Fraction(0)
        M1 = [Fraction(0)] * 3
        M2 = [[Fraction(0)] * 3 for _ in range(3)]
        for t in tris:
            a, b, c = ([Fraction(float(x)) for x in p] for p in t)
            det = a[0] * (b[1] * c[2] - b[2] * c[1]) - a[1] * (b[0] * c[2] - b[2] * c[0]) + a[2] * (b[0] * c[1] - b[1] * c[0])
            V += det / 6
            s = [a[i] + b[i] + c[i] for i in range(3)]
            for i in range(3):
                M1[i] += det * s[i] / 24
                for j in range(3):
                    M2[i][j] += det * (a[i] * a[j] + b[i] * b[j] + c[i] * c[j] + s[i] * s[j]) / 120
        com = [M1[i] / V for i in range(3)]
        # inertia about the centre of mass, unit density
        I = [[Fraction(0)] * 3 for _ in range(3)]
        tr = M2[0][0] + M2[1][1] + M2[2][2]
        for i in range(3):
            for j in range(3):
                I[i][j] = (tr if i == j else 0) - M2[i][j] - V * ((com[0] ** 2 + com[1] ** 2 + com[2] ** 2 if i == j else 0) - com[i] * com[j])
        return float(V), [float(x) for x in com], [[float(x) for x in r] for r in I]

    solids = []
    box = trimesh.creation.box(extents=[1.5, 2.25, 0.75])
    ico = trimesh.creation.icosphere(subdivisions=1)
    ico.vertices = rnp.round(ico.vertices * 64) / 64  # dyadic
    for name, m in (("box", box), ("dyadic-icosphere", ico)):
        for off in ([0.0, 0.0, 0.0], [28.5, -17.25, 9.0]):
            mm = m.copy()
            mm.apply_translation(off)
            solids.append(("%s@%s" % (name, off), mm))
    for sname, m in solids:
        tri64 = rnp.asarray(m.triangles, dtype=rnp.float64)
        vol, com, I = exact(tri64)
        scale = max(1.0, float(rnp.abs(tri64).max()))
        variants = [("float64", tri64), ("float32", tri64.astype(rnp.float32)), ("float64-fortran", rnp.asfortranarray(tri64))]
        if float(rnp.abs(tri64 - tri64.astype(rnp.float16)).max()) == 0.0:
            variants.append(("float16", tri64.astype(rnp.float16)))
        if float(rnp.abs(tri64 * 64 - rnp.round(tri64 * 64)).max()) == 0.0:
            ti = rnp.round(tri64 * 64).astype(rnp.int64)
            variants += [("int64(x64)", ti), ("int32(x64)", ti.astype(rnp.int32))]
        for vname, arr in variants:
            cases += 1
            try:
                k = 64.0 if "x64" in vname else 1.0
                mp = trimesh.triangles.mass_properties(arr, density=1.0)
                if abs(mp["volume"] / k**3 - vol) > 1e-9 * max(1.0, abs(vol)):
                    fail("mass_properties[%s]:volume-differs-from-the-exact-integral" % vname, "%s: %r vs %r" % (sname, mp["volume"] / k**3, vol))
                if float(rnp.abs(rnp.asarray(mp["center_mass"]) / k - com).max()) > 1e-9 * scale:
                    fail("mass_properties[%s]:centre-of-mass-differs-from-the-exact-integral" % vname, "%s: %s vs %s" % (sname, rnp.asarray(mp["center_mass"]) / k, com))
                if float(rnp.abs(rnp.asarray(mp["inertia"]) / k**5 - rnp.array(I)).max()) > 1e-8 * scale**2 * max(1.0, abs(vol)):
                    fail("mass_properties[%s]:inertia-differs-from-the-exact-integral" % vname, "%s: max |d| %g" % (sname, float(rnp.abs(rnp.asarray(mp["inertia"]) / k**5 - rnp.array(I)).max())))
            except Exception as ex:  # noqa: BLE001
                fail("mass_properties[%s]:raised %s" % (vname, type(ex).__name__), "%s: %s" % (sname, ex))
        # the mesh-level values, and a mesh built from float32 vertices
        for vname, mesh in (("Trimesh", m), ("Trimesh(float32 vertices)", trimesh.Trimesh(vertices=rnp.asarray(m.vertices, dtype=rnp.float32), faces=m.faces, process=False))):
            cases += 1
            try:
                if abs(mesh.volume - vol) > 1e-9 * max(1.0, abs(vol)) or float(rnp.abs(mesh.center_mass - com).max()) > 1e-9 * scale or float(rnp.abs(mesh.moment_inertia - rnp.array(I)).max()) > 1e-8 * scale**2 * max(1.0, abs(vol)):
                    fail("%s:mass-properties-differ-from-the-exact-integrals" % vname, sname)
            except Exception as ex:  # noqa: BLE001
                fail("%s:raised %s" % (vname, type(ex).__name__), "%s: %s" % (sname, ex))
    fails = sorted(cells.values(), key=lambda c: c["cell"])
    from contracts import common

    r = common.result(cases, cases, fails, "4 dyadic solids x up to 6 input number types + 2 mesh-level variants", exhaustive=True)
    r["failures"] = fails
    return r
