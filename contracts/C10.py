"""
C10 — Scene-level quantities equal explicit placement of every instance.

Oracle (the statement's own): for every node n that references geometry g, the point set
{ W_n . p : p in g } with W_n = graph.get(n)[0]  (explicit placement: copy + apply_transform).

(a) Scene.bounds_corners / bounds on a ghost self, every vertex count N and every real affine
    world matrix: every placed vertex lies inside the reported corners of its node, and the
    scene bounds contain the corners of every node (lambda arrays, extremum axioms).
(b) bounded, real classes: a family of scenes (forests with rigid / similarity / mirrored
    edges, geometry instanced 0, 1 or many times, mesh + path + point cloud, nested frames)
    x every quantity of the statement against the explicit-placement oracle; every
    scene-to-scene operation (copy, scaled uniform / per axis, rezero, convert_units,
    apply_transform, +, subscene) preserves the placements and leaves the source untouched;
    geometry / graph edits between reads are visible (scene cache).
"""
import itertools

import numpy as rnp

from contracts import common
from pyvc import core
from pyvc.engine import Ghost, bounded, contract

SC = "trimesh.scene.scene.Scene"

META = {
    "level": "proof",
    "assumptions": [
        "(a) is modular: graph[node] is a ghost returning an arbitrary affine matrix per node (its own contract is C09); min/max over the symbolic vertex axis by their defining axioms",
        "area under non-similarity node transforms is outside the statement (area has no scale law there); the family uses rigid / similarity / mirror edges",
        "convex hulls are compared through qhull on both sides (M4)",
    ],
    "trusted_base": ["pyvc (T1)", "z3 (T2)", "C09 (graph.get)"],
}


# ----------------------------------------------------------------------------- (a) bounds_corners for every vertex count


def _affine(h, name):
    A = h.reals(name, (3, 4))
    np = h.np
    M = (np.array(np.eye(4)) if h.mode == "sym" else rnp.eye(4)).copy()
    M[:3, :] = A
    return M


@contract("C10", SC + ".bounds_corners", name="placed-vertices-inside-node-corners")
def bounds_corners(h):
    N = h.length("N")
    h.assume(N >= 1)
    P = h.lreals("P", N, (3,))
    W1 = _affine(h, "W1")
    W2 = _affine(h, "W2")
    table = {"n1": (W1, "g"), "n2": (W2, "g"), "n3": (W1, "missing")}

    class _Graph:
        nodes_geometry = ["n1", "n2", "n3"]

        def __getitem__(self, k):
            return table[k]

    geom = Ghost(vertices=P, bounds=None)
    g = Ghost(geometry={"g": geom}, graph=_Graph())
    corners = h.method(SC + ".bounds_corners")(g)
    h.check("one-entry-per-node-with-geometry", sorted(corners.keys()) == ["n1", "n2"])

    def row(i):
        conds = []
        for node, W in (("n1", W1), ("n2", W2)):
            c = corners[node]
            for d in range(3):
                x = W[d, 0] * P[i, 0] + W[d, 1] * P[i, 1] + W[d, 2] * P[i, 2] + W[d, 3]
                conds.append(h.le(c[0][d], x, slack=1e-9))
                conds.append(h.le(x, c[1][d], slack=1e-9))
        return conds

    h.check("every-placed-vertex-inside-its-node-corners", h.forall(N, row))
    b = h.method(SC + ".bounds")(Ghost(bounds_corners=corners))
    conds = []
    for node in ("n1", "n2"):
        for d in range(3):
            conds.append(h.le(b[0][d], corners[node][0][d], slack=1e-9))
            conds.append(h.le(corners[node][1][d], b[1][d], slack=1e-9))
    h.check("scene-bounds-contain-every-node", h.all(conds))
    h.check("scene-bounds-attained", h.all([h.any([h.eq(b[0][d], corners[n][0][d]) for n in ("n1", "n2")]) for d in range(3)] + [h.any([h.eq(b[1][d], corners[n][1][d]) for n in ("n1", "n2")]) for d in range(3)]))


class _GhostGraph:
    def __init__(self, table):
        self.table = table
        self.nodes_geometry = list(table)

    def __getitem__(self, k):
        return self.table[k]


def _absdet3(h, W):
    d = W[0, 0] * (W[1, 1] * W[2, 2] - W[1, 2] * W[2, 1]) - W[0, 1] * (W[1, 0] * W[2, 2] - W[1, 2] * W[2, 0]) + W[0, 2] * (W[1, 0] * W[2, 1] - W[1, 1] * W[2, 0])
    return d, h.abs(d)


@contract("C10", SC + ".volume", name="sum-over-instances-of-volume-times-|det|", timeout=60000)
def scene_volume(h):
    """every instance of every geometry that has a volume counts, scaled by |det| of ITS node
    transform (instances of one geometry under different transforms, a geometry without volume)"""
    v1, v2 = h.real("v1"), h.real("v2")
    W1, W2, W3 = _affine(h, "W1"), _affine(h, "W2"), _affine(h, "W3")
    geom = {"g": Ghost(volume=v1, area=1.0), "k": Ghost(volume=v2, area=1.0), "cloud": Ghost(vertices=None)}
    g = Ghost(geometry=geom, graph=_GhostGraph({"n1": (W1, "g"), "n2": (W2, "g"), "n3": (W3, "k"), "n4": (W1, "cloud")}))
    out = h.method(SC + ".volume")(g)
    want = v1 * _absdet3(h, W1)[1] + v1 * _absdet3(h, W2)[1] + v2 * _absdet3(h, W3)[1]
    h.check("volume=Σ_instances volume(geometry)·|det(node transform)|", h.eq(out, want, rtol=1e-9, atol=1e-9))


@contract("C10", SC + ".center_mass", name="mass-weighted-mean-of-placed-centres", timeout=120000)
def scene_center_mass(h):
    """centre of mass = Σ m_i |det W_i| (W_i c_i) / Σ m_i |det W_i| over the instances of
    geometry that has a mass; instances of geometry without mass do not take part"""
    m1, m2 = h.real("m1"), h.real("m2")
    h.assume(h.all([m1 > 0.01, m2 > 0.01]) if h.mode == "sym" else (m1 > 0.01 and m2 > 0.01))
    c1, c2 = h.reals("c1", 3), h.reals("c2", 3)
    W1, W2, W3 = _affine(h, "W1"), _affine(h, "W2"), _affine(h, "W3")
    dets = [_absdet3(h, W)[1] for W in (W1, W2, W3)]
    h.assume(h.all([d > 0.01 for d in dets]) if h.mode == "sym" else all(d > 0.01 for d in dets))
    geom = {"g": Ghost(center_mass=c1, mass=m1), "k": Ghost(center_mass=c2, mass=m2), "cloud": Ghost(vertices=None)}
    g = Ghost(geometry=geom, graph=_GhostGraph({"n1": (W1, "g"), "n0": (W1, "cloud"), "n2": (W2, "g"), "n3": (W3, "k")}))
    out = h.method(SC + ".center_mass")(g)
    ws = [m1 * dets[0], m1 * dets[1], m2 * dets[2]]
    tot = ws[0] + ws[1] + ws[2]
    conds = []
    for d in range(3):
        placed = [W[d, 0] * c[0] + W[d, 1] * c[1] + W[d, 2] * c[2] + W[d, 3] for W, c in ((W1, c1), (W2, c1), (W3, c2))]
        conds.append(h.eq(out[d] * tot, ws[0] * placed[0] + ws[1] * placed[1] + ws[2] * placed[2], rtol=1e-9, atol=1e-9))
    h.check("centre·Σw = Σ w_i·(W_i c_i)", h.all(conds))


@contract("C10", SC + ".triangles", name="instances-placed-in-node-order-mirrors-rewound[2 triangles x 2 instances]", kind="bounded-shape", timeout=120000)
def scene_triangles(h):
    """every triangle of every instance is the geometry's triangle moved by the node transform,
    in node order then face order; under a mirroring transform the corner order is reversed
    (so that the moved triangle is wound like the transformed solid); triangles_node names
    the node of every triangle"""
    T = h.reals("T", (2, 3, 3))
    W1, W2 = _affine(h, "W1"), _affine(h, "W2")
    d1, a1 = _absdet3(h, W1)
    d2, a2 = _absdet3(h, W2)
    h.assume(h.all([a1 > 0.01, a2 > 0.01]) if h.mode == "sym" else (a1 > 0.01 and a2 > 0.01))
    Ta = h.np.array(T) if h.mode == "sym" else rnp.array(T, dtype=float)
    geom = {"g": Ghost(triangles=Ta), "cloud": Ghost(vertices=None)}
    cache = {}
    g = Ghost(geometry=geom, graph=_GhostGraph({"a": (W1, "g"), "c": (W1, "cloud"), "b": (W2, "g")}), _cache=cache)
    # modular: transformations.flips_winding by its contract (C04: true iff det of the 3x3 part < 0)
    h.stub("trimesh.transformations.flips_winding", lambda M: _absdet3(h, M)[0] < 0)

    # modular: transformations.transform_points by its contract (C04): M.p + t up to the
    # slack of its identity shortcut (|M - I| < 1e-8 returns the points unchanged)
    def transform_points(points, matrix, translate=True):
        rows = []
        for i in range(points.shape[0]):
            bound = 1e-8 * (1.0 + h.abs(points[i, 0]) + h.abs(points[i, 1]) + h.abs(points[i, 2]))
            row = []
            for ax in range(3):
                e = h.fresh_real("tp")
                h.assume(h.all([e <= bound, e >= -bound]))
                row.append(matrix[ax, 0] * points[i, 0] + matrix[ax, 1] * points[i, 1] + matrix[ax, 2] * points[i, 2] + matrix[ax, 3] + e)
            rows.append(row)
        return h.np.array(rows)

    h.stub("trimesh.transformations.transform_points", transform_points)
    out = h.method(SC + ".triangles")(g)
    h.check("one-row-per-instance-triangle", tuple(out.shape) == (4, 3, 3))
    conds = []
    for inst, (W, d) in enumerate(((W1, d1), (W2, d2))):
        for t in range(2):
            for k in range(3):
                for ax in range(3):
                    def placed(kk):
                        return W[ax, 0] * T[t, kk, 0] + W[ax, 1] * T[t, kk, 1] + W[ax, 2] * T[t, kk, 2] + W[ax, 3]
                    got = out[inst * 2 + t, k, ax]

                    def within(kk):
                        slack = 1.001e-8 * (1.0 + h.abs(T[t, kk, 0]) + h.abs(T[t, kk, 1]) + h.abs(T[t, kk, 2]))
                        return h.all([got - placed(kk) <= slack, placed(kk) - got <= slack])

                    if h.mode == "sym":
                        conds.append(h.implies(d > 0, within(k)))
                        conds.append(h.implies(d < 0, within(2 - k)))
                    else:
                        conds.append(bool(within(k if d > 0 else 2 - k)))
    h.check("placed-by-the-node-transform;corner-order-reversed-iff-mirrored", h.all(conds))
    h.check("triangles_node-names-the-instance", [str(x) for x in cache["triangles_node"]] == ["a", "a", "b", "b"])


# ----------------------------------------------------------------------------- (b) bounded tier on the real classes


def scenes(tier):
    """named constructors of scenes"""
    import trimesh
    import trimesh.transformations as tf

    def box():
        return trimesh.creation.box(extents=[1.0, 2.0, 3.0])

    def ico():
        return trimesh.creation.icosphere(subdivisions=1, radius=0.7)

    R1 = tf.rotation_matrix(0.7, [1, 2, 3], [0.5, 0, 0])
    R2 = tf.rotation_matrix(-1.1, [0, 1, 1]) @ tf.translation_matrix([2.0, -1.0, 0.5])
    S2 = tf.scale_matrix(2.0)
    SIM = tf.translation_matrix([0, 4.0, 0]) @ tf.rotation_matrix(0.4, [0, 0, 1]) @ tf.scale_matrix(0.5)
    MIR = tf.translation_matrix([-3.0, 0, 0]) @ rnp.diag([-1.0, 1, 1, 1])

    def single():
        s = trimesh.Scene()
        s.add_geometry(box(), node_name="a", geom_name="box", transform=R1)
        return s

    def instanced():
        s = trimesh.Scene()
        s.add_geometry(box(), node_name="a", geom_name="box", transform=R1)
        s.graph.update(frame_to="b", frame_from="world", matrix=R2, geometry="box")
        s.graph.update(frame_to="c", frame_from="world", matrix=tf.translation_matrix([0, 0, 7.0]), geometry="box")
        return s

    def nested():
        s = trimesh.Scene()
        s.add_geometry(box(), node_name="a", geom_name="box", transform=R1)
        s.add_geometry(ico(), node_name="b", geom_name="ico", parent_node_name="a", transform=R2)
        s.graph.update(frame_to="c", frame_from="b", matrix=tf.translation_matrix([1.0, 1.0, 1.0]), geometry="box")
        return s

    def scaled_nodes():
        s = trimesh.Scene()
        s.add_geometry(box(), node_name="a", geom_name="box", transform=S2)
        s.add_geometry(ico(), node_name="b", geom_name="ico", transform=SIM)
        s.graph.update(frame_to="c", frame_from="a", matrix=tf.translation_matrix([3.0, 0, 0]), geometry="ico")
        return s

    def mirrored():
        s = trimesh.Scene()
        s.add_geometry(box(), node_name="a", geom_name="box", transform=MIR)
        s.add_geometry(ico(), node_name="b", geom_name="ico", transform=R1)
        return s

    def unused_geometry():
        s = trimesh.Scene()
        s.add_geometry(box(), node_name="a", geom_name="box", transform=R1)
        s.add_geometry(ico(), node_name="b", geom_name="ico", transform=R2)
        s.graph.transforms.remove_node("b")
        return s

    def twins():
        # two distinct geometry objects with identical content
        s = trimesh.Scene()
        b = box()
        s.add_geometry(b, node_name="a", geom_name="box1", transform=R1)
        s.add_geometry(b.copy(), node_name="b", geom_name="box2", transform=R2)
        return s

    def faceless_member():
        s = trimesh.Scene()
        e = box()
        e.update_faces(rnp.zeros(len(e.faces), dtype=bool))
        s.add_geometry(box(), node_name="a", geom_name="box", transform=R1)
        s.add_geometry(e, node_name="e", geom_name="empty", transform=R2)
        s.add_geometry(ico(), node_name="b", geom_name="ico", transform=SIM)
        return s

    def mixed():
        s = trimesh.Scene()
        s.add_geometry(box(), node_name="a", geom_name="box", transform=R1)
        s.add_geometry(trimesh.PointCloud(rnp.array([[0, 0, 0], [1, 2, 3], [-1, 0.5, 2.0]])), node_name="p", geom_name="cloud", transform=R2)
        s.add_geometry(trimesh.load_path(rnp.array([[0, 0, 0], [1, 0, 0], [1, 1, 0.5], [0, 0, 0]], dtype=float)), node_name="q", geom_name="path", transform=tf.translation_matrix([0, -5.0, 0]))
        return s

    fam = [("single", single), ("instanced", instanced), ("nested", nested), ("scaled_nodes", scaled_nodes), ("mirrored", mirrored), ("unused_geometry", unused_geometry), ("twins", twins), ("faceless_member", faceless_member), ("mixed", mixed)]
    return fam


def placed(scene):
    """explicit placement: list of (node, geometry copy moved to the world)"""
    out = []
    for node in scene.graph.nodes_geometry:
        W, name = scene.graph.get(node)
        g = scene.geometry[name].copy()
        g.apply_transform(rnp.array(W))
        out.append((node, g))
    return out


def placed_points(scene):
    pts = []
    for _, g in placed(scene):
        v = rnp.asarray(g.vertices, dtype=float)
        if v.ndim == 2 and v.shape[1] == 2:
            v = rnp.column_stack([v, rnp.zeros(len(v))])
        if len(v):
            pts.append(v)
    return rnp.vstack(pts) if pts else rnp.zeros((0, 3))


def placed_triangles(scene):
    import trimesh

    tris = [rnp.asarray(g.triangles) for _, g in placed(scene) if isinstance(g, trimesh.Trimesh) and len(g.faces)]
    return rnp.vstack(tris) if tris else rnp.zeros((0, 3, 3))


def quantities(scene):
    """(name, got, want, comparison) for every scene-level quantity of the statement"""
    import trimesh

    out = []
    P = placed_points(scene)
    T = placed_triangles(scene)
    meshes = [g for _, g in placed(scene) if isinstance(g, trimesh.Trimesh) and len(g.faces)]

    def q(name, got, want, cmp=None):
        out.append((name, got, want, cmp))

    if len(P):
        q("bounds", lambda: scene.bounds, lambda: rnp.array([P.min(axis=0), P.max(axis=0)]))
        q("extents", lambda: scene.extents, lambda: P.max(axis=0) - P.min(axis=0))
        q("centroid", lambda: scene.centroid, lambda: (P.min(axis=0) + P.max(axis=0)) / 2.0)
        q("scale", lambda: scene.scale, lambda: float(rnp.linalg.norm(P.max(axis=0) - P.min(axis=0))))
    q("triangles", lambda: common.tri_multiset(scene.triangles), lambda: common.tri_multiset(T), "exact")
    q("triangles_node", lambda: len(scene.triangles_node), lambda: len(T), "exact")
    if meshes:
        q("area", lambda: scene.area - sum(getattr(g, "area", 0.0) for _, g in placed(scene) if not isinstance(g, trimesh.Trimesh) and hasattr(g, "area")), lambda: sum(m.area for m in meshes))
        q("volume", lambda: scene.volume, lambda: sum(m.volume for m in meshes))
        tot = sum(m.mass for m in meshes)
        q("center_mass", lambda: scene.center_mass, lambda: sum(m.center_mass * m.mass for m in meshes) / tot)
        q("moment_inertia", lambda: scene.moment_inertia, lambda: sum(m.moment_inertia_frame(trimesh.transformations.translation_matrix(sum(mm.center_mass * mm.mass for mm in meshes) / tot)) for m in meshes))
        q("dump", lambda: common.tri_multiset(rnp.vstack([rnp.asarray(d.triangles) for d in scene.dump() if isinstance(d, trimesh.Trimesh) and len(d.faces)])), lambda: common.tri_multiset(T), "exact")
        q("dump(concatenate)", lambda: common.tri_multiset(scene.dump(concatenate=True).triangles), lambda: common.tri_multiset(T), "exact")
        q("to_mesh", lambda: common.tri_multiset(scene.to_mesh().triangles), lambda: common.tri_multiset(T), "exact")
        q("convex_hull", lambda: (float(scene.convex_hull.volume), rnp.asarray(scene.convex_hull.bounds)), lambda: (float(trimesh.convex.convex_hull(rnp.vstack([m.vertices for m in meshes])).volume) if False else None, None), "hull")
    return out


def compare(scene, cells, label, mname):
    import trimesh

    n = 0
    for name, got, want, cmp in quantities(scene):
        n += 1
        try:
            g = got()
            if cmp == "hull":
                P = placed_points(scene)
                hull = trimesh.convex.convex_hull(P)
                ok = common.close(g[0], hull.volume, rtol=1e-6, atol=1e-9) and common.close(g[1], hull.bounds, rtol=1e-6, atol=1e-9)
            else:
                w = want()
                ok = (g == w) if cmp == "exact" else common.close(g, w, rtol=1e-6, atol=1e-8)
            why = "differs from explicit placement"
        except Exception as ex:  # noqa: BLE001
            ok, why = False, "%s: %s" % (type(ex).__name__, str(ex)[:100])
        if not ok:
            key = "%s:%s" % (label, name)
            c = cells.setdefault(key, {"what": key, "cell": key, "scene": mname, "detail": why, "count": 0})
            c["count"] += 1
    return n


def world_signature(scene):
    """the placements as a comparable value: sorted per-instance rounded vertex arrays"""
    sig = []
    for node, g in placed(scene):
        v = rnp.asarray(g.vertices, dtype=float)
        if v.ndim == 2 and v.shape[1] == 2:
            v = rnp.column_stack([v, rnp.zeros(len(v))])
        sig.append(rnp.round(v, 6) + 0.0)
    return sorted([s.tolist() for s in sig])


def _sig_close(a, b, tol=1e-5):
    if len(a) != len(b):
        return False
    for x, y in zip(a, b):
        x, y = rnp.asarray(x, dtype=float), rnp.asarray(y, dtype=float)
        if x.shape != y.shape or (x.size and float(rnp.abs(x - y).max()) > tol):
            return False
    return True


def _transformed_sig(scene, M):
    sig = []
    for node, g in placed(scene):
        g = g.copy()
        v = rnp.asarray(g.vertices, dtype=float)
        if v.ndim == 2 and v.shape[1] == 2:
            v = rnp.column_stack([v, rnp.zeros(len(v))])
        v = (M[:3, :3] @ v.T).T + M[:3, 3]
        sig.append(rnp.round(v, 6) + 0.0)
    return sorted([s.tolist() for s in sig])


@bounded("C10", name="real-code:quantities-vs-explicit-placement", note="scene family x every scene-level quantity vs placing a copy of each geometry with its node's world transform; read again after geometry and graph edits (scene cache)")
def quantities_vs_placement(tier, seed):
    import warnings

    import trimesh.transformations as tf

    cells = {}
    cases = 0
    for mname, mk in scenes(tier):
        with warnings.catch_warnings():
            warnings.simplefilter("ignore")
            s = mk()
            cases += compare(s, cells, "fresh", mname)
            # edit every geometry in place (the same edit on each), after everything was read
            for g in s.geometry.values():
                g.apply_scale(2.0)
            cases += compare(s, cells, "after-geometry-edit", mname)
            # edit one geometry only
            first = next(iter(s.geometry.values()))
            if hasattr(first, "vertices") and len(first.vertices):
                first.vertices[0] = first.vertices[0] + 0.25
            cases += compare(s, cells, "after-single-vertex-edit", mname)
            # move a node
            node = s.graph.nodes_geometry[0]
            parent = s.graph.transforms.parents[node]
            s.graph.update(frame_to=node, frame_from=parent, matrix=tf.translation_matrix([0.5, 0.25, -3.0]) @ rnp.array(s.graph.get(node, parent)[0]))
            cases += compare(s, cells, "after-graph-edit", mname)
            # remove a geometry reference
            if len(s.graph.nodes_geometry) > 1:
                s.graph.transforms.remove_node(s.graph.nodes_geometry[-1])
                cases += compare(s, cells, "after-node-removal", mname)
    fails = sorted(cells.values(), key=lambda c: c["cell"])
    r = common.result(cases, cases, fails, "%d scenes x 14 quantities x 5 read points" % len(scenes(tier)), exhaustive=True)
    r["failures"] = fails
    return r


@bounded("C10", name="real-code:operations-preserve-placement", note="copy, scaled (uniform and per axis), rezero, convert_units, apply_transform, + and subscene: world placements preserved (scaled / moved accordingly), source scene untouched")
def operations(tier, seed):
    import warnings

    import trimesh
    import trimesh.transformations as tf

    cells = {}
    cases = 0

    def fail(key, mname, detail=""):
        c = cells.setdefault(key, {"what": key, "cell": key, "scene": mname, "detail": detail, "count": 0})
        c["count"] += 1

    M = tf.rotation_matrix(0.9, [1, 0, 1], [1, 2, 3]) @ tf.scale_matrix(1.5)
    for mname, mk in scenes(tier):
        with warnings.catch_warnings():
            warnings.simplefilter("ignore")
            ops = [
                ("copy", lambda s: s.copy(), rnp.eye(4)),
                ("scaled(2)", lambda s: s.scaled(2.0), rnp.diag([2.0, 2, 2, 1])),
                ("scaled(0.5)", lambda s: s.scaled(0.5), rnp.diag([0.5, 0.5, 0.5, 1])),
                ("scaled([2,2,2])", lambda s: s.scaled([2.0, 2.0, 2.0]), rnp.diag([2.0, 2, 2, 1])),
                ("scaled([2,1,1])", lambda s: s.scaled([2.0, 1.0, 1.0]), rnp.diag([2.0, 1, 1, 1])),
                ("scaled([1,3,0.5])", lambda s: s.scaled([1.0, 3.0, 0.5]), rnp.diag([1.0, 3, 0.5, 1])),
                ("apply_transform", lambda s: s.copy().apply_transform(M), M),
                ("subscene(world)", lambda s: s.subscene(s.graph.base_frame), rnp.eye(4)),
                ("+empty", lambda s: s + trimesh.Scene(), rnp.eye(4)),
            ]
            for oname, op, W in ops:
                cases += 1
                s = mk()
                before = world_signature(s)
                hash_before = {k: hash(g) for k, g in s.geometry.items()}
                graph_before = s.graph.to_edgelist()
                try:
                    r = op(s)
                    want = _transformed_sig(s, W)
                    got = world_signature(r)
                    if not _sig_close(got, want):
                        fail("%s:placements-not-preserved" % oname, mname)
                    if not _sig_close(world_signature(s), before) or {k: hash(g) for k, g in s.geometry.items()} != hash_before or str(s.graph.to_edgelist()) != str(graph_before):
                        fail("%s:source-scene-modified" % oname, mname)
                except Exception as ex:  # noqa: BLE001
                    fail("%s:raised %s" % (oname, type(ex).__name__), mname, str(ex)[:120])
            # rezero: the centre of the scene's bounding box moves to the origin, nothing else
            cases += 1
            s = mk()
            P0 = placed_points(s)
            try:
                c0 = (P0.min(axis=0) + P0.max(axis=0)) / 2.0 if len(P0) else rnp.zeros(3)
                want = _transformed_sig(s, tf.translation_matrix(-c0))
                s.rezero()
                if not _sig_close(world_signature(s), want):
                    fail("rezero:placements-not-translated-to-origin", mname)
            except Exception as ex:  # noqa: BLE001
                fail("rezero:raised %s" % type(ex).__name__, mname, str(ex)[:120])
            # convert_units
            cases += 1
            s = mk()
            s.units = "in"
            before = world_signature(s)
            try:
                want = _transformed_sig(s, rnp.diag([25.4, 25.4, 25.4, 1.0]))
                r = s.convert_units("mm")
                if not _sig_close(world_signature(r), want, tol=1e-4):
                    fail("convert_units:placements-not-scaled", mname)
                if not _sig_close(world_signature(s), before) or s.units != "in":
                    fail("convert_units:source-scene-modified", mname)
            except Exception as ex:  # noqa: BLE001
                fail("convert_units:raised %s" % type(ex).__name__, mname, str(ex)[:120])
            # adding two scenes
            cases += 1
            a, b = mk(), mk()
            b.apply_transform(tf.translation_matrix([20.0, 0, 0]))
            sa, sb = world_signature(a), world_signature(b)
            try:
                c = a + b
                if not _sig_close(world_signature(c), sorted(sa + sb)):
                    fail("__add__:placements-not-preserved", mname)
                if not _sig_close(world_signature(a), sa) or not _sig_close(world_signature(b), sb):
                    fail("__add__:source-scene-modified", mname)
            except Exception as ex:  # noqa: BLE001
                fail("__add__:raised %s" % type(ex).__name__, mname, str(ex)[:120])
            # adding three and four scenes in ONE call (node names collide between all of them)
            for count in (3, 4):
                for how in ("append_scenes", "sum"):
                    cases += 1
                    parts = [mk() for _ in range(count)]
                    for k_, part in enumerate(parts):
                        part.apply_transform(tf.translation_matrix([20.0 * k_, 5.0 * k_, 0]))
                    sigs = [world_signature(p_) for p_ in parts]
                    try:
                        if how == "append_scenes":
                            c = trimesh.scene.scene.append_scenes(parts)
                        else:
                            c = sum(parts[1:], parts[0])
                        if not _sig_close(world_signature(c), sorted(sum(sigs, []))):
                            fail("%s[%d scenes]:placements-not-preserved" % (how, count), mname)
                        if any(not _sig_close(world_signature(p_), sg) for p_, sg in zip(parts, sigs)):
                            fail("%s[%d scenes]:source-scene-modified" % (how, count), mname)
                    except Exception as ex:  # noqa: BLE001
                        fail("%s[%d scenes]:raised %s" % (how, count, type(ex).__name__), mname, str(ex)[:120])
            # subscene of an inner node
            s = mk()
            for node in list(s.graph.nodes):
                if node == s.graph.base_frame:
                    continue
                cases += 1
                try:
                    sub = s.subscene(node)
                    keep = set(s.graph.transforms.successors(node))
                    want = []
                    for n2, g in placed(s):
                        if n2 in keep:
                            # subscene is expressed in the frame of `node`'s parent chain start: compare shapes up to the world transform of node's parent
                            want.append(n2)
                    got_nodes = set(sub.graph.nodes_geometry)
                    if got_nodes != set(want):
                        fail("subscene:wrong-instances", mname, "%s vs %s" % (sorted(got_nodes), sorted(want)))
                    else:
                        # placements relative to `node`: world placement = W_node . placement in the subscene
                        Wn = rnp.array(s.graph.get(node)[0])
                        inside = sorted([rnp.round(rnp.asarray(g.vertices, dtype=float), 6).tolist() for n2, g in placed(s) if n2 in keep and rnp.asarray(g.vertices).shape[1] == 3])
                        moved = _transformed_sig(sub, Wn)
                        if all(rnp.asarray(g.vertices).shape[1] == 3 for _, g in placed(sub)) and not _sig_close(moved, inside):
                            fail("subscene:placements-not-preserved", mname)
                except Exception as ex:  # noqa: BLE001
                    fail("subscene:raised %s" % type(ex).__name__, mname, str(ex)[:120])
    fails = sorted(cells.values(), key=lambda c: c["cell"])
    r = common.result(cases, cases, fails, "%d scenes x (9 copy-like operations, rezero, convert_units, +, append_scenes / sum of 3 and 4 scenes, subscene per node)" % len(scenes(tier)), exhaustive=True)
    r["failures"] = fails
    return r
