"""
C20 — Loading arbitrary or corrupted bytes terminates with a clean outcome.

What contracts can decide here is the CONTROL FLOW around the parsers, not time or memory:

(a) open/close typestate (protocol): load.load_scene / load_mesh / load / load_path with the
    file opened by the loader itself (`open` replaced by a ghost that tracks its handles) and
    every registered loader replaced by a havoc stub that returns or raises: on every path,
    normal or exceptional, for every category of file type (mesh, path, archive, voxel,
    unsupported), every handle the loader opened is closed when the call leaves, and a file
    object passed in by the caller is never closed by the loader.
(b) loops (protocol): the `while` loops of the loader modules are exactly the five contracted
    ones (AST inventory); the two that read from the file (PLY header scan, GLB chunk scan)
    leave within one iteration once the ghost file is at end-of-file, for every enumerated
    prefix of header lines / chunk records (termination variant: unread bytes).
(c) size fields before allocation (protocol, ghost file): binary STL accepts a header count
    only if count * 50 equals the bytes that follow, for counts around 2^31 / 2^32 (32-bit
    wrap-around), so no allocation is sized by an unvalidated field.
(d) bounded: one small exported file per format, EVERY truncation point (short files) and
    seeded single-byte corruptions, by file object and by path: returns geometry or raises an
    ordinary Exception within a per-case time limit, under an address-space limit, and leaves
    no handle open.
Wall-clock proportionality, memory inside C extensions and interpreter crashes are not
expressible as contracts on the Python; (d) only samples them.
"""
import ast
import io
import itertools
import os
import sys
import time

import numpy as rnp

from contracts import common
from pyvc import mirror
from pyvc.engine import bounded, protocol

META = {
    "level": "proof",
    "assumptions": [
        "parsers of text formats, zip/tar/xml/json libraries and numpy's frombuffer are external: only their outcome (return / raise) is modelled in (a)",
        "termination of `for` loops over finite sequences that the body does not extend is assumed (syntactic)",
        "time and memory proportionality are only sampled (bounded tier with limits)",
    ],
    "trusted_base": ["ghost execution of the real loader entry points with havoc stubs", "Python ast for the loop inventory"],
}


# ----------------------------------------------------------------------------- (a) typestate


class _Handle(io.BytesIO):
    def __init__(self, log, data=b"ghost"):
        super().__init__(data)
        self.log = log
        log.append(self)

    name = "ghost"


def _with_ghost_open(mods, log, data=b"ghost"):
    """replace `open` in the given real modules by a ghost that tracks the handles"""

    def ghost_open(path, mode="rb", *a, **k):
        return _Handle(log, data)

    saved = [(m, m.__dict__.get("open", None)) for m in mods]
    for m in mods:
        m.open = ghost_open
    return saved


def _restore_open(saved):
    for m, o in saved:
        if o is None:
            del m.open
        else:
            m.open = o


class _Boom(Exception):
    pass


OUTCOMES = {
    "returns": lambda: None,
    "raises-ValueError": lambda: (_ for _ in ()).throw(ValueError("havoc")),
    "raises-custom-exception": lambda: (_ for _ in ()).throw(_Boom("havoc")),
    "raises-KeyError": lambda: (_ for _ in ()).throw(KeyError("havoc")),
    "raises-MemoryError": lambda: (_ for _ in ()).throw(MemoryError("havoc")),
}


@protocol("C20", name="open-close-typestate", note="every entry point x file-type category x (path | caller's file object) x loader outcome: handles opened by the loader are closed on exit, the caller's object is not")
def typestate(tier, seed, open_ids):
    import tempfile

    import trimesh
    from trimesh.exchange import load as L
    from trimesh.path.exchange import load as PL

    obls = []
    tmp = tempfile.mkdtemp(prefix="pyvc_c20_", dir=os.path.join(os.path.dirname(os.path.dirname(os.path.abspath(__file__))), "scratch"))
    box = trimesh.creation.box()
    kw_mesh = {"vertices": rnp.array(box.vertices), "faces": rnp.array(box.faces)}
    cats = {
        "mesh:stl": ("stl", "mesh_loaders"),
        "mesh:ply": ("ply", "mesh_loaders"),
        "mesh:glb": ("glb", "mesh_loaders"),
        "path:dxf": ("dxf", "path_loaders"),
        "path:svg": ("svg", "path_loaders"),
        "archive:zip": ("zip", "compressed"),
        "voxel:binvox": ("binvox", "voxel_loaders"),
        "unsupported:xyzzy": ("xyzzy", None),
    }
    entries = {"load_scene": L.load_scene, "load_mesh": L.load_mesh, "load": L.load, "load_path": PL.load_path}
    try:
        for cname, (ext, table) in cats.items():
            fpath = os.path.join(tmp, "f." + ext)
            open(fpath, "wb").write(b"ghost")
            for ename, entry in entries.items():
                if ename == "load_path" and not cname.startswith("path"):
                    continue
                for oname, outcome in OUTCOMES.items():
                    for form in ("path", "file-object"):
                        oid = "C20/trimesh.exchange.load.%s/handles-closed[%s;%s;%s]" % (ename, cname, form, oname)
                        log = []
                        saved_open = _with_ghost_open([L, PL], log)
                        # havoc stubs for every registered loader of that category
                        patched = []

                        def stub(*a, _o=outcome, **k):
                            _o()
                            return dict(kw_mesh)

                        def stub_path(*a, _o=outcome, **k):
                            _o()
                            return {"entities": [], "vertices": []}

                        def stub_voxel(*a, _o=outcome, **k):
                            _o()
                            return trimesh.voxel.VoxelGrid(rnp.ones((1, 1, 1), dtype=bool))

                        def stub_comp(*a, _o=outcome, **k):
                            _o()
                            return trimesh.Scene([trimesh.creation.box()])

                        try:
                            if table == "mesh_loaders":
                                patched.append((L.mesh_loaders, ext, L.mesh_loaders.get(ext)))
                                L.mesh_loaders[ext] = stub
                            elif table == "path_loaders":
                                patched.append((PL.path_loaders, ext, PL.path_loaders.get(ext)))
                                PL.path_loaders[ext] = stub_path
                            elif table == "voxel_loaders":
                                patched.append((L.voxel_loaders, ext, L.voxel_loaders.get(ext)))
                                L.voxel_loaders[ext] = stub_voxel
                            elif table == "compressed":
                                patched.append((L.__dict__, "_load_compressed", L._load_compressed))
                                L._load_compressed = stub_comp
                            caller_obj = None
                            raised = None
                            try:
                                if form == "path":
                                    entry(fpath)
                                else:
                                    caller_obj = io.BytesIO(b"ghost")
                                    entry(caller_obj, file_type=ext)
                            except BaseException as ex:  # noqa: BLE001
                                raised = ex
                            leaked = [h for h in log if not h.closed]
                            ok = not leaked
                            detail = "opened %d handle(s), all closed on exit (%s)" % (len(log), "raised %s" % type(raised).__name__ if raised is not None else "returned")
                            if form == "path" and not log and not cname.startswith("unsupported") and raised is None:
                                ok, detail = False, "the loader did not open the file through `open` (ghost not reached)"
                            if leaked:
                                detail = "%d of %d handle(s) opened by the loader left open after the call %s" % (len(leaked), len(log), "raised %s" % type(raised).__name__ if raised is not None else "returned")
                            if caller_obj is not None and caller_obj.closed:
                                ok, detail = False, "the caller's file object was closed by the loader"
                            if raised is not None and not isinstance(raised, Exception):
                                ok, detail = False, "left with a non-ordinary exception %r" % (raised,)
                            obls.append({"id": oid, "status": "discharged" if ok else "violated", "backend": "ghost-exec", "detail": detail, "witness": {"entry": ename, "category": cname, "form": form, "loader_outcome": oname}, "replayed": True})
                        finally:
                            for tbl, k, old in patched:
                                if old is None:
                                    tbl.pop(k, None)
                                else:
                                    tbl[k] = old
                            _restore_open(saved_open)
    finally:
        import shutil

        shutil.rmtree(tmp, ignore_errors=True)
    return {"obligations": obls, "trusted": ["loader bodies replaced by havoc stubs (return / ValueError / custom / KeyError / MemoryError)"], "functions": ["trimesh.exchange.load.load_scene", "trimesh.exchange.load.load_mesh", "trimesh.exchange.load.load", "trimesh.exchange.load._parse_file_args", "trimesh.path.exchange.load.load_path"]}


# ----------------------------------------------------------------------------- (b) loops

LOADER_FILES = ["trimesh/exchange/load.py", "trimesh/exchange/stl.py", "trimesh/exchange/ply.py", "trimesh/exchange/obj.py", "trimesh/exchange/off.py", "trimesh/exchange/gltf.py", "trimesh/exchange/threemf.py", "trimesh/exchange/dae.py", "trimesh/exchange/binvox.py", "trimesh/exchange/xyz.py", "trimesh/exchange/misc.py", "trimesh/exchange/xaml.py", "trimesh/exchange/threedxml.py", "trimesh/exchange/cascade.py", "trimesh/exchange/openctm.py", "trimesh/exchange/urdf.py", "trimesh/path/exchange/dxf.py", "trimesh/path/exchange/svg_io.py", "trimesh/path/exchange/load.py", "trimesh/path/exchange/misc.py"]
CONTRACTED_WHILE = {
    ("trimesh/exchange/gltf.py", "load_glb"): "unread bytes of the GLB + len(info): every iteration pops an info entry, or reads an 8-byte chunk header (break if short) and the chunk",
    ("trimesh/exchange/gltf.py", "*:queue"): "unvisited edges of the node graph + len(queue)",
    ("trimesh/exchange/obj.py", "load_obj"): "len(face_tuples) (popped every iteration)",
    ("trimesh/exchange/ply.py", "_parse_header"): "unread header bytes (readline returns b'' only at EOF, which makes line[0] raise)",
    ("trimesh/exchange/xaml.py", "load_XAML"): "depth of the element in the XML tree (parent walk)",
}


def _while_sites():
    out = []
    for rel in LOADER_FILES:
        p = os.path.join(mirror.REPO, rel)
        if not os.path.exists(p):
            continue
        tree = ast.parse(open(p).read())
        for fn in ast.walk(tree):
            if isinstance(fn, (ast.FunctionDef, ast.AsyncFunctionDef)):
                for n in ast.walk(fn):
                    if isinstance(n, ast.While):
                        # innermost enclosing function only
                        inner = [f for f in ast.walk(fn) if isinstance(f, (ast.FunctionDef, ast.AsyncFunctionDef)) and f is not fn and any(x is n for x in ast.walk(f))]
                        if not inner:
                            out.append((rel, fn.name, n.lineno, ast.unparse(n.test)[:60]))
    return out


class _GhostFile:
    """a finite file: `lines` then EOF forever; counts reads after EOF"""

    def __init__(self, lines=(), chunks=b""):
        self.lines = list(lines)
        self.data = chunks
        self.pos = 0
        self.reads_at_eof = 0

    def readline(self):
        if self.lines:
            return self.lines.pop(0)
        self.reads_at_eof += 1
        if self.reads_at_eof > 3:
            raise _Boom("loop keeps reading at end of file")
        return b""

    def read(self, n=-1):
        if n is None or n < 0:
            n = len(self.data) - self.pos
        out = self.data[self.pos : self.pos + n]
        self.pos += len(out)
        if len(out) == 0:
            self.reads_at_eof += 1
            if self.reads_at_eof > 3:
                raise _Boom("loop keeps reading at end of file")
        return out

    def tell(self):
        return self.pos

    def seek(self, off, whence=0):
        self.pos = off if whence == 0 else (len(self.data) + off if whence == 2 else self.pos + off)


@protocol("C20", name="loops-terminate", note="AST inventory of while loops in the loader modules; file-reading loops leave within one iteration at end-of-file for every enumerated prefix")
def loops(tier, seed, open_ids):
    obls = []
    sites = _while_sites()
    found = {}
    for rel, fn, line, test in sites:
        found.setdefault((rel, fn), []).append((line, test))
    want = {("trimesh/exchange/gltf.py", "load_glb"), ("trimesh/exchange/obj.py", "load_obj"), ("trimesh/exchange/ply.py", "_parse_header"), ("trimesh/exchange/xaml.py", "load_XAML")}
    # the gltf node-queue loop lives in a second function: accept any function of gltf.py that
    # has exactly the `len(queue) > 0` loop
    for key, locs in sorted(found.items()):
        known = key in want or (key[0] == "trimesh/exchange/gltf.py" and all("queue" in t for _, t in locs))
        obls.append({"id": "C20/%s:%s/while-loop-has-a-variant" % key, "status": "discharged" if known else "violated", "backend": "ast-inventory", "detail": "loops at %s; variant: %s" % (locs, CONTRACTED_WHILE.get(key, CONTRACTED_WHILE.get((key[0], "*:queue"), "NONE - a while loop without a contracted variant"))), "witness": {"file": key[0], "function": key[1], "loops": locs}, "replayed": False})
    for key in sorted(want - set(found)):
        obls.append({"id": "C20/%s:%s/while-loop-has-a-variant" % key, "status": "undecided", "backend": "ast-inventory", "detail": "contracted loop no longer present (renamed / removed): review the inventory"})
    # PLY header scan: every prefix of header lines, then EOF
    from trimesh.exchange import ply

    alphabet = [b"ply\n", b"format ascii 1.0\n", b"comment x\n", b"element vertex 1\n", b"property float x\n", b"\n", b"   \n", b"garbage line here\n", b"end_heade\n"]
    n = 0
    bad = None
    for k in range(0, 3 if tier == "quick" else 4):
        for seq in itertools.product(alphabet, repeat=k):
            n += 1
            f = _GhostFile(lines=[b"ply\n"] + list(seq))
            try:
                ply._parse_header(f)
            except _Boom as ex:
                bad = (seq, str(ex))
                break
            except Exception:  # noqa: BLE001
                pass
        if bad:
            break
    obls.append({"id": "C20/trimesh.exchange.ply._parse_header/leaves-the-loop-at-end-of-file", "status": "violated" if bad else "discharged", "backend": "ghost-exec", "detail": "%d header prefixes over a 9-line alphabet followed by EOF: the scan leaves (returns or raises) without reading past EOF more than once" % n if not bad else "keeps reading at EOF after prefix %r" % (bad[0],), "witness": {"prefix": [x.decode() for x in bad[0]] if bad else None}, "replayed": True})
    # GLB chunk scan
    from trimesh.exchange import gltf

    bad = None
    n = 0
    import struct

    binmagic = gltf._magic["bin"]
    recs = [struct.pack("<II", 0, binmagic), struct.pack("<II", 4, binmagic) + b"abcd", struct.pack("<II", 8, binmagic) + b"ab", struct.pack("<II", 4, 12345) + b"abcd", b"\x01\x02\x03"]
    # the GLB loop is inside load_glb: drive it through load_glb with a ghost file
    for k in range(0, 3):
        for seq in itertools.product(recs, repeat=k):
            for claimed in (0, 12, 64, 10**6):
                n += 1
                js = b'{"asset":{"version":"2.0"},"buffers":[{"byteLength":4}]}  '
                js = js[: len(js) - len(js) % 4]
                body = struct.pack("<II", len(js), gltf._magic["json"]) + js + b"".join(seq)
                head = struct.pack("<III", gltf._magic["gltf"], 2, 12 + len(body) if claimed == 0 else 12 + len(js) + 8 + claimed)
                f = _GhostFile(chunks=head + body)
                try:
                    gltf.load_glb(f)
                except _Boom as ex:
                    bad = (len(seq), claimed, str(ex))
                    break
                except Exception:  # noqa: BLE001
                    pass
            if bad:
                break
        if bad:
            break
    obls.append({"id": "C20/trimesh.exchange.gltf.load_glb/chunk-scan-leaves-at-end-of-file", "status": "violated" if bad else "discharged", "backend": "ghost-exec", "detail": "%d chunk sequences x claimed lengths: the scan leaves without reading past EOF more than once" % n if not bad else "keeps reading at EOF: %r" % (bad,), "witness": {"case": bad}, "replayed": True})
    return {"obligations": obls, "trusted": ["python ast", "ghost file: read returns at most the requested bytes and b'' only at EOF"], "functions": ["trimesh.exchange.ply._parse_header", "trimesh.exchange.gltf.load_glb"]}


# ----------------------------------------------------------------------------- (c) size fields


@protocol("C20", name="size-fields-validated", note="binary STL: a header count is accepted only if count*50 (mathematically) equals the bytes that follow; counts around the 32-bit limits")
def size_fields(tier, seed, open_ids):
    import struct

    from trimesh.exchange import stl

    obls = []
    rec = 50
    for count, nbytes in [(0, 0), (1, 50), (1, 49), (2, 50), (3, 150), (2**31, 0), (2**31 + 1, 50), (2**32 - 1, 2**32 - 50 if False else 206), (85899346, 4), (2**31 + 2, 100), (171798692, 8)]:
        oid = "C20/trimesh.exchange.stl.load_stl_binary/count*50=remaining-bytes[count=%d,bytes=%d]" % (count, nbytes)
        data = b"\x00" * 80 + struct.pack("<I", count) + b"\x00" * nbytes
        consistent = count * rec == nbytes
        f = io.BytesIO(data)
        allocated = {"n": 0}
        real_arange = stl.np.arange

        def guarded_arange(*a, **k):
            allocated["n"] = int(a[0]) if a else 0
            if allocated["n"] > 10**6:
                raise _Boom("allocation of %d elements sized by the header field" % allocated["n"])
            return real_arange(*a, **k)

        class _NP:
            def __getattr__(self, name):
                return guarded_arange if name == "arange" else getattr(stl_np, name)

        stl_np = stl.np
        stl.np = _NP()
        try:
            try:
                stl.load_stl_binary(f)
                outcome = "accepted"
            except _Boom as ex:
                outcome = "BOOM: " + str(ex)
            except Exception as ex:  # noqa: BLE001
                outcome = "rejected with %s" % type(ex).__name__
        finally:
            stl.np = stl_np
        ok = (outcome == "accepted") == consistent if not outcome.startswith("BOOM") else False
        obls.append({"id": oid, "status": "discharged" if ok else "violated", "backend": "ghost-exec", "detail": "header count %d, %d data bytes (consistent: %s): %s" % (count, nbytes, consistent, outcome), "witness": {"count": count, "bytes": nbytes, "outcome": outcome}, "replayed": True})
    return {"obligations": obls, "trusted": ["numpy.frombuffer of the 84-byte header (external)"], "functions": ["trimesh.exchange.stl.load_stl_binary"]}


# ----------------------------------------------------------------------------- (d) bounded fuzz


def _samples():
    """format -> bytes of one small valid file"""
    import trimesh

    m = trimesh.creation.box()
    m.visual.face_colors = [200, 10, 10, 255]
    s = trimesh.Scene([m, trimesh.creation.icosphere(subdivisions=0).apply_translation([3, 0, 0])])
    p = trimesh.load_path(rnp.array([[0, 0], [1, 0], [1, 1], [0, 0]], dtype=float))
    v = trimesh.voxel.VoxelGrid(rnp.ones((2, 2, 2), dtype=bool))
    out = {}

    def put(name, ft, fn):
        try:
            d = fn()
            out[name] = (ft, d if isinstance(d, bytes) else d.encode("utf-8"))
        except Exception:  # noqa: BLE001
            pass

    put("stl", "stl", lambda: m.export(file_type="stl"))
    put("stl_ascii", "stl", lambda: m.export(file_type="stl_ascii"))
    put("ply", "ply", lambda: m.export(file_type="ply"))
    put("ply_ascii", "ply", lambda: m.export(file_type="ply", encoding="ascii"))
    put("off", "off", lambda: m.export(file_type="off"))
    put("obj", "obj", lambda: m.export(file_type="obj"))
    put("glb", "glb", lambda: s.export(file_type="glb"))
    put("gltf-json", "gltf", lambda: s.export(file_type="gltf")["model.gltf"])
    put("3mf", "3mf", lambda: s.export(file_type="3mf"))
    put("dae", "dae", lambda: m.export(file_type="dae"))
    put("xyz", "xyz", lambda: trimesh.PointCloud(m.vertices).export(file_type="xyz"))
    put("binvox", "binvox", lambda: v.export(file_type="binvox"))
    put("dxf", "dxf", lambda: p.export(file_type="dxf"))
    put("svg", "svg", lambda: p.export(file_type="svg"))
    put("json-dict", "json", lambda: trimesh.exchange.export.export_dict(m, encoding="json") if hasattr(trimesh.exchange.export, "export_dict") else b"{}")
    return out


def _one_case(ft, data, by_path, tmpdir, limit_s):
    """load `data`; returns (outcome, seconds, leaked handles)"""
    import signal
    import warnings

    import trimesh

    def on_alarm(*a):
        raise TimeoutError("per-case time limit")

    before = set(os.listdir("/proc/self/fd"))
    old = signal.signal(signal.SIGALRM, on_alarm)
    old_v = signal.signal(signal.SIGVTALRM, on_alarm)
    # the limit is CPU time of this process (a busy machine must not look like a hang); a wall
    # clock alarm twelve times as long catches a loader that blocks without computing
    signal.setitimer(signal.ITIMER_VIRTUAL, limit_s)
    signal.setitimer(signal.ITIMER_REAL, limit_s * 12)
    t0 = time.time()
    try:
        with warnings.catch_warnings():
            warnings.simplefilter("ignore")
            try:
                if by_path:
                    fp = os.path.join(tmpdir, "case." + ft)
                    with open(fp, "wb") as fh:
                        fh.write(data)
                    r = trimesh.load(fp)
                else:
                    r = trimesh.load(io.BytesIO(data), file_type=ft)
                outcome = "returned %s" % type(r).__name__
                del r
            except TimeoutError:
                outcome = "TIMEOUT"
            except Exception as ex:  # noqa: BLE001
                outcome = "raised %s" % type(ex).__name__
            except BaseException as ex:  # noqa: BLE001
                outcome = "NON-ORDINARY %s" % type(ex).__name__
    finally:
        signal.setitimer(signal.ITIMER_VIRTUAL, 0)
        signal.setitimer(signal.ITIMER_REAL, 0)
        signal.signal(signal.SIGALRM, old)
        signal.signal(signal.SIGVTALRM, old_v)
    dt = time.time() - t0
    import gc

    gc.collect()
    after = set(os.listdir("/proc/self/fd"))
    leaked = []
    for fd in after - before:
        try:
            tgt = os.readlink("/proc/self/fd/%s" % fd)
        except OSError:
            continue
        if tmpdir in tgt:
            leaked.append(tgt)
    return outcome, dt, leaked


@bounded("C20", name="real-code:truncation-and-corruption", note="one small exported file per format: every truncation point (files up to 600 bytes, every 1/60th otherwise) and seeded single-byte corruptions, by file object and by path; per-case time limit 10 s, address space limit 4 GiB; ordinary outcome, no handle left open")
def fuzz(tier, seed):
    import resource
    import shutil
    import tempfile

    rng = rnp.random.default_rng(seed + 20)
    cells = {}
    cases = 0
    tmpdir = tempfile.mkdtemp(prefix="pyvc_c20f_", dir=os.path.join(os.path.dirname(os.path.dirname(os.path.abspath(__file__))), "scratch"))
    soft, hard = resource.getrlimit(resource.RLIMIT_AS)
    try:
        try:
            resource.setrlimit(resource.RLIMIT_AS, (6 * 2**30, hard))
        except (ValueError, OSError):
            pass

        def fail(key, fmt, detail=""):
            c = cells.setdefault(key, {"what": key, "cell": key, "format": fmt, "detail": str(detail)[:200], "count": 0})
            c["count"] += 1

        for name, (ft, data) in _samples().items():
            n = len(data)
            cuts = list(range(0, n)) if n <= 600 else sorted(set([0, 1, 2, 3, 4, 8, 12, 16, 20, 80, 84] + [int(n * k / 60) for k in range(60)] + [n - 1, n - 2, n - 4]))
            ncorr = 40 if tier == "quick" else 400
            variants = [("truncated@%d" % c, data[:c]) for c in cuts if 0 <= c < n]
            for _ in range(ncorr):
                i = int(rng.integers(0, n))
                b = bytearray(data)
                b[i] = int(rng.integers(0, 256))
                variants.append(("byte%d=%d" % (i, b[i]), bytes(b)))
            # a size field blown up (first 4-byte little endian integers of binary formats)
            for off in (80, 12, 16, 20):
                if n > off + 4:
                    b = bytearray(data)
                    b[off : off + 4] = (2**31 + 1).to_bytes(4, "little")
                    variants.append(("u32@%d=2^31+1" % off, bytes(b)))
            timeouts = 0
            for vname, d in variants:
                if timeouts >= 2:
                    # the violation is established for this format: do not spend 10 s on each of
                    # the remaining inputs of the same kind (the check itself must terminate)
                    break
                for by_path in (False, True) if (vname.startswith("truncated") and hash(vname) % 4 == 0) or not vname.startswith("truncated") else (False,):
                    cases += 1
                    outcome, dt, leaked = _one_case(ft, d, by_path, tmpdir, 10.0)
                    if outcome == "TIMEOUT":
                        timeouts += 1
                        fail("%s:does-not-finish-within-10s-of-cpu-time" % name, name, vname)
                    elif outcome.startswith("NON-ORDINARY"):
                        fail("%s:%s" % (name, outcome), name, vname)
                    elif outcome == "raised MemoryError":
                        fail("%s:memory-out-of-proportion (MemoryError under a 6 GiB limit for a %d byte input)" % (name, len(d)), name, vname)
                    if leaked:
                        fail("%s:handle-left-open" % name, name, "%s: %s" % (vname, leaked[:2]))
    finally:
        try:
            resource.setrlimit(resource.RLIMIT_AS, (soft, hard))
        except (ValueError, OSError):
            pass
        shutil.rmtree(tmpdir, ignore_errors=True)
    fails = sorted(cells.values(), key=lambda c: c["cell"])
    r = common.result(cases, cases, fails, "%d formats: all truncation points of short files / 60 evenly spaced cuts, seeded byte corruptions, blown-up 32-bit fields; by file object and by path" % len(_samples()), exhaustive=False)
    r["failures"] = fails
    return r


# ----------------------------------------------------------------------------- (e) structured corruption, each case in a separate interpreter


def _glb_parts(data):
    import json
    import struct

    assert data[:4] == b"glTF"
    n0 = struct.unpack("<I", data[12:16])[0]
    header = json.loads(data[20 : 20 + n0].decode("utf-8"))
    rest = data[20 + n0 :]
    n1 = struct.unpack("<I", rest[:4])[0]
    return header, rest[8 : 8 + n1]


def _glb_build(header, blob):
    import json
    import struct

    js = json.dumps(header, separators=(",", ":")).encode("utf-8")
    js += b" " * ((4 - len(js) % 4) % 4)
    blob = blob + b"\x00" * ((4 - len(blob) % 4) % 4)
    total = 12 + 8 + len(js) + 8 + len(blob)
    return b"glTF" + struct.pack("<II", 2, total) + struct.pack("<I", len(js)) + b"JSON" + js + struct.pack("<I", len(blob)) + b"BIN\x00" + blob


def _structured_cases():
    """(name, file type, bytes, must_not_return): must_not_return marks cases whose declared
    layout needs more bytes than the file has - a loader that returns geometry for them has
    read something that is not in the file"""
    import copy
    import zipfile

    import trimesh

    out = []
    m = trimesh.creation.box()
    header, blob = _glb_parts(trimesh.Scene(m).export(file_type="glb"))
    # interleaved-style view: POSITION accessor through a bufferView with a byteStride
    pos = header["meshes"][0]["primitives"][0]["attributes"]["POSITION"]
    acc = header["accessors"][pos]
    view_i = acc["bufferView"]
    base = copy.deepcopy(header)
    base["bufferViews"][view_i]["byteStride"] = 12
    out.append(("glb:stride-valid", "glb", _glb_build(base, blob), False))
    count = acc["count"]

    def variant(name, edit, overrun):
        h2 = copy.deepcopy(base)
        edit(h2)
        out.append(("glb:" + name, "glb", _glb_build(h2, blob), overrun))

    A = lambda h2: h2["accessors"][pos]  # noqa: E731
    V = lambda h2: h2["bufferViews"][view_i]  # noqa: E731
    variant("position-count+1", lambda h2: A(h2).update(count=count + 1), True)
    variant("position-count-x2", lambda h2: A(h2).update(count=count * 2), True)
    variant("position-count-2^31", lambda h2: A(h2).update(count=2**31), True)
    variant("position-count-0", lambda h2: A(h2).update(count=0), False)
    variant("position-count-negative", lambda h2: A(h2).update(count=-3), False)
    variant("accessor-byteOffset-4", lambda h2: A(h2).update(byteOffset=4), True)
    variant("accessor-byteOffset-2^31", lambda h2: A(h2).update(byteOffset=2**31), True)
    variant("accessor-byteOffset-negative", lambda h2: A(h2).update(byteOffset=-12), False)
    for st in (0, 4, 13, 24, 2**31, 2**40, -12):
        variant("byteStride=%d" % st, lambda h2, st=st: V(h2).update(byteStride=st), st > 12)
    variant("view-byteLength-short", lambda h2: V(h2).update(byteLength=V(h2)["byteLength"] - 12), True)
    variant("view-byteLength-0", lambda h2: V(h2).update(byteLength=0), True)
    variant("view-byteLength-huge", lambda h2: V(h2).update(byteLength=2**31), True)
    variant("view-byteOffset-2^31", lambda h2: V(h2).update(byteOffset=2**31), True)
    variant("view-buffer-5", lambda h2: V(h2).update(buffer=5), False)
    variant("accessor-bufferView-99", lambda h2: A(h2).update(bufferView=99), False)
    variant("accessor-componentType-9999", lambda h2: A(h2).update(componentType=9999), False)
    variant("accessor-type-VEC9", lambda h2: A(h2).update(type="VEC9"), False)
    idx = header["meshes"][0]["primitives"][0].get("indices")
    if idx is not None:
        variant("indices-count-2^31", lambda h2: h2["accessors"][idx].update(count=2**31), True)
        variant("indices-count+3", lambda h2: h2["accessors"][idx].update(count=h2["accessors"][idx]["count"] + 3), True)
    variant("node-is-its-own-child", lambda h2: h2["nodes"][-1].update(children=[len(h2["nodes"]) - 1]), False)
    variant("node-children-cycle", lambda h2: (h2["nodes"][0].update(children=[len(h2["nodes"]) - 1]), h2["nodes"][-1].update(children=[0])), False)
    variant("node-mesh-99", lambda h2: h2["nodes"][-1].update(mesh=99), False)
    variant("scene-nodes-99", lambda h2: h2["scenes"][0].update(nodes=[99]), False)

    # 3MF: component cycles and chains
    def threemf(objects, build):
        body = ['<?xml version="1.0" encoding="UTF-8"?>', '<model unit="millimeter" xmlns="http://schemas.microsoft.com/3dmanufacturing/core/2015/02">', "<resources>"]
        body += objects
        body += ["</resources>", "<build>"] + ['<item objectid="%s" />' % b for b in build] + ["</build>", "</model>"]
        f = io.BytesIO()
        with zipfile.ZipFile(f, "w") as z:
            z.writestr("3D/3dmodel.model", "\n".join(body))
            z.writestr("[Content_Types].xml", '<?xml version="1.0" encoding="UTF-8"?><Types xmlns="http://schemas.openxmlformats.org/package/2006/content-types"><Default Extension="model" ContentType="application/vnd.ms-package.3dmanufacturing-3dmodel+xml" /></Types>')
        return f.getvalue()

    mesh_obj = '<object id="1" type="model"><mesh><vertices><vertex x="0" y="0" z="0" /><vertex x="1" y="0" z="0" /><vertex x="0" y="1" z="0" /></vertices><triangles><triangle v1="0" v2="1" v3="2" /></triangles></mesh></object>'

    def comp(oid, children):
        return '<object id="%s" type="model"><components>%s</components></object>' % (oid, "".join('<component objectid="%s" />' % c for c in children))

    out.append(("3mf:valid-components", "3mf", threemf([mesh_obj, comp(2, [1, 1])], [2]), False))
    out.append(("3mf:component-lists-itself", "3mf", threemf([mesh_obj, comp(2, [1, 2])], [2]), False))
    out.append(("3mf:component-only-itself", "3mf", threemf([mesh_obj, comp(2, [2])], [2]), False))
    out.append(("3mf:two-cycle", "3mf", threemf([mesh_obj, comp(2, [1, 3]), comp(3, [2])], [2]), False))
    out.append(("3mf:cycle-with-branches", "3mf", threemf([mesh_obj, comp(2, [1, 1, 3]), comp(3, [1, 2, 2])], [2, 3]), False))
    out.append(("3mf:undefined-object", "3mf", threemf([mesh_obj, comp(2, [1, 77])], [2, 55]), False))
    depth = 150
    out.append(("3mf:chain-of-%d" % depth, "3mf", threemf([mesh_obj] + [comp(k, [k - 1]) for k in range(2, depth)], [depth - 1]), False))
    out.append(("3mf:diamond-10-levels (2^10 instances)", "3mf", threemf([mesh_obj] + [comp(k, [k - 1, k - 1]) for k in range(2, 12)], [11]), False))

    # header counts far beyond the data
    big = [2**31, 2**40]
    for n in big:
        out.append(("ply-binary:vertex-count-%d" % n, "ply", ("ply\nformat binary_little_endian 1.0\nelement vertex %d\nproperty float x\nproperty float y\nproperty float z\nelement face 0\nproperty list uchar int vertex_indices\nend_header\n" % n).encode() + b"\x00" * 24, True))
        out.append(("ply-ascii:vertex-count-%d" % n, "ply", ("ply\nformat ascii 1.0\nelement vertex %d\nproperty float x\nproperty float y\nproperty float z\nelement face 0\nproperty list uchar int vertex_indices\nend_header\n0 0 0\n1 0 0\n" % n).encode(), True))
        out.append(("ply-binary:face-count-%d" % n, "ply", ("ply\nformat binary_little_endian 1.0\nelement vertex 1\nproperty float x\nproperty float y\nproperty float z\nelement face %d\nproperty list uchar int vertex_indices\nend_header\n" % n).encode() + b"\x00" * 12 + b"\x03" + b"\x00" * 12, True))
        out.append(("off:vertex-count-%d" % n, "off", ("OFF\n%d 1 0\n0 0 0\n1 0 0\n0 1 0\n3 0 1 2\n" % n).encode(), True))
        out.append(("off:face-count-%d" % n, "off", ("OFF\n3 %d 0\n0 0 0\n1 0 0\n0 1 0\n3 0 1 2\n" % n).encode(), True))
    out.append(("ply-binary:negative-vertex-count", "ply", b"ply\nformat binary_little_endian 1.0\nelement vertex -5\nproperty float x\nproperty float y\nproperty float z\nend_header\n", False))
    out.append(("ply-binary:list-count-255", "ply", b"ply\nformat binary_little_endian 1.0\nelement vertex 1\nproperty float x\nproperty float y\nproperty float z\nelement face 1\nproperty list uchar int vertex_indices\nend_header\n" + b"\x00" * 12 + b"\xff" + b"\x00" * 12, True))
    for dims in ("100000 100000 100000", "2147483648 1 1", "-4 4 4", "0 0 0"):
        out.append(("binvox:dim %s" % dims, "binvox", ("#binvox 1\ndim %s\ntranslate 0 0 0\nscale 1\ndata\n" % dims).encode() + b"\x01\x08", dims.startswith(("1", "2"))))
    out.append(("stl-ascii:unterminated", "stl", b"solid a\nfacet normal 0 0 1\nouter loop\nvertex 0 0 0\nvertex 1 0 0\n", False))
    out.append(("obj:face-index-2^40", "obj", b"v 0 0 0\nv 1 0 0\nv 0 1 0\nf 1 2 1099511627776\n", False))
    out.append(("obj:face-index-0-and-negative", "obj", b"v 0 0 0\nv 1 0 0\nv 0 1 0\nf 0 -1 -7\n", False))
    return out


@bounded("C20", name="real-code:structured-corruption", note="glTF accessors / bufferViews / strides / node cycles, 3MF component cycles and chains, header counts far beyond the data (PLY, OFF, binvox), OBJ indices: every case loaded in a SEPARATE interpreter (10 s, 4 GiB): returns or raises an ordinary exception, does not crash the interpreter, does not return geometry for a layout that needs more bytes than the file has")
def structured(tier, seed):
    import shutil
    import subprocess
    import tempfile

    verif = os.path.dirname(os.path.dirname(os.path.abspath(__file__)))
    tmpdir = tempfile.mkdtemp(prefix="pyvc_c20s_", dir=os.path.join(verif, "scratch"))
    cells = {}

    def fail(key, detail=""):
        c = cells.setdefault(key, {"what": key, "cell": key, "detail": str(detail)[:200], "count": 0})
        c["count"] += 1

    try:
        cases = _structured_cases()
        todo = []
        for k, (name, ft, data, overrun) in enumerate(cases):
            fp = os.path.join(tmpdir, "case%03d.bin" % k)
            with open(fp, "wb") as fh:
                fh.write(data)
            todo.append((name, ft, fp, overrun))
        expect = {n: o for n, _, _, o in todo}
        sizes = {name: (len(data), len(data.split())) for name, _ft, data, _o in cases}
        env = dict(os.environ)
        repo = os.environ.get("VERIF_REPO") or "/repo"
        env["PYTHONPATH"] = repo + os.pathsep + env.get("PYTHONPATH", "")
        pending = list(todo)
        outcomes = {}
        restarts = 0
        while pending and restarts < 40:
            p = subprocess.run([sys.executable, os.path.join(verif, "tools", "c20_driver.py")], input="".join("%s\t%s\t%s\n" % (n, ft, fp) for n, ft, fp, _ in pending), capture_output=True, text=True, env=env, timeout=150 * len(pending) + 300, cwd=tmpdir)
            started = None
            for line in p.stdout.splitlines():
                if line.startswith("START "):
                    started = line[6:]
                elif line.startswith("END "):
                    n, _, oc = line[4:].partition("\t")
                    outcomes[n] = oc
                    started = None
            if started is not None and started not in outcomes:
                outcomes[started] = "INTERPRETER DIED (exit code %s)" % p.returncode
            done = set(outcomes)
            remaining = [c for c in pending if c[0] not in done]
            if len(remaining) == len(pending):
                # the driver did not even start a case: report and stop
                fail("driver-did-not-run", (p.stderr or "")[-200:])
                break
            pending = remaining
            restarts += 1
        for name, oc in sorted(outcomes.items()):
            fam = name.split(":")[0]
            if oc.startswith("INTERPRETER DIED"):
                fail("%s:interpreter-crashed" % name, oc)
            elif oc == "TIMEOUT":
                fail("%s:does-not-finish-within-10s-of-cpu-time" % name, oc)
            elif oc.startswith("NON-ORDINARY"):
                fail("%s:%s" % (name, oc), oc)
            elif oc == "raised MemoryError":
                fail("%s:memory-out-of-proportion (MemoryError under a 4 GiB limit)" % name, oc)
            elif oc.startswith("returned") and expect.get(name) and name.startswith("glb:"):
                # (constructed so that the declared layout needs more bytes than the view has)
                fail("%s:returns-geometry-that-is-not-in-the-file" % name, oc)
            elif oc.startswith("returned") and " vertices" in oc:
                # lenient parsers may return what IS there; more coordinates than the file can
                # hold (4 bytes per binary float, one token per text number) cannot be in it
                nv = int(oc.split(" vertices")[0].split()[-1])
                size = sizes.get(name, (0, 0))
                if nv * 3 > max(size[0] // 4, size[1]):
                    fail("%s:returns-more-coordinates-than-the-file-holds" % name, oc)
            elif name.endswith("valid") or name.endswith("valid-components"):
                if not oc.startswith("returned"):
                    fail("%s:valid-control-case-rejected (%s)" % (fam, name), oc)
        n = len(cases)
    finally:
        shutil.rmtree(tmpdir, ignore_errors=True)
    fails = sorted(cells.values(), key=lambda c: c["cell"])
    r = common.result(n, n, fails, "%d structured corruptions, one interpreter per crash" % n, exhaustive=True)
    r["failures"] = fails
    return r
