"""
C13 — Voxel encodings are interchangeable and run-length codecs lossless.

Abstract view: dec(brle)[p] = parity of the run that contains position p; dec(rle)[p] = the
value of the run that contains p.  "Lossless" = same total length and the same value at
EVERY position p (p is a universally quantified integer, skolemised).

(a) loop programs and slicing codecs on run lists of fixed small length with EVERY
    non-negative integer count (bounded shape, unbounded values): merge_brle_lengths,
    rle_to_brle, merge_rle_lengths, brle_to_brle, rle_to_rle, brle_to_rle, brle_logical_not,
    brle_reverse, rle_reverse, brle_strip, rle_strip, brle_length, rle_length,
    split_long_brle_lengths / split_long_rle_lengths (uint8, counts below 3*255 by case split).
(b) lazy index maps (flip / transpose / reshape / flatten): _to_base_indices and
    _from_base_indices are mutually inverse and address the element numpy's flip /
    transpose / reshape would, for every integer index inside the shape (symbolic indices,
    concrete small shapes).
(c) VoxelGrid index<->point maps inverse for every integer index and every real affine
    transform.
(d) bounded: every boolean array of total size <= 8 in shapes (8,), (2,4), (2,2,2), (1,6)...
    through every encoding class and every lazy view against the dense numpy array, all
    reads; run-length codecs for every sequence up to length 9 over {0,1,2} and every
    count dtype with runs at max-1, max, max+1 (uint8); binvox export/reload.
"""
import itertools

import numpy as rnp

from contracts import common
from pyvc import core
from pyvc.engine import bounded, contract

RL = "trimesh.voxel.runlength"
ENC = "trimesh.voxel.encoding"

META = {
    "level": "proof",
    "assumptions": [
        "(a) run lists have a fixed small number of runs (1..5); counts are arbitrary non-negative integers (for the split functions: below 3*255 with dtype uint8)",
        "generator-based codecs (rle_mask, brle_mask, sorted_*_gather_1d) and the dense<->run-length converters (np.repeat with data-dependent output length) are covered by the exhaustive bounded tier only",
        "int64 counts treated as mathematical integers (T4)",
    ],
    "trusted_base": ["pyvc (T1)", "z3 (T2)"],
}


# ----------------------------------------------------------------------------- spec: value at a position


def _lst(x):
    """python list of the elements of a 1-d array / list (symbolic or concrete)"""
    if isinstance(x, (list, tuple)):
        return list(x)
    a = rnp.asarray(x) if not hasattr(x, "view") else x.view(rnp.ndarray)
    out = [a[i] for i in range(a.shape[0])]
    # machine integers of the real arrays become Python ints (the spec adds them up)
    return [int(e) if isinstance(e, rnp.integer) else (bool(e) if isinstance(e, rnp.bool_) else e) for e in out]


def total(L):
    t = 0
    for c in L:
        t = t + c
    return t


def brle_at(h, L, p):
    """value (as a 0/1 term or bool) of dec_brle(L) at position p (meaningful for 0<=p<total)"""
    acc = 0
    val = False
    for j, c in enumerate(L):
        lo = acc
        acc = acc + c
        inside = h.all([lo <= p, p < acc])
        val = h.ite(inside, (j % 2) == 1, val) if h.mode == "sym" else ((j % 2) == 1 if inside else val)
    return val


def rle_at(h, V, C, p):
    acc = 0
    val = 0
    for v, c in zip(V, C):
        lo = acc
        acc = acc + c
        inside = h.all([lo <= p, p < acc])
        val = h.ite(inside, v, val) if h.mode == "sym" else (v if inside else val)
    return val


def same_bool(h, a, b):
    if h.mode == "sym":
        return core._mkbool(core.tobool(a) == core.tobool(b))
    return bool(a) == bool(b)


def nonneg(h, L):
    h.assume([c >= 0 for c in L])


def position(h, tot):
    p = h.int("p")
    h.assume([p >= 0, p < tot])
    return p


def _positions(h, tot):
    """symbolically ONE skolem position; on replay every position"""
    if h.mode == "sym":
        return [position(h, tot)]
    return list(range(int(tot)))


def forall_pos(h, tot, fn):
    return h.all([fn(p) for p in _positions(h, tot)])


# ----------------------------------------------------------------------------- (a) run-length programs

LENS = (1, 2, 3, 4, 5)


def _each(n_values, mk):
    for n in n_values:
        mk(n)


def _mk_merge_brle(n):
    @contract("C13", RL + ".merge_brle_lengths", name="lossless[n=%d]" % n, kind="bounded-shape", note="%d runs, every non-negative count" % n)
    def merge_brle(h):
        L = h.ints("c", n)
        Ls = _lst(L)
        nonneg(h, Ls)
        out = _lst(h.fn(RL + ".merge_brle_lengths")(L))
        tot = total(Ls)
        h.check("same-length", h.exact(total(out), tot))
        h.check("same-value-everywhere", forall_pos(h, tot, lambda p: same_bool(h, brle_at(h, out, p), brle_at(h, Ls, p))))


_each(LENS, _mk_merge_brle)


def _mk_rle_to_brle(n):
    @contract("C13", RL + ".rle_to_brle", name="lossless[n=%d]" % n, kind="bounded-shape", raises=(ValueError,), note="%d (value,count) pairs, values 0/1 and any other value, every count" % n)
    def rle_to_brle(h):
        R = h.ints("r", 2 * n)
        Rs = _lst(R)
        V, C = Rs[0::2], Rs[1::2]
        nonneg(h, C)
        valid = h.all([h.any([v == 0, v == 1]) for v in V])
        try:
            out = h.fn(RL + ".rle_to_brle")(R)
            raised = False
        except ValueError:
            raised = True
        h.check("raises-iff-a-value-is-not-0/1", same_bool(h, raised, h.not_(valid)) if h.mode == "sym" else raised == (not valid))
        if raised:
            return
        out = _lst(out)
        tot = total(C)
        h.check("even-length", len(out) % 2 == 0)
        h.check("same-length", h.exact(total(out), tot))
        h.check("same-value-everywhere", forall_pos(h, tot, lambda p: same_bool(h, brle_at(h, out, p), rle_at(h, V, C, p) == 1)))


_each((1, 2, 3, 4), _mk_rle_to_brle)


def _mk_merge_rle(n):
    @contract("C13", RL + ".merge_rle_lengths", name="lossless[n=%d]" % n, kind="bounded-shape", note="%d runs, every integer value and non-negative count" % n)
    def merge_rle(h):
        V = h.ints("v", n)
        C = h.ints("c", n)
        Vs, Cs = _lst(V), _lst(C)
        nonneg(h, Cs)
        ov, oc = h.fn(RL + ".merge_rle_lengths")(V, C)
        ov, oc = _lst(ov), _lst(oc)
        tot = total(Cs)
        h.check("same-length", h.exact(total(oc), tot))
        h.check("same-value-everywhere", forall_pos(h, tot, lambda p: h.exact(rle_at(h, ov, oc, p), rle_at(h, Vs, Cs, p))))
        h.check("no-empty-run", h.all([c > 0 for c in oc]))
        h.check("adjacent-values-differ", h.all([h.not_(a == b) for a, b in zip(ov, ov[1:])]))


_each(LENS, _mk_merge_rle)


def _mk_not(n):
    @contract("C13", RL + ".brle_logical_not", name="negation[n=%d]" % n, kind="bounded-shape", note="%d runs, every non-negative count" % n)
    def brle_not(h):
        L = h.ints("c", n)
        Ls = _lst(L)
        nonneg(h, Ls)
        out = _lst(h.fn(RL + ".brle_logical_not")(L))
        tot = total(Ls)
        h.check("same-length", h.exact(total(out), tot))
        h.check("negated-everywhere", forall_pos(h, tot, lambda p: same_bool(h, brle_at(h, out, p), h.not_(brle_at(h, Ls, p)))))


_each(LENS, _mk_not)


def _mk_brle_reverse(n):
    @contract("C13", RL + ".brle_reverse", name="reversal[n=%d]" % n, kind="bounded-shape", note="%d runs, every non-negative count" % n)
    def brle_reverse(h):
        L = h.ints("c", n)
        Ls = _lst(L)
        nonneg(h, Ls)
        out = _lst(h.fn(RL + ".brle_reverse")(L))
        tot = total(Ls)
        h.check("same-length", h.exact(total(out), tot))
        h.check("mirrored-everywhere", forall_pos(h, tot, lambda p: same_bool(h, brle_at(h, out, p), brle_at(h, Ls, tot - 1 - p))))


_each(LENS, _mk_brle_reverse)


def _mk_rle_reverse(n):
    @contract("C13", RL + ".rle_reverse", name="reversal[n=%d]" % n, kind="bounded-shape", note="%d runs" % n)
    def rle_reverse(h):
        R = h.ints("r", 2 * n)
        Rs = _lst(R)
        V, C = Rs[0::2], Rs[1::2]
        nonneg(h, C)
        out = _lst(h.fn(RL + ".rle_reverse")(R))
        ov, oc = out[0::2], out[1::2]
        tot = total(C)
        h.check("same-length", h.exact(total(oc), tot))
        h.check("mirrored-everywhere", forall_pos(h, tot, lambda p: h.exact(rle_at(h, ov, oc, p), rle_at(h, V, C, tot - 1 - p))))


_each((1, 2, 3, 4), _mk_rle_reverse)


def _mk_brle_strip(n):
    @contract("C13", RL + ".brle_strip", name="strip[n=%d]" % n, kind="bounded-shape", note="%d runs, every non-negative count, at least one True element" % n)
    def brle_strip(h):
        L = h.ints("c", n)
        Ls = _lst(L)
        nonneg(h, Ls)
        # a non-empty array (the all-False case is handled by the callers: Encoding.stripped)
        h.assume(h.any([c > 0 for c in Ls[1::2]]) if len(Ls) > 1 else False)
        out, (start, end) = h.fn(RL + ".brle_strip")(L)
        out = _lst(out)
        tot = total(Ls)
        olen = total(out)
        h.check("padding-adds-up", h.exact(start + olen + end, tot))
        h.check("padding-non-negative", h.all([start >= 0, end >= 0]))
        h.check("inside-unchanged", forall_pos(h, tot, lambda p: h.implies(h.all([p >= start, p < start + olen]), same_bool(h, brle_at(h, out, p - start), brle_at(h, Ls, p)))))
        h.check("outside-all-false", forall_pos(h, tot, lambda p: h.implies(h.any([p < start, p >= start + olen]), h.not_(brle_at(h, Ls, p)))))
        h.check("first-and-last-true", h.all([brle_at(h, out, 0), brle_at(h, out, olen - 1)]) if h.mode == "sym" else (bool(brle_at(h, out, 0)) and bool(brle_at(h, out, olen - 1))))


_each((2, 3, 4, 5), _mk_brle_strip)


def _mk_rle_strip(n):
    @contract("C13", RL + ".rle_strip", name="strip[n=%d]" % n, kind="bounded-shape", note="%d runs, every value and non-negative count, at least one non-zero element" % n)
    def rle_strip(h):
        R = h.ints("r", 2 * n)
        Rs = _lst(R)
        V, C = Rs[0::2], Rs[1::2]
        nonneg(h, C)
        h.assume(h.any([h.all([h.not_(v == 0), c > 0]) for v, c in zip(V, C)]))
        out, (start, end) = h.fn(RL + ".rle_strip")(R)
        out = _lst(out)
        ov, oc = out[0::2], out[1::2]
        tot = total(C)
        olen = total(oc)
        h.check("padding-adds-up", h.exact(start + olen + end, tot))
        h.check("inside-unchanged", forall_pos(h, tot, lambda p: h.implies(h.all([p >= start, p < start + olen]), h.exact(rle_at(h, ov, oc, p - start), rle_at(h, V, C, p)))))
        h.check("outside-all-zero", forall_pos(h, tot, lambda p: h.implies(h.any([p < start, p >= start + olen]), rle_at(h, V, C, p) == 0)))
        h.check("first-and-last-nonzero", h.all([h.not_(rle_at(h, ov, oc, 0) == 0), h.not_(rle_at(h, ov, oc, olen - 1) == 0)]))


_each((1, 2, 3, 4), _mk_rle_strip)


def _mk_lengths(n):
    @contract("C13", RL + ".brle_length", name="length[n=%d]" % n, kind="bounded-shape", note="%d runs" % n)
    def lengths(h):
        L = h.ints("c", 2 * n)
        Ls = _lst(L)
        h.check("brle_length=sum-of-runs", h.exact(h.fn(RL + ".brle_length")(L), total(Ls)))
        h.check("rle_length=sum-of-counts", h.exact(h.fn(RL + ".rle_length")(L), total(Ls[1::2])))


_each((1, 2, 3), _mk_lengths)


def _mk_brle_to_rle(n):
    @contract("C13", RL + ".brle_to_rle", name="lossless[n=%d]" % n, kind="bounded-shape", note="%d runs, every non-negative count below 2^62 (no splitting for int64)" % n)
    def brle_to_rle(h):
        L = h.ints("c", n)
        Ls = _lst(L)
        nonneg(h, Ls)
        h.assume([c < 2**62 for c in Ls])
        out = _lst(h.fn(RL + ".brle_to_rle")(L))
        ov, oc = out[0::2], out[1::2]
        tot = total(Ls)
        h.check("same-length", h.exact(total(oc), tot))
        h.check("same-value-everywhere", forall_pos(h, tot, lambda p: same_bool(h, h.not_(rle_at(h, ov, oc, p) == 0), brle_at(h, Ls, p))))


_each((1, 2, 3, 4), _mk_brle_to_rle)


def _mk_split_brle(n):
    @contract("C13", RL + ".split_long_brle_lengths", name="uint8[n=%d]" % n, kind="bounded-shape", max_paths=3000, note="%d runs, every count in [0, 3*255) by case split on the quotient; dtype uint8" % n)
    def split_brle(h):
        L = h.ints("c", n)
        Ls = _lst(L)
        nonneg(h, Ls)
        h.assume([c < 3 * 255 for c in Ls])
        out = _lst(h.fn(RL + ".split_long_brle_lengths")(L, dtype=rnp.uint8))
        tot = total(Ls)
        h.check("every-count-fits-uint8", h.all([h.all([c >= 0, c <= 255]) for c in out]))
        h.check("same-length", h.exact(total(out), tot))
        h.check("same-value-everywhere", forall_pos(h, tot, lambda p: same_bool(h, brle_at(h, out, p), brle_at(h, Ls, p))))


_each((1, 2, 3), _mk_split_brle)


def _mk_split_rle(n):
    @contract("C13", RL + ".split_long_rle_lengths", name="uint8[n=%d]" % n, kind="bounded-shape", max_paths=3000, note="%d runs, every value, every count in [0, 3*255) by case split on the quotient; dtype uint8" % n)
    def split_rle(h):
        V = h.ints("v", n)
        C = h.ints("c", n)
        Vs, Cs = _lst(V), _lst(C)
        nonneg(h, Cs)
        h.assume([c < 3 * 255 for c in Cs])
        ov, oc = h.fn(RL + ".split_long_rle_lengths")(V, C, dtype=rnp.uint8)
        ov, oc = _lst(ov), _lst(oc)
        tot = total(Cs)
        h.check("every-count-fits-uint8", h.all([h.all([c >= 0, c <= 255]) for c in oc]))
        h.check("same-length", h.exact(total(oc), tot))
        h.check("same-value-everywhere", forall_pos(h, tot, lambda p: h.exact(rle_at(h, ov, oc, p), rle_at(h, Vs, Cs, p))))


_each((1, 2, 3), _mk_split_rle)


# ----------------------------------------------------------------------------- (b) lazy index maps


def _sym_indices(h, shape, k=2, name="i"):
    I = h.ints(name, (k, len(shape)))
    h.assume([h.all([I[r, a] >= 0, I[r, a] < shape[a]]) for r in range(k) for a in range(len(shape))])
    return I


def _dense_base(h, shape):
    n = 1
    for s in shape:
        n *= s
    d = rnp.arange(n).reshape(shape)
    return h.module(ENC).DenseEncoding(d)


FLIPS = [((4,), (0,)), ((2, 3), (0,)), ((2, 3), (1,)), ((2, 3), (0, 1)), ((2, 3, 2), (1,)), ((2, 3, 2), (0, 2)), ((2, 3, 2), (0, 1, 2))]


def _mk_flip(shape, axes):
    @contract("C13", ENC + ".FlippedEncoding", name="index-map[shape=%s,axes=%s]" % ("x".join(map(str, shape)), ",".join(map(str, axes))), kind="bounded-shape", note="every integer index inside the shape (symbolic), two index rows")
    def flipped(h):
        e = h.module(ENC).FlippedEncoding(_dense_base(h, shape), axes)
        I = _sym_indices(h, shape)
        B = e._to_base_indices(I)
        want = [[(shape[a] - 1 - I[r, a]) if a in axes else I[r, a] for a in range(len(shape))] for r in range(2)]
        h.check("to-base=numpy-flip", h.exact(B, want))
        h.check("base-index-in-range", h.all([h.all([B[r, a] >= 0, B[r, a] < shape[a]]) for r in range(2) for a in range(len(shape))]))
        h.check("from-base-inverse", h.exact(e._from_base_indices(B), I))
        h.check("shape", tuple(e.shape) == tuple(shape))


for _shape, _axes in FLIPS:
    _mk_flip(_shape, _axes)

PERMS = [((2, 3), (1, 0)), ((2, 3, 4), (1, 2, 0)), ((2, 3, 4), (2, 0, 1)), ((2, 3, 4), (0, 2, 1)), ((2, 3, 4), (2, 1, 0))]


def _mk_transpose(shape, perm):
    @contract("C13", ENC + ".TransposedEncoding", name="index-map[shape=%s,perm=%s]" % ("x".join(map(str, shape)), ",".join(map(str, perm))), kind="bounded-shape", note="every integer index inside the transposed shape (symbolic), two index rows")
    def transposed(h):
        e = h.module(ENC).TransposedEncoding(_dense_base(h, shape), perm)
        tshape = tuple(shape[p] for p in perm)
        h.check("shape", tuple(e.shape) == tshape)
        I = _sym_indices(h, tshape)
        B = e._to_base_indices(I)
        # numpy: transpose(a, perm)[i] = a[j] with j[perm[k]] = i[k]
        h.check("to-base=numpy-transpose", h.all([h.exact(B[r, perm[k]], I[r, k]) for r in range(2) for k in range(len(shape))]))
        h.check("from-base-inverse", h.exact(e._from_base_indices(B), I))


for _shape, _perm in PERMS:
    _mk_transpose(_shape, _perm)


def _mk_transpose_twice(shape, p1, p2):
    @contract("C13", ENC + ".TransposedEncoding.transpose", name="composition[shape=%s,%s then %s]" % ("x".join(map(str, shape)), ",".join(map(str, p1)), ",".join(map(str, p2))), kind="bounded-shape", note="a transposed view of a transposed view addresses what numpy's transpose(p1).transpose(p2) does; every integer index (symbolic)")
    def transposed_twice(h):
        mod = h.module(ENC)
        # a lazy base (run-length data reshaped), so that both transposes stay lazy
        n = 1
        for s_ in shape:
            n *= s_
        base = mod.ShapedEncoding(mod.RunLengthEncoding.from_dense(rnp.arange(n)), shape)
        e = base.transpose(p1).transpose(p2)
        ref = rnp.arange(n).reshape(shape).transpose(p1).transpose(p2)
        h.check("shape", tuple(e.shape) == ref.shape)
        # the combined permutation q with result axis k = base axis q[k]
        q = [p1[p2[k]] for k in range(len(shape))]
        if not isinstance(e, mod.TransposedEncoding):
            h.check("identity-composition-returns-the-base", q == list(range(len(shape))))
            return
        I = _sym_indices(h, ref.shape)
        B = e._to_base_indices(I)
        h.check("to-base=numpy-double-transpose", h.all([h.exact(B[r, q[k]], I[r, k]) for r in range(2) for k in range(len(shape))]))
        h.check("from-base-inverse", h.exact(e._from_base_indices(B), I))


for _p1, _p2 in (((0, 2, 1), (1, 0, 2)), ((1, 2, 0), (0, 2, 1)), ((2, 0, 1), (2, 0, 1)), ((1, 0, 2), (1, 2, 0)), ((1, 2, 0), (2, 0, 1))):
    _mk_transpose_twice((2, 3, 4), _p1, _p2)

RESHAPES = [((6,), (2, 3)), ((2, 3), (3, 2)), ((2, 3, 2), (4, 3)), ((12,), (2, 3, 2))]


def _mk_reshape(shape, new):
    @contract("C13", ENC + ".ShapedEncoding", name="index-map[%s->%s]" % ("x".join(map(str, shape)), "x".join(map(str, new))), kind="bounded-shape", note="every integer index inside the new shape (symbolic), two index rows")
    def shaped(h):
        base = _dense_base(h, shape)
        e = h.module(ENC).ShapedEncoding(base, new)
        h.check("shape", tuple(e.shape) == tuple(new))
        I = _sym_indices(h, new)
        st = []
        acc = 1
        for d in reversed(new):
            st.append(acc)
            acc *= d
        st = st[::-1]
        flat = [sum([I[r, a] * st[a] for a in range(len(new))]) for r in range(2)]
        # the position in the flattened base
        B = e._to_base_indices(I)
        h.check("to-base=row-major-offset", h.all([h.exact(B[r, 0], flat[r]) for r in range(2)]))
        h.check("from-base-inverse", h.exact(e._from_base_indices(B[:, 0]), I))
        # flattened view of the original: offset -> multi index of the original shape
        f = h.module(ENC).FlattenedEncoding(base)
        if len(shape) > 1:
            F = h.ints("f", (2,))
            n = acc
            h.assume([h.all([F[r] >= 0, F[r] < n]) for r in range(2)])
            M = f._to_base_indices(F)
            st0 = []
            a0 = 1
            for d in reversed(shape):
                st0.append(a0)
                a0 *= d
            st0 = st0[::-1]
            h.check("flat-to-base=unravel", h.all([h.exact(sum([M[r, a] * st0[a] for a in range(len(shape))]), F[r]) for r in range(2)] + [h.all([M[r, a] >= 0, M[r, a] < shape[a]]) for r in range(2) for a in range(len(shape))]))
            h.check("flat-from-base-inverse", h.exact(f._from_base_indices(M)[:, 0], F))


for _shape, _new in RESHAPES:
    _mk_reshape(_shape, _new)


# ----------------------------------------------------------------------------- (d) bounded tier on the real classes


def _enc_family(d):
    from trimesh.voxel import encoding as E

    flat = d.reshape(-1)
    out = [("Dense", E.DenseEncoding(d.copy()))]
    if d.ndim == 3:
        # SparseEncoding asserts three index columns; other ranks are one separate cell
        out.append(("Sparse", E.SparseEncoding.from_dense(d)))
    r = E.RunLengthEncoding.from_dense(flat)
    out.append(("RLE", r if d.ndim == 1 else r.reshape(d.shape)))
    if d.dtype == bool:
        b = E.BinaryRunLengthEncoding.from_dense(flat)
        out.append(("BRLE", b if d.ndim == 1 else b.reshape(d.shape)))
    return out


def _views(e, ref):
    """(name, thunk) pairs building a lazy view and the numpy array it must equal"""
    nd = ref.ndim
    vs = [("id", lambda: (e, ref))]
    for a in range(nd):
        vs.append(("flip%d" % a, lambda a=a: (e.flip(a), rnp.flip(ref, a))))
    if nd > 1:
        vs.append(("flipall", lambda: (e.flip(tuple(range(nd))), rnp.flip(ref, tuple(range(nd))))))
        for perm in itertools.permutations(range(nd)):
            if perm != tuple(range(nd)):
                vs.append(("T%s" % "".join(map(str, perm)), lambda perm=perm: (e.transpose(perm), ref.transpose(perm))))
        if nd == 3:
            # a transposed view of a transposed view (non-commuting permutations)
            for p1, p2 in (((0, 2, 1), (1, 0, 2)), ((1, 2, 0), (0, 2, 1)), ((2, 0, 1), (2, 0, 1)), ((1, 0, 2), (1, 2, 0))):
                vs.append(("T%s.T%s" % ("".join(map(str, p1)), "".join(map(str, p2))), lambda p1=p1, p2=p2: (e.transpose(p1).transpose(p2), ref.transpose(p1).transpose(p2))))
        vs.append(("flat", lambda: (e.flat, ref.reshape(-1))))
        vs.append(("T.flip0", lambda: (e.transpose(tuple(reversed(range(nd)))).flip(0), rnp.flip(ref.transpose(tuple(reversed(range(nd)))), 0))))
        vs.append(("flip0.T", lambda: (e.flip(0).transpose(tuple(reversed(range(nd)))), rnp.flip(ref, 0).transpose(tuple(reversed(range(nd)))))))
    if ref.size % 2 == 0 and ref.size >= 2:
        vs.append(("reshape", lambda: (e.reshape((2, ref.size // 2)), ref.reshape((2, ref.size // 2)))))
    return vs


def _reads(v, ref, rng):
    """(read name, ok?) for every read of the statement"""
    out = []

    def t(name, f):
        try:
            ok = bool(f())
            out.append((name, ok, None if ok else "wrong value"))
        except Exception as ex:  # noqa: BLE001
            out.append((name, False, "%s: %s" % (type(ex).__name__, str(ex)[:100])))

    t("dense", lambda: rnp.array_equal(rnp.asarray(v.dense), ref) and rnp.asarray(v.dense).shape == ref.shape)
    t("shape", lambda: tuple(int(s) for s in v.shape) == ref.shape)
    t("size", lambda: int(v.size) == ref.size)
    t("sum", lambda: int(v.sum) == int(ref.sum()))
    t("is_empty", lambda: bool(v.is_empty) == (not ref.any()))

    def sparse():
        idx = rnp.asarray(v.sparse_indices)
        vals = rnp.asarray(v.sparse_values).reshape(-1)
        if idx.ndim == 1:
            idx = idx.reshape(-1, 1)
        got = {}
        for i, val in zip(idx.tolist(), vals.tolist()):
            if val != 0:
                got[tuple(i)] = val
        want = {tuple(i): ref[tuple(i)].item() for i in rnp.column_stack(rnp.nonzero(ref)).tolist()}
        return got == want and len(idx) == len(vals)

    t("sparse_indices+values", sparse)

    def gather():
        allidx = rnp.array(list(rnp.ndindex(*ref.shape)), dtype=rnp.int64).reshape(-1, ref.ndim)
        if len(allidx) == 0:
            return True
        pick = rng.integers(0, len(allidx), size=min(7, 2 * len(allidx)))  # unsorted, repeated
        idx = allidx[pick]
        return rnp.array_equal(rnp.asarray(v.gather_nd(idx)).reshape(-1), ref[tuple(idx.T)].reshape(-1))

    t("gather_nd", gather)

    def mask():
        m = rng.random(ref.shape) < 0.5
        return rnp.array_equal(rnp.asarray(v.mask(m)).reshape(-1), ref[m])

    t("mask", mask)

    def get_value():
        idx = tuple(int(rng.integers(0, s)) for s in ref.shape)
        return v.get_value(idx) == ref[idx]

    if ref.size:
        t("get_value", get_value)

    def stripped():
        s, pad = v.stripped
        pad = rnp.asarray(pad)
        if not ref.any():
            return rnp.asarray(s.dense).size == 0 or not rnp.asarray(s.dense).any()
        nz = rnp.nonzero(ref)
        sl = tuple(slice(int(a.min()), int(a.max()) + 1) for a in nz)
        want_pad = [[int(a.min()), ref.shape[k] - int(a.max()) - 1] for k, a in enumerate(nz)]
        return rnp.array_equal(rnp.asarray(s.dense), ref[sl]) and pad.tolist() == want_pad

    t("stripped", stripped)

    def copy():
        c = v.copy()
        return rnp.array_equal(rnp.asarray(c.dense), ref) and c is not v

    t("copy", copy)
    if ref.ndim == 1:

        def rld():
            from trimesh.voxel import runlength as rl

            return rnp.array_equal(rl.rle_to_dense(v.run_length_data()), ref.astype(rnp.int64)) and (ref.dtype != bool or rnp.array_equal(rl.brle_to_dense(v.binary_run_length_data()), ref))

        t("run_length_data", rld)
    return out


def _arrays(tier):
    shapes = [(5,), (2, 3), (2, 2, 2)] if tier == "quick" else [(1,), (6,), (8,), (2, 3), (3, 2), (2, 4), (2, 2, 2), (1, 2, 3)]
    for sh in shapes:
        n = 1
        for s in sh:
            n *= s
        for bits in itertools.product((False, True), repeat=n):
            yield rnp.array(bits, dtype=bool).reshape(sh)
    # integer valued
    for sh in ([(4,), (2, 2), (1, 2, 2)] if tier == "quick" else [(5,), (2, 3), (1, 2, 3)]):
        n = 1
        for s in sh:
            n *= s
        for vals in itertools.product((0, 1, 2), repeat=n):
            yield rnp.array(vals, dtype=rnp.int64).reshape(sh)


@bounded("C13", name="real-code:encoding-reads", note="every boolean array of the listed shapes (and integer arrays over {0,1,2}) through Dense/Sparse/RLE/BRLE encodings and every lazy flip / transpose / flatten / reshape view, every read compared with the dense numpy array")
def encoding_reads(tier, seed):
    rng = rnp.random.default_rng(seed + 13)
    cases = 0
    cells = {}
    from trimesh.voxel import encoding as E

    for d in _arrays(tier):
        if d.ndim != 3 and d.any():
            cases += 1
            try:
                ok = rnp.array_equal(E.SparseEncoding.from_dense(d).dense, d)
                why = "wrong value"
            except Exception as ex:  # noqa: BLE001
                ok, why = False, "%s: %s" % (type(ex).__name__, str(ex)[:100])
            if not ok:
                key = "SparseEncoding[rank!=3]:dense"
                cells.setdefault(key, {"what": key, "cell": key, "error": why, "array": d.astype(int).tolist(), "count": 0})["count"] += 1
        for ename, e in _enc_family(d):
            for vname, mk in _views(e, d):
                try:
                    v, ref = mk()
                except Exception as ex:  # noqa: BLE001
                    cases += 1
                    key = "%s.%s:construct" % (ename, vname.rstrip("0123456789"))
                    cells.setdefault(key, {"what": key, "cell": key, "error": "%s: %s" % (type(ex).__name__, str(ex)[:100]), "array": d.astype(int).tolist(), "count": 0})["count"] += 1
                    continue
                for rname, ok, why in _reads(v, ref, rng):
                    cases += 1
                    if not ok:
                        key = "%s:%s" % (type(v).__name__, rname)
                        c = cells.setdefault(key, {"what": key, "cell": key, "error": why, "array": d.astype(int).tolist(), "base": ename, "view": vname, "count": 0})
                        c["count"] += 1
    fails = sorted(cells.values(), key=lambda c: c["cell"])
    r = common.result(cases, cases, fails, "all boolean arrays of shapes %s, integer arrays over {0,1,2}; 4 encodings x lazy views x 11 reads" % ("(5,),(2,3),(2,2,2)" if tier == "quick" else "(1,),(6,),(8,),(2,3),(3,2),(2,4),(2,2,2),(1,2,3)"), exhaustive=True)
    r["failures"] = fails  # one entry per (class, read) cell: do not truncate
    return r


@bounded("C13", name="real-code:runlength-codecs", note="every sequence over {0,1,2} up to length 7 and every boolean sequence up to length 9; count dtypes uint8..int64 with runs of length max-1, max, max+1, 2*max+1 (uint8); list and array inputs; gathers with unsorted / repeated / list indices; masks")
def runlength_codecs(tier, seed):
    from trimesh.voxel import runlength as rl

    rng = rnp.random.default_rng(seed + 131)
    cases = 0
    cells = {}

    def fail(key, detail):
        c = cells.setdefault(key, {"what": key, "cell": key, "detail": detail, "count": 0})
        c["count"] += 1

    def chk(key, f, detail):
        nonlocal cases
        cases += 1
        try:
            if not f():
                fail(key, detail)
        except Exception as ex:  # noqa: BLE001
            fail(key, "%s %s: %s" % (detail, type(ex).__name__, str(ex)[:100]))

    maxb = 9 if tier == "quick" else 11
    seqs = [rnp.array(b, dtype=bool) for n in range(1, maxb + 1) for b in itertools.product((False, True), repeat=n)]
    for d in seqs:
        for dt in (rnp.int64, rnp.uint8):
            chk("dense_to_brle/brle_to_dense", lambda: rnp.array_equal(rl.brle_to_dense(rl.dense_to_brle(d, dtype=dt)), d), str(d.astype(int).tolist()))
        b = rl.dense_to_brle(d)
        chk("brle_length", lambda: int(rl.brle_length(b)) == len(d), str(b.tolist()))
        chk("brle_logical_not", lambda: rnp.array_equal(rl.brle_to_dense(rl.brle_logical_not(b)), ~d), str(b.tolist()))
        chk("brle_reverse", lambda: rnp.array_equal(rl.brle_to_dense(rl.brle_reverse(b)), d[::-1]), str(b.tolist()))
        chk("brle_to_rle", lambda: rnp.array_equal(rl.rle_to_dense(rl.brle_to_rle(b)).astype(bool), d), str(b.tolist()))
        chk("brle_to_sparse", lambda: rnp.array_equal(rl.brle_to_sparse(b), rnp.flatnonzero(d)), str(b.tolist()))
        if d.any():

            def strip():
                s, (a, e) = rl.brle_strip(b)
                nz = rnp.flatnonzero(d)
                return rnp.array_equal(rl.brle_to_dense(s), d[nz[0] : nz[-1] + 1]) and (int(a), int(e)) == (int(nz[0]), len(d) - 1 - int(nz[-1]))

            chk("brle_strip", strip, str(b.tolist()))
        idx = rng.integers(0, len(d), size=5)
        chk("brle_gather_1d[array]", lambda: rnp.array_equal(rl.brle_gather_1d(b, idx), d[idx]), "%s at %s" % (b.tolist(), idx.tolist()))
        chk("brle_gather_1d[list]", lambda: rnp.array_equal(rl.brle_gather_1d(b.tolist(), idx.tolist()), d[idx]), "%s at %s" % (b.tolist(), idx.tolist()))
        m = rng.random(len(d)) < 0.5
        chk("brle_mask", lambda: list(rl.brle_mask(b, m)) == d[m].tolist(), "%s mask %s" % (b.tolist(), m.astype(int).tolist()))
        chk("sorted_brle_gather_1d", lambda: list(rl.sorted_brle_gather_1d(b, rnp.sort(idx))) == d[rnp.sort(idx)].tolist(), "%s at %s" % (b.tolist(), rnp.sort(idx).tolist()))
    maxi = 6 if tier == "quick" else 8
    iseqs = [rnp.array(b, dtype=rnp.int64) for n in range(1, maxi + 1) for b in itertools.product((0, 1, 2), repeat=n)]
    for d in iseqs:
        for dt in (rnp.int64, rnp.uint8):
            chk("dense_to_rle/rle_to_dense", lambda: rnp.array_equal(rl.rle_to_dense(rl.dense_to_rle(d, dtype=dt)), d), str(d.tolist()))
        r = rl.dense_to_rle(d)
        chk("rle_length", lambda: int(rl.rle_length(r)) == len(d), str(r.tolist()))
        chk("rle_reverse[array]", lambda: rnp.array_equal(rl.rle_to_dense(rl.rle_reverse(r)), d[::-1]), str(r.tolist()))
        chk("rle_reverse[list]", lambda: rnp.array_equal(rl.rle_to_dense(rl.rle_reverse(r.tolist())), d[::-1]), str(r.tolist()))

        def sparse():
            i, v = rl.rle_to_sparse(r)
            nz = rnp.flatnonzero(d)
            return rnp.array_equal(rnp.asarray(i, dtype=rnp.int64).reshape(-1), nz) and rnp.array_equal(rnp.asarray(v).reshape(-1), d[nz])

        chk("rle_to_sparse", sparse, str(r.tolist()))
        if d.any():

            def strip():
                s, (a, e) = rl.rle_strip(r)
                nz = rnp.flatnonzero(d)
                return rnp.array_equal(rl.rle_to_dense(s), d[nz[0] : nz[-1] + 1]) and (int(a), int(e)) == (int(nz[0]), len(d) - 1 - int(nz[-1]))

            chk("rle_strip", strip, str(r.tolist()))
        if set(d.tolist()) <= {0, 1}:
            chk("rle_to_brle", lambda: rnp.array_equal(rl.brle_to_dense(rl.rle_to_brle(r)), d.astype(bool)), str(r.tolist()))
        idx = rng.integers(0, len(d), size=5)
        chk("rle_gather_1d[array]", lambda: rnp.array_equal(rl.rle_gather_1d(r, idx), d[idx]), "%s at %s" % (r.tolist(), idx.tolist()))
        chk("rle_gather_1d[list]", lambda: rnp.array_equal(rl.rle_gather_1d(r.tolist(), idx.tolist()), d[idx]), "%s at %s" % (r.tolist(), idx.tolist()))
        m = rng.random(len(d)) < 0.5
        chk("rle_mask", lambda: list(rl.rle_mask(r, m)) == d[m].tolist(), "%s mask %s" % (r.tolist(), m.astype(int).tolist()))
    # long runs against every count width
    for dt in (rnp.uint8, rnp.int8, rnp.uint16, rnp.int16) + ((rnp.int32, rnp.int64) if tier == "thorough" else ()):
        mx = int(rnp.iinfo(dt).max)
        if mx > 70000:
            runs_list = [[3, 70000, 2]]
        else:
            runs_list = [[mx - 1], [mx], [mx + 1], [2 * mx], [2 * mx + 1], [3, mx, 2], [2, mx + 1, mx, 1], [mx + 1, mx + 1], [0, mx + 5, 1]]
        for runs in runs_list:
            d = rl.brle_to_dense(rnp.array(runs))
            chk("long-runs:dense_to_brle[%s]" % rnp.dtype(dt).name, lambda: rnp.array_equal(rl.brle_to_dense(rl.dense_to_brle(d, dtype=dt)), d) and rl.dense_to_brle(d, dtype=dt).dtype == dt, str(runs))
            chk("long-runs:dense_to_rle[%s]" % rnp.dtype(dt).name, lambda: rnp.array_equal(rl.rle_to_dense(rl.dense_to_rle(d.astype(rnp.int64) * 7, dtype=dt)), d.astype(rnp.int64) * 7), str(runs))
            chk("long-runs:brle_to_brle[%s]" % rnp.dtype(dt).name, lambda: rnp.array_equal(rl.brle_to_dense(rl.brle_to_brle(rnp.array(runs), dtype=dt)), d), str(runs))
            chk("long-runs:merge(split)[%s]" % rnp.dtype(dt).name, lambda: rnp.array_equal(rl.brle_to_dense(rnp.array(rl.merge_brle_lengths(rl.split_long_brle_lengths(runs, dtype=dt)))), d), str(runs))
    fails = sorted(cells.values(), key=lambda c: c["cell"])
    r = common.result(cases, cases, fails, "boolean sequences up to length %d, sequences over {0,1,2} up to length %d, long runs at the limits of every count dtype" % (maxb, maxi), exhaustive=True)
    r["failures"] = fails
    return r


# ----------------------------------------------------------------------------- (c) voxel grid index <-> point maps

VT = "trimesh.voxel.transforms"
OPS = "trimesh.voxel.ops"


@contract("C13", OPS + ".points_to_indices", name="inverse-of-indices_to_points", timeout=60000)
def ops_index_point_roundtrip(h):
    """pitch/origin form: every integer index, every pitch != 0, every origin"""
    I = h.ints("i", (2, 3))
    pitch = h.real("pitch")
    origin = h.reals("o", 3)
    h.assume(h.any([pitch > 1e-9, pitch < -1e-9]) if h.mode == "sym" else abs(pitch) > 1e-9)
    P = h.fn(OPS + ".indices_to_points")(I, pitch=pitch, origin=origin)
    h.check("points=index*pitch+origin", h.all([h.eq(P[r, k], I[r, k] * pitch + origin[k]) for r in range(2) for k in range(3)]))
    J = h.fn(OPS + ".points_to_indices")(P, pitch=pitch, origin=origin)
    h.check("round-trip", h.exact(J, I))


def _mk_transform(with_inverse):
    @contract("C13", VT + ".Transform", name="transform-then-inverse[scale+translate]" if with_inverse else "transform_points[scale+translate]", timeout=120000, tier="thorough" if with_inverse else "quick")
    def transform_roundtrip(h):
        _transform_roundtrip(h, with_inverse)


def _transform_roundtrip(h, with_inverse):
    """VoxelGrid.points_to_indices(indices_to_points(i)) = i for the axis-aligned transforms
    voxel grids are created with: diag(s) + t, s != 0"""
    s = h.reals("s", 3)
    t = h.reals("t", 3)
    I = h.ints("i", (1, 3))
    h.assume([h.any([s[k] > 1e-6, s[k] < -1e-6]) if h.mode == "sym" else abs(s[k]) > 1e-6 for k in range(3)])
    # away from the identity shortcut (matrices within 1e-8 of I are applied as I: slack)
    h.assume(h.any([abs(s[k] - 1.0) > 1e-6 for k in range(3)] + [abs(t[k]) > 1e-6 for k in range(3)]))
    np = h.np
    M = (np.array(np.eye(4)) if h.mode == "sym" else rnp.eye(4)).copy()
    for k in range(3):
        M[k, k] = s[k]
        M[k, 3] = t[k]
    T = h.module(VT).Transform(M)
    from pyvc.engine import Ghost

    grid = Ghost(_transform=T)
    VG = "trimesh.voxel.base.VoxelGrid"
    # the real VoxelGrid methods on a ghost grid that only has its transform
    P = h.method(VG + ".indices_to_points")(grid, I)
    h.check("points=M.i", h.all([h.eq(P[0, k], s[k] * I[0, k] + t[k]) for k in range(3)]))
    h.check("unit_volume=det", h.eq(T.unit_volume, s[0] * s[1] * s[2]))
    if not with_inverse:
        return
    X = T.inverse_matrix
    # hints: the inverse of diag(s)+t is diag(1/s) - t/s (each follows from M.X = X.M = I)
    h.check("lemma:inverse-off-diagonal-zero", h.all([h.eq(X[r, c], 0.0) for r in range(3) for c in range(3) if r != c]), lemma=True)
    h.check("lemma:inverse-diagonal", h.all([h.eq(X[k, k] * s[k], 1.0) for k in range(3)]), lemma=True)
    h.check("lemma:inverse-translation", h.all([h.eq(X[k, 3] * s[k], -t[k]) for k in range(3)]), lemma=True)
    B = T.inverse_transform_points(P)
    h.check("inverse-restores", h.all([h.eq(B[0, k] * s[k], I[0, k] * s[k]) for k in range(3)]), lemma=True)
    h.check("inverse-restores'", h.all([h.eq(B[0, k], I[0, k]) for k in range(3)]), lemma=True)
    h.check("round-to-index", h.exact(np.round(B).astype(int), I))
    # VoxelGrid.points_to_indices itself: the centre of cell i maps back to i (negative indices
    # included), and so does every point less than half a cell away from it
    J = h.method(VG + ".points_to_indices")(grid, P)
    h.check("VoxelGrid.points_to_indices(indices_to_points(i))=i", h.exact(J, I))
    d = h.reals("d", 3)
    h.assume([h.all([d[k] > -0.49, d[k] < 0.49]) for k in range(3)] if h.mode == "sym" else all(abs(x) < 0.49 for x in d))
    Q = P.copy() if h.mode != "sym" else np.array([[P[0, k] for k in range(3)]])
    for k in range(3):
        Q[0, k] = P[0, k] + d[k] * s[k]
    J2 = h.method(VG + ".points_to_indices")(grid, Q)
    h.check("points-within-half-a-cell-map-to-the-same-cell", h.exact(J2, I))


_mk_transform(False)
_mk_transform(True)


def _mk_fixed_transform(tag, sc, tr):
    @contract("C13", "trimesh.voxel.base.VoxelGrid.points_to_indices", name="inverse-of-indices_to_points[%s; every index]" % tag, timeout=60000, note="the quick-tier companion of transform-then-inverse (every transform, thorough tier): a fixed scale / translate transform, every integer index (negative ones included) and every offset of less than half a cell")
    def fixed(h):
        from pyvc.engine import Ghost

        np = h.np
        sym = h.mode == "sym"

        # a ghost transform (the real Transform class is under contract in the thorough tier):
        # p = s * i + t and its exact inverse
        def fwd(pts):
            rows = [[sc[k] * pts[r, k] + tr[k] for k in range(3)] for r in range(pts.shape[0])]
            return np.array(rows) if sym else rnp.array(rows, dtype=float)

        def inv(pts):
            rows = [[(pts[r, k] - tr[k]) / sc[k] for k in range(3)] for r in range(pts.shape[0])]
            return np.array(rows) if sym else rnp.array(rows, dtype=float)

        grid = Ghost(_transform=Ghost(transform_points=fwd, inverse_transform_points=inv))
        VG = "trimesh.voxel.base.VoxelGrid"
        I = h.ints("i", (1, 3))
        h.assume([h.all([I[0, k] >= -10**6, I[0, k] <= 10**6]) for k in range(3)] if h.mode == "sym" else True)
        P = h.method(VG + ".indices_to_points")(grid, I)
        h.check("points=M.i", h.all([h.eq(P[0, k], sc[k] * I[0, k] + tr[k], atol=1e-9) for k in range(3)]))
        J = h.method(VG + ".points_to_indices")(grid, P)
        h.check("points_to_indices(indices_to_points(i))=i", h.exact(J, I))
        d = h.reals("d", 3)
        h.assume([h.all([d[k] > -0.49, d[k] < 0.49]) for k in range(3)] if h.mode == "sym" else all(abs(x) < 0.49 for x in d))
        Q = np.array([[P[0, k] + d[k] * sc[k] for k in range(3)]]) if h.mode == "sym" else rnp.array([[P[0, k] + d[k] * sc[k] for k in range(3)]], dtype=float)
        J2 = h.method(VG + ".points_to_indices")(grid, Q)
        h.check("points-within-half-a-cell-map-to-the-same-cell", h.exact(J2, I))

    return fixed


_mk_fixed_transform("s=(0.5,2,1.5) t=(10,-3,0.25)", (0.5, 2.0, 1.5), (10.0, -3.0, 0.25))
_mk_fixed_transform("mirror s=(-1,1,0.25) t=(2,0,-7)", (-1.0, 1.0, 0.25), (2.0, 0.0, -7.0))


@bounded("C13", name="real-code:voxelgrid-point-queries", note="VoxelGrid.is_filled / points_to_indices / indices_to_points for 4 encodings x 4 transforms: every cell centre from two cells below to two cells above the grid on every axis, exact and jittered by +-0.4 cell, in shuffled order")
def voxelgrid_queries(tier, seed):
    import trimesh
    from trimesh.voxel import encoding as enc

    rng = rnp.random.default_rng(seed + 131)
    cells = {}
    cases = 0

    def fail(key, detail=""):
        c = cells.setdefault(key, {"what": key, "cell": key, "detail": str(detail)[:200], "count": 0})
        c["count"] += 1

    dense = rng.random((4, 3, 5)) > 0.45
    dense[0, 0, 0] = True
    dense[-1, -1, -1] = True
    encodings = {
        "dense": lambda: enc.DenseEncoding(dense.copy()),
        "sparse": lambda: enc.SparseBinaryEncoding(rnp.column_stack(rnp.nonzero(dense)), shape=dense.shape),
        "rle": lambda: enc.RunLengthEncoding.from_dense(dense.reshape(-1), dtype=bool, encoding_dtype=rnp.uint8).reshape(dense.shape),
        "brle": lambda: enc.BinaryRunLengthEncoding.from_dense(dense.reshape(-1), encoding_dtype=rnp.uint8).reshape(dense.shape),
    }
    import trimesh.transformations as tf

    transforms = {"identity": rnp.eye(4), "scale+translate": tf.scale_and_translate([0.5, 2.0, 1.5], [10.0, -3.0, 0.25]), "negative-origin": tf.scale_and_translate(0.1, [-7.0, -7.0, -7.0]), "mirror": tf.scale_and_translate([-1.0, 1.0, 1.0], [2.0, 0.0, 0.0])}
    grid_idx = rnp.array(list(itertools.product(range(-2, 6), range(-2, 5), range(-2, 7))))
    for ename, mk in encodings.items():
        for tname, M in transforms.items():
            cases += 1
            try:
                v = trimesh.voxel.VoxelGrid(mk(), transform=M.copy())
                order = rng.permutation(len(grid_idx))
                idx = grid_idx[order]
                for jitter in (0.0, 0.4):
                    off = (rng.random(idx.shape) * 2 - 1) * jitter
                    pts = trimesh.transformations.transform_points(idx + off, M)
                    got_idx = v.points_to_indices(pts)
                    if not rnp.array_equal(got_idx, idx):
                        bad = idx[(got_idx != idx).any(axis=1)][0]
                        fail("%s:%s:points_to_indices-wrong-cell" % (ename, tname), "jitter %.1f: cell %s" % (jitter, bad.tolist()))
                        continue
                    inside = ((idx >= 0) & (idx < rnp.array(dense.shape))).all(axis=1)
                    want = rnp.zeros(len(idx), dtype=bool)
                    want[inside] = dense[tuple(idx[inside].T)]
                    got = rnp.asarray(v.is_filled(pts)).astype(bool)
                    if not rnp.array_equal(got, want):
                        k_ = int(rnp.flatnonzero(got != want)[0])
                        fail("%s:%s:is_filled-differs-from-the-dense-array" % (ename, tname), "jitter %.1f: cell %s got %s" % (jitter, idx[k_].tolist(), bool(got[k_])))
                back = v.indices_to_points(idx)
                if not rnp.allclose(back, trimesh.transformations.transform_points(idx.astype(float), M), atol=1e-9):
                    fail("%s:%s:indices_to_points-wrong" % (ename, tname))
            except Exception as ex:  # noqa: BLE001
                fail("%s:%s:raised %s" % (ename, tname, type(ex).__name__), ex)
    fails = sorted(cells.values(), key=lambda c: c["cell"])
    r = common.result(cases, cases, fails, "4 encodings x 4 transforms x %d cells x 2 jitters" % len(grid_idx), exhaustive=True)
    r["failures"] = fails
    return r
