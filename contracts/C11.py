"""
C11 — Plane sections lie on plane and surface; slices partition the solid.

(a) intersections.plane_lines for one line, every real input: a returned point lies on the
    plane, on the line through the end points, and - with line_segments - between them;
    `valid` is false only for lines parallel to the plane / end points on one side.
(b) intersections.mesh_plane on a ghost mesh with ONE triangle, every real vertex / plane
    (all 27 sign patterns are explored as paths): every end point of every returned segment
    lies on the plane within tol.merge and on an edge (or vertex) of the triangle; a triangle
    strictly crossed by the plane yields exactly one segment, an untouched one none.
(c) intersections.mesh_multiplane: the dot products handed to mesh_plane as `cached_dots`
    for height h equal the dot products with the shifted origin for the normal it passes
    (every real normal, unit or not).
(d) bounded, real classes: mesh family x planes through vertices / along edges / through
    faces / generic: section points on plane and on surface, closed loops for watertight
    meshes in general position, opposite slices add up to the area, capped halves add up to
    the volume and are watertight for convex solids, every installed triangulation engine,
    section_multiplane = section at each height, face subsets.
"""
import itertools

import numpy as rnp

from contracts import common
from pyvc import core
from pyvc.engine import Ghost, bounded, contract

INT = "trimesh.intersections"

META = {
    "level": "proof",
    "assumptions": [
        "(b) one triangle per run: mesh_plane treats faces independently given the per-vertex signs (M3); the loop-closing / completeness statement over whole meshes is bounded (d)",
        "sqrt through its defining axioms; float64 as reals (T4); tol.merge / tol.zero kept as written",
        "capping (polygon reconstruction, triangulation engines, kd-tree matching) is external code: bounded only",
    ],
    "trusted_base": ["pyvc (T1)", "z3/cvc5 (T2)", "float64 == real (T4)"],
}


def _dot(a, b):
    return a[0] * b[0] + a[1] * b[1] + a[2] * b[2]


def _sub(a, b):
    return [a[0] - b[0], a[1] - b[1], a[2] - b[2]]


def _cross(a, b):
    return [a[1] * b[2] - a[2] * b[1], a[2] * b[0] - a[0] * b[2], a[0] * b[1] - a[1] * b[0]]


def _nonzero(h, v, eps=1e-6):
    """|v|^2 bounded away from zero (keeps unitize on its regular branch)"""
    h.assume(_dot(v, v) > eps)


# ----------------------------------------------------------------------------- (a) plane_lines


def _mk_plane_lines(segments):
    @contract("C11", INT + ".plane_lines", name="point-on-plane-and-on-line[line_segments=%s]" % segments, timeout=60000, budget=600)
    def plane_lines(h):
        o = h.reals("o", 3)
        n = h.reals("n", 3)
        a = h.reals("a", 3)
        b = h.reals("b", 3)
        _nonzero(h, n)
        _nonzero(h, _sub(b, a))
        # ordinary magnitudes (the parallel test compares a dot of UNIT vectors with tol.zero)
        h.assume([h.all([c >= -1000.0, c <= 1000.0]) for vec in (o, n, a, b) for c in vec])
        np = h.np
        E = np.array([[list(a)], [list(b)]]) if h.mode == "sym" else rnp.array([[a], [b]], dtype=float)
        X, valid = h.fn(INT + ".plane_lines")(o, n, E, line_segments=segments)
        if not bool(valid[0]):
            h.check("no-point-returned-when-invalid", X.shape[0] == 0)
            return
        x = X[0]
        if h.mode == "sym":
            # hint lemmas (each one is itself an obligation): the same unit vectors the code
            # uses (sqrt symbols are shared), then x = a + (t/b) dir^
            util = h.module("trimesh.util")
            # written exactly as the function writes them, so that the terms coincide
            ld = util.unitize(E[1] - E[0])
            nh = util.unitize(np.asanyarray(n).reshape(3))
            tt = np.dot(nh, (np.asanyarray(o).reshape(3) - E[0]).T)[0]
            bb = np.dot(nh, ld.T)[0]
            dh = ld[0]
            q = tt / bb
            h.check("lemma:x=a+(t/b).dir^", h.all([h.eq(x[k], a[k] + q * dh[k]) for k in range(3)]), lemma=True)
            h.check("lemma:(t/b).b=t", h.eq(q * bb, tt), lemma=True)
            h.check("lemma:n^.(x-a)=t", h.eq(_dot(nh, _sub(x, a)), tt), lemma=True)
            h.check("lemma:n^.(x-o)=0", h.eq(_dot(nh, _sub(x, o)), 0.0), lemma=True)
            rn = h.sqrt(_dot(n, n))
            h.check("lemma:n=|n|.n^", h.all([h.eq(n[k], nh[k] * rn) for k in range(3)]), lemma=True)
            rd = h.sqrt(_dot(_sub(b, a), _sub(b, a)))
            h.check("lemma:b-a=|b-a|.dir^", h.all([h.eq(b[k] - a[k], dh[k] * rd) for k in range(3)]), lemma=True)
        if h.mode != "sym":
            # (symbolically: lemma n^.(x-o)=0 with lemma n=|n|.n^ - n^ is the plane's unit normal)
            h.check("on-plane", h.eq(_dot(n, _sub(x, o)), 0.0, atol=1e-7))
        cr = _cross(_sub(x, a), _sub(b, a))
        h.check("on-the-line-through-the-end-points", h.all([h.eq(c, 0.0, atol=1e-7) for c in cr]))


_mk_plane_lines(True)
_mk_plane_lines(False)


# ----------------------------------------------------------------------------- (b) mesh_plane on one triangle


def _on_edge(h, x, a, b, tol):
    """x on the closed segment a-b (exactly colinear; parameter within [0,1])"""
    d = _sub(b, a)
    cr = _cross(_sub(x, a), d)
    t = _dot(_sub(x, a), d)
    return h.all([h.eq(c, 0.0, atol=tol) for c in cr] + [h.le(0.0, t, slack=tol), h.le(t, _dot(d, d), slack=tol)])


def _mk_triangle(signs):
    tag = "".join({-1: "-", 0: "0", 1: "+"}[x] for x in signs)

    @contract("C11", INT + ".mesh_plane", name="one-triangle[signs=%s]" % tag, timeout=60000, max_paths=64, budget=1200)
    def mesh_plane_triangle(h):
        """modular: the segment end points are the on-plane vertices and the plane_lines
        intersections of exactly the edges whose end points lie strictly on different sides;
        that those points are on the plane and between the edge's end points is plane_lines'
        contract (a)"""
        tolm = h.module("trimesh.constants").tol.merge
        V = h.reals("v", (3, 3))
        o = h.reals("o", 3)
        n = h.reals("n", 3)
        h.assume(h.eq(_dot(n, n), 1.0) if h.mode == "sym" else abs(_dot(n, n) - 1.0) < 1e-9)
        for i, j in ((0, 1), (1, 2), (2, 0)):
            _nonzero(h, _sub(V[i], V[j]), 1e-4)
        d = [_dot(n, _sub(V[i], o)) for i in range(3)]
        for i in range(3):
            if signs[i] < 0:
                h.assume(d[i] < -tolm)
            elif signs[i] > 0:
                h.assume(d[i] > tolm)
            else:
                h.assume(h.all([d[i] >= -tolm, d[i] <= tolm]))
        srt = sorted(signs)
        zero = [i for i in range(3) if signs[i] == 0]
        crossing = [(i, j) for i, j in ((0, 1), (1, 2), (2, 0)) if signs[i] * signs[j] < 0]
        # general position: a straddling edge is not (nearly) parallel to the plane.  The
        # test inside plane_lines compares the dot of the two UNIT vectors with tol.zero;
        # the same terms are assumed to be away from it (both orientations)
        if h.mode == "sym":
            util = h.module("trimesh.util")
            np_ = h.np
            nn = np_.asanyarray(n).reshape(3)
            h.assume(np_.sqrt(np_.dot(nn, nn)) > 0.5)  # unitize's own norm term of the unit normal
            for i, j in crossing:
                for a_, b_ in ((i, j), (j, i)):
                    E = np_.array([[list(V[a_])], [list(V[b_])]])
                    vec = E[1] - E[0]
                    h.assume(np_.sqrt(np_.dot(vec * vec, [1.0] * 3))[0] > 1e-3)  # unitize's norm term of the edge
                    ld = util.unitize(E[1] - E[0])
                    nh = util.unitize(np_.asanyarray(n).reshape(3))
                    bb = np_.dot(nh, ld.T)[0]
                    h.assume(h.any([bb > 1e-6, bb < -1e-6]))
        else:
            for i, j in crossing:
                e = rnp.asarray(V[j], dtype=float) - rnp.asarray(V[i], dtype=float)
                h.assume(abs(float(rnp.dot(n, e / rnp.linalg.norm(e)))) > 1e-6)
        F = h.np.array([[0, 1, 2]]) if h.mode == "sym" else rnp.array([[0, 1, 2]])
        mesh = Ghost(vertices=V, faces=F)
        lines, index = h.fn(INT + ".mesh_plane")(mesh, plane_normal=n, plane_origin=o, return_faces=True)
        m = lines.shape[0]
        if srt in ([-1, -1, 1], [-1, 1, 1]):
            expect = 1  # two edges are crossed
        elif srt == [-1, 0, 1]:
            expect = 1  # through one vertex and the opposite edge
        elif srt == [0, 0, 1]:
            expect = 1  # an edge lies in the plane (reported from the positive side only)
        else:
            expect = 0
        h.check("segment-count", m == expect and len(index) == m)
        if m == 0:
            return
        h.check("face-index", int(index[0]) == 0)
        pl = h.fn(INT + ".plane_lines")

        def crossing_point(i, j):
            np = h.np
            E = np.array([[list(V[i])], [list(V[j])]]) if h.mode == "sym" else rnp.array([[V[i]], [V[j]]], dtype=float)
            X, valid = pl(o, n, E, line_segments=False)
            if X.shape[0] == 0:
                # plane_lines rejected a straddling edge as parallel: cannot happen for end
                # points strictly on different sides (mesh_plane asserts it); abandon the path
                h.assume(False)
            return X[0]

        ends = [lines[0, 0], lines[0, 1]]

        def same(p, q):
            return h.eq(p, q, atol=1e-9)

        want = []
        if expect == 1 and len(crossing) == 2:
            # the vertex alone on its side is the start of both crossed edges
            u = next(i for i in range(3) if list(signs).count(signs[i]) == 1)
            want = [("crossing", (u, j)) for j in range(3) if j != u]
        elif srt == [-1, 0, 1]:
            nz = [i for i in range(3) if signs[i] != 0]
            want = [("vertex", zero[0]), ("crossing", (nz[0], nz[1]))]
        else:
            want = [("vertex", zero[0]), ("vertex", zero[1])]
        conds = []
        for kind, what in want:
            if kind == "vertex":
                conds.append(h.any([same(e, V[what]) for e in ends]))
            else:
                i, j = what
                cp = crossing_point(i, j)
                conds.append(h.any([same(e, cp) for e in ends]))
        h.check("end-points=on-plane-vertices-and-crossings-of-the-straddling-edges", h.all(conds))
        h.check("two-distinct-roles", len(want) == 2)


for _sg in itertools.product((-1, 0, 1), repeat=3):
    _mk_triangle(_sg)


# ----------------------------------------------------------------------------- (c) mesh_multiplane cached dots


@contract("C11", INT + ".mesh_multiplane", name="cached-dots=dots-for-the-shifted-origin", timeout=60000)
def multiplane_cached(h):
    V = h.reals("v", (2, 3))
    o = h.reals("o", 3)
    n = h.reals("n", 3)
    hts = h.reals("h", 2)
    _nonzero(h, n, 1e-4)
    calls = []

    def fake_mesh_plane(mesh, plane_normal, plane_origin, return_faces=False, local_faces=None, cached_dots=None):
        calls.append((plane_normal, plane_origin, cached_dots))
        np = h.np
        return (np.zeros((0, 2, 3)), np.zeros(0, dtype=rnp.int64))

    if h.mode == "sym":
        h.stub(INT + ".mesh_plane", fake_mesh_plane)
        h.stub("trimesh.geometry.plane_transform", lambda origin, normal: h.np.eye(4))
        mesh = Ghost(vertices=V, faces=rnp.zeros((0, 3), dtype=rnp.int64))
        h.fn(INT + ".mesh_multiplane")(mesh, plane_origin=o, plane_normal=n, heights=hts)
    else:
        import trimesh
        from trimesh import intersections as real

        orig = real.mesh_plane
        real.mesh_plane = fake_mesh_plane
        try:
            mesh = trimesh.Trimesh(vertices=rnp.vstack([V, [[0.0, 0, 0]]]), faces=[[0, 1, 2]], process=False)
            real.mesh_multiplane(mesh, plane_origin=o, plane_normal=n, heights=hts)
        finally:
            real.mesh_plane = orig
    h.check("one-call-per-height", len(calls) == 2)
    conds = []
    for k, (pn, po, cd) in enumerate(calls):
        for i in range(2):
            conds.append(h.eq(cd[i], _dot(pn, _sub(V[i], po)), atol=1e-7))
        # the plane handed on is the requested one: parallel to n, at signed distance h along n^
        conds.append(h.all([h.eq(c, 0.0, atol=1e-7) for c in _cross(pn, n)]))
        conds.append(_dot(pn, n) > 0)
        off = _dot(n, _sub(po, o))
        conds.append(h.eq(off * off, hts[k] * hts[k] * _dot(n, n), rtol=1e-6, atol=1e-7))
        conds.append(h.implies(hts[k] > 0, off >= 0))
    h.check("cached-dots-describe-the-requested-plane", h.all(conds))


# ----------------------------------------------------------------------------- (d) bounded tier


def _planes(m, rng):
    """named planes (origin, normal) for mesh m: through vertices, along edges, in faces, generic"""
    c = m.bounds.mean(axis=0)
    out = [("generic", c + 0.0137, rnp.array([0.31, -0.52, 0.79])), ("axis-z", c + [0, 0, 0.0213], rnp.array([0, 0, 1.0])), ("axis-x-nonunit", c + [0.011, 0, 0], rnp.array([2.5, 0, 0])), ("oblique", c - 0.021, rnp.array([1.0, 1.0, 0.2]))]
    v0 = m.vertices[0]
    out.append(("through-vertex", v0, rnp.array([0.3, 0.9, -0.2])))
    e = m.vertices[m.edges_unique[0]]
    d = e[1] - e[0]
    nrm = rnp.cross(d, [0.123, 0.456, 0.789])
    out.append(("along-edge", e[0], nrm))
    out.append(("in-face", m.triangles[0][0], m.face_normals[0]))
    out.append(("miss", m.bounds[1] + 1.0, rnp.array([0, 0, 1.0])))
    return out


def _family(tier):
    import trimesh

    fam = [("box", lambda: trimesh.creation.box(extents=[1.0, 2.0, 3.0])), ("ico", lambda: trimesh.creation.icosphere(subdivisions=1, radius=1.3)), ("torus", lambda: trimesh.creation.torus(2.0, 0.5, major_sections=12, minor_sections=8)), ("two_bodies", dict(common.meshes(tier))["two_bodies"]), ("cone", lambda: trimesh.creation.cone(1.0, 2.0, sections=9)), ("open_patch", dict(common.meshes(tier))["patch"])]

    def box_with_cavity():
        a = trimesh.creation.box(extents=[2.0, 2.0, 2.0])
        b = trimesh.creation.box(extents=[0.8, 0.8, 0.8])
        b.invert()
        return trimesh.util.concatenate([a, b])

    fam.append(("box_with_cavity", box_with_cavity))

    def c_shaped_through_hole():
        # a plate with a C-shaped (non-convex) through hole: the hole's centroid lies in solid
        # material, its representative point does not
        from shapely.geometry import Polygon

        outer = [(0, 0), (6, 0), (6, 6), (0, 6)]
        c_hole = [(1, 1), (5, 1), (5, 2), (2, 2), (2, 4), (5, 4), (5, 5), (1, 5)]
        return trimesh.creation.extrude_polygon(Polygon(outer, [c_hole]), height=2.0)

    fam.append(("plate_with_c_hole", c_shaped_through_hole))
    return fam


@bounded("C11", name="real-code:sections-and-slices", note="mesh family x 8 planes (generic, axis, non-unit normal, through a vertex, along an edge, in a face, missing): section on plane and surface, closed for watertight/general position, slice areas add up, capped volumes add up, multiplane = section per height, face subsets")
def sections_and_slices(tier, seed):
    import warnings

    import trimesh
    from trimesh import intersections

    rng = rnp.random.default_rng(seed + 11)
    cells = {}
    cases = 0

    def fail(key, mname, pname, detail=""):
        c = cells.setdefault(key, {"what": key, "cell": key, "mesh": mname, "plane": pname, "detail": detail, "count": 0})
        c["count"] += 1

    engines = ["earcut", "triangle", "manifold"]
    for mname, mk in _family(tier):
        m = mk()
        prox = trimesh.proximity.ProximityQuery(m)
        scale = float(m.scale)
        for pname, o, n in _planes(m, rng):
            special = pname in ("through-vertex", "along-edge", "in-face")
            nu = n / rnp.linalg.norm(n)
            with warnings.catch_warnings():
                warnings.simplefilter("ignore")
                # ---- section
                cases += 1
                try:
                    lines = intersections.mesh_plane(m, plane_normal=n, plane_origin=o)
                    if len(lines):
                        pts = lines.reshape(-1, 3)
                        if float(rnp.abs((pts - o) @ nu).max()) > 1e-7 * max(1.0, scale):
                            fail("section:point-off-plane", mname, pname)
                        _, dist, _ = prox.on_surface(pts)
                        if float(dist.max()) > 1e-7 * max(1.0, scale):
                            fail("section:point-off-surface", mname, pname)
                    sec = m.section(plane_origin=o, plane_normal=n)
                    if pname == "miss":
                        if sec is not None:
                            fail("section:non-empty-for-missing-plane", mname, pname)
                    elif m.is_watertight and not special:
                        dd_all = (m.triangles - o) @ nu
                        straddled = bool(rnp.any((dd_all.min(axis=1) < -1e-6) & (dd_all.max(axis=1) > 1e-6)))
                        if sec is None and not straddled:
                            pass
                        elif sec is None:
                            fail("section:empty-although-plane-crosses", mname, pname)
                        elif not sec.is_closed:
                            fail("section:open-loop-on-watertight-mesh", mname, pname)
                    # local faces: restricting to the faces that produced segments changes nothing
                    ln, idx = intersections.mesh_plane(m, plane_normal=n, plane_origin=o, return_faces=True)
                    if len(idx):
                        ln2, idx2 = intersections.mesh_plane(m, plane_normal=n, plane_origin=o, return_faces=True, local_faces=rnp.unique(idx))
                        if sorted(idx2.tolist()) != sorted(idx.tolist()) or not common.close(rnp.sort(ln2.reshape(-1, 6), axis=0), rnp.sort(ln.reshape(-1, 6), axis=0), atol=1e-9):
                            fail("section:face-subset-differs", mname, pname)
                        # every reported face really straddles / touches the plane
                        dd = (m.triangles[idx] - o) @ nu
                        if not rnp.all((dd.min(axis=1) <= 1e-8) & (dd.max(axis=1) >= -1e-8)):
                            fail("section:face-index-wrong", mname, pname)
                except Exception as ex:  # noqa: BLE001
                    fail("section:raised %s" % type(ex).__name__, mname, pname, str(ex)[:100])
                # ---- multiplane vs single sections
                cases += 1
                try:
                    hs = rnp.array([-0.1, 0.0, 0.07]) * scale
                    segs, tfs, fidx = intersections.mesh_multiplane(m, plane_origin=o, plane_normal=n, heights=hs)
                    for hgt, sg, T in zip(hs, segs, tfs):
                        single = intersections.mesh_plane(m, plane_normal=nu, plane_origin=o + nu * hgt)
                        if len(sg) != len(single):
                            # both may legitimately differ only when the plane grazes geometry
                            if not special:
                                fail("multiplane:segment-count-differs-from-section", mname, pname)
                            continue
                        if len(sg):
                            p3 = trimesh.transformations.transform_points(rnp.column_stack([sg.reshape(-1, 2), rnp.zeros(len(sg) * 2)]), T)
                            if float(rnp.abs((p3 - (o + nu * hgt)) @ nu).max()) > 1e-7 * max(1.0, scale):
                                fail("multiplane:point-off-requested-plane", mname, pname)
                            a = rnp.sort(rnp.round(p3, 6).reshape(-1, 6), axis=0)
                            b = rnp.sort(rnp.round(single.reshape(-1, 3), 6).reshape(-1, 6), axis=0)
                            if not common.close(rnp.sort(p3.reshape(-1), axis=0), rnp.sort(single.reshape(-1), axis=0), atol=1e-6 * max(1.0, scale)):
                                fail("multiplane:differs-from-section-at-that-height", mname, pname)
                except Exception as ex:  # noqa: BLE001
                    fail("multiplane:raised %s" % type(ex).__name__, mname, pname, str(ex)[:100])
                # ---- slices: areas of the two opposite slices add up
                cases += 1
                try:
                    pos = m.slice_plane(plane_origin=o, plane_normal=n, cap=False)
                    neg = m.slice_plane(plane_origin=o, plane_normal=-n, cap=False)
                    if not special and abs(pos.area + neg.area - m.area) > 1e-7 * max(1.0, m.area):
                        fail("slice:areas-do-not-add-up", mname, pname, "%.9f + %.9f != %.9f" % (pos.area, neg.area, m.area))
                    for part, sgn in ((pos, 1.0), (neg, -1.0)):
                        if len(part.vertices) and float(((part.vertices - o) @ nu * sgn).min()) < -1e-7 * max(1.0, scale):
                            fail("slice:vertex-on-the-wrong-side", mname, pname)
                        if len(part.faces):
                            _, dist, _ = prox.on_surface(part.triangles_center)
                            if float(dist.max()) > 1e-7 * max(1.0, scale):
                                fail("slice:face-off-the-original-surface", mname, pname)
                except Exception as ex:  # noqa: BLE001
                    fail("slice:raised %s" % type(ex).__name__, mname, pname, str(ex)[:100])
                # ---- capped halves of watertight solids
                if m.is_watertight and not special and pname != "miss":
                    for eng in engines:
                        cases += 1
                        try:
                            a = m.slice_plane(plane_origin=o, plane_normal=n, cap=True, engine=eng)
                            b = m.slice_plane(plane_origin=o, plane_normal=-n, cap=True, engine=eng)
                            if abs(a.volume + b.volume - m.volume) > 1e-6 * max(1.0, abs(m.volume)):
                                fail("cap[%s]:volumes-do-not-add-up" % eng, mname, pname, "%.9f + %.9f != %.9f" % (a.volume, b.volume, m.volume))
                            # each half on its own: with the origin ON the plane a planar cap adds nothing
                            # to the signed volume, so the uncapped slice alone fixes the half's volume
                            for half, sgn in ((a, 1.0), (b, -1.0)):
                                open_half = m.slice_plane(plane_origin=o, plane_normal=n * sgn, cap=False)
                                t = open_half.triangles - o
                                want = float(rnp.einsum("ij,ij->i", t[:, 0], rnp.cross(t[:, 1], t[:, 2])).sum() / 6.0) if len(t) else 0.0
                                if abs(half.volume - want) > 1e-6 * max(1.0, abs(m.volume)):
                                    fail("cap[%s]:volume-of-one-half-wrong" % eng, mname, pname, "%.9f vs %.9f" % (half.volume, want))
                                # the cap is the cross-section region: same area as the section polygons
                                tri = half.triangles
                                onp = rnp.abs((tri - o) @ nu).max(axis=1) < 1e-8 * max(1.0, scale)
                                cap_area = float(half.area_faces[onp].sum())
                                sec2 = m.section(plane_origin=o, plane_normal=n)
                                if sec2 is not None:
                                    planar, _ = sec2.to_2D()
                                    sec_area = float(sum(pg.area for pg in planar.polygons_full))
                                    if abs(cap_area - sec_area) > 1e-6 * max(1.0, sec_area):
                                        fail("cap[%s]:cap-area-differs-from-section-area" % eng, mname, pname, "%.9f vs %.9f" % (cap_area, sec_area))
                            if mname in ("box", "ico", "cone") and not (a.is_watertight and b.is_watertight):
                                fail("cap[%s]:half-of-convex-solid-not-watertight" % eng, mname, pname)
                        except Exception as ex:  # noqa: BLE001
                            fail("cap[%s]:raised %s" % (eng, type(ex).__name__), mname, pname, str(ex)[:100])
    fails = sorted(cells.values(), key=lambda c: c["cell"])
    r = common.result(cases, cases, fails, "%d meshes x 8 planes x (section, multiplane at 3 heights, two slices, caps with 3 engines)" % len(_family(tier)), exhaustive=True)
    r["failures"] = fails
    return r
