"""
Shared pieces of the bounded tier: fixed families of geometries / matrices and the
"freshly built object" oracle.  Everything here runs on the REAL trimesh import.
"""
import itertools

import numpy as np


def meshes(tier="quick"):
    """named (constructor) list of small meshes: solids, an open patch, degenerate /
    duplicate / isolated faces, two bodies; every call builds a fresh object"""
    import trimesh

    def box():
        return trimesh.creation.box(extents=[1.0, 2.0, 3.0])

    def tetra():
        v = np.array([[0, 0, 0], [1, 0, 0], [0, 1, 0], [0, 0, 1]], dtype=float)
        f = np.array([[0, 2, 1], [0, 1, 3], [1, 2, 3], [0, 3, 2]])
        return trimesh.Trimesh(v, f, process=False)

    def ico():
        return trimesh.creation.icosphere(subdivisions=1, radius=1.5)

    def cyl():
        return trimesh.creation.cylinder(radius=0.7, height=2.0, sections=7)

    def patch():
        # open, with an unreferenced vertex
        v = np.array([[0, 0, 0], [1, 0, 0], [1, 1, 0], [0, 1, 0.2], [5, 5, 5]], dtype=float)
        f = np.array([[0, 1, 2], [0, 2, 3]])
        return trimesh.Trimesh(v, f, process=False)

    def two_bodies():
        a = trimesh.creation.box(extents=[1, 1, 1])
        b = trimesh.creation.box(extents=[0.5, 0.5, 2.0])
        b.apply_translation([3, 0.5, 0])
        return trimesh.util.concatenate([a, b])

    def messy():
        # duplicate face, degenerate face, non-manifold edge
        v = np.array([[0, 0, 0], [1, 0, 0], [0, 1, 0], [0, 0, 1], [1, 1, 1]], dtype=float)
        f = np.array([[0, 1, 2], [0, 1, 2], [0, 1, 3], [0, 1, 4], [2, 2, 3]])
        return trimesh.Trimesh(v, f, process=False)

    def off_origin():
        m = trimesh.creation.icosphere(subdivisions=1)
        m.apply_translation([100.0, -50.0, 25.0])
        return m

    fam = [("box", box), ("tetra", tetra), ("patch", patch), ("two_bodies", two_bodies), ("messy", messy)]
    if tier == "thorough":
        fam += [("ico", ico), ("cyl", cyl), ("off_origin", off_origin)]
    else:
        fam += [("cyl", cyl)]
    return fam


def matrices(tier="quick"):
    """named 4x4 homogeneous matrices: the cases the statement distinguishes"""
    import trimesh.transformations as tf

    out = [
        ("identity", np.eye(4)),
        ("translate", tf.translation_matrix([0.3, -2.0, 5.0])),
        ("rotate", tf.rotation_matrix(0.7, [1, 2, 3], [0.5, 0, 0])),
        ("scale2", tf.scale_matrix(2.0)),
        ("mirror_x", np.diag([-1.0, 1, 1, 1])),
        ("nonuniform", np.diag([2.0, 1.0, 0.5, 1.0])),
        ("shear", np.array([[1, 0.5, 0, 0], [0, 1, 0.25, 0], [0, 0, 1, 0], [0, 0, 0, 1.0]])),
        ("mirror_rot_scale", tf.rotation_matrix(1.1, [0, 1, 1]) @ np.diag([1.5, -1.5, 1.5, 1.0])),
        ("tiny_rotation", tf.rotation_matrix(5e-7, [0, 0, 1])),
        # columns of equal length that are not orthogonal: not a similarity although every
        # per-column / per-row scale test passes
        ("equal_columns_skew", np.array([[1, np.sin(0.6), 0, 0.2], [0, np.cos(0.6), 0, 0], [0, 0, 1, -1], [0, 0, 0, 1.0]])),
        ("equal_rows_skew_mirror", tf.rotation_matrix(0.4, [1, 0, 1]) @ np.array([[1, 0, 0, 0], [np.sin(0.5), np.cos(0.5), 0, 0], [0, 0, -1, 0], [0, 0, 0, 1.0]])),
        ("det_one_stretch", np.diag([2.0, 0.5, 1.0, 1.0])),
    ]
    if tier == "thorough":
        out += [
            ("general", np.array([[0.3, -1.2, 0.4, 1.0], [0.9, 0.1, -0.5, 2.0], [0.2, 0.7, 1.1, -3.0], [0, 0, 0, 1.0]])),
            ("general_neg", np.array([[0.3, -1.2, 0.4, 1.0], [0.9, 0.1, -0.5, 2.0], [-0.2, -0.7, -1.1, -3.0], [0, 0, 0, 1.0]])),
            ("rot_pi", tf.rotation_matrix(np.pi, [0, 0, 1])),
            ("near_identity_translate", tf.translation_matrix([1e-9, 0, 0])),
        ]
    return out


def close(a, b, rtol=1e-8, atol=1e-10):
    a = np.asarray(a, dtype=float)
    b = np.asarray(b, dtype=float)
    if a.shape != b.shape:
        return False
    scale = max(1.0, float(np.abs(a).max()) if a.size else 1.0, float(np.abs(b).max()) if b.size else 1.0)
    return bool(np.all(np.abs(a - b) <= atol + rtol * scale))


def tri_multiset(tris, digits=7):
    """triangles as a multiset of (cyclically normalised) corner triples — winding kept"""
    t = np.round(np.asarray(tris, dtype=float), digits) + 0.0
    keys = []
    for tri in t:
        rows = [tuple(r) for r in tri]
        k = min(range(3), key=lambda i: rows[i])
        keys.append((rows[k], rows[(k + 1) % 3], rows[(k + 2) % 3]))
    return sorted(keys)


def result(cases, distinct, failures, bound, exhaustive=True, sample=None):
    return {"cases": cases, "distinct": distinct, "failures": failures[:5], "bound": bound, "exhaustive": exhaustive, "sample": sample}
