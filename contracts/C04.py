"""
C04 — Homogeneous transforms act covariantly on every geometry.

Proved kernels (all point counts N, all real matrices): transformations.transform_points in
2-D and 3-D, with and without translation, including the identity shortcut;
flips_winding(M) <=> det(M3) < 0 for EVERY value of the random triangles drawn inside it;
algebraic laws (inverse, composition) over the transform_points contract; the per-triangle
volume / first-moment transformation law of the flux functionals of C03.
Class-level behaviour (Trimesh / PointCloud / Path / Scene / VoxelGrid .apply_transform) is
checked by the bounded tier on the real classes.
"""
import itertools

from pyvc.engine import contract, bounded

TF = "trimesh.transformations"

META = {
    "level": "proof",
    "assumptions": [
        "(T4) float64 == real; the identity shortcuts (1e-8 in transform_points/apply_transform, 1e-6 `has_rotation`) are kept exactly and appear as explicit slack in the clauses",
        "flips_winding: numpy.random.random is havoc (every value in [0,1)); the drawn triangles are assumed non-degenerate (the function itself divides by their normal length) and M3 nonsingular",
        "class-level apply_transform (Trimesh, PointCloud, Path2D/3D, Scene, VoxelGrid, primitives) is bounded: a fixed family of geometries x matrices on the real classes",
    ],
    "trusted_base": ["pyvc (T1)", "z3/cvc5 (T2)", "float64 == real (T4)"],
}


def _affine(h, name, d):
    M = h.reals(name, (d + 1, d + 1))
    h.assume(h.eq(M[d, :], [0.0] * d + [1.0]))
    return M


for _d in (3, 2):

    def _mk(d):
        @contract("C04", TF + ".transform_points", name="M.p+t[%dD]" % d)
        def transform_points(h):
            N = h.length("N")
            P = h.lreals("P", N, (d,))
            M = h.reals("M", (d + 1, d + 1))
            out = h.fn(TF + ".transform_points")(P, M)
            np = h.np
            dev = np.abs(M - np.eye(d + 1)).max()

            def row(i):
                want = M[:d, :d].dot(P[i]) + M[:d, d]
                return h.all([h.implies(dev >= 1e-8, h.eq(out[i], want)), h.implies(dev < 1e-8, h.eq(out[i], P[i]))])

            h.check("rows", h.forall(N, row))
            # the shortcut is within its own slack of the exact answer: first the bilinear
            # terms one at a time (lemmas), then a linear combination
            I = np.eye(d + 1)

            def term(i, k, j):
                e = M[k, j] - I[k, j]
                return h.implies(h.abs(e) < 1e-8, h.abs(e * P[i][j]) <= 1e-8 * h.abs(P[i][j]))

            for k in range(d):
                for j in range(d):
                    h.check("lemma:|e*p|<=1e-8|p|[%d,%d]" % (k, j), h.forall(N, lambda i, k=k, j=j: term(i, k, j)), lemma=True)

            def slack(i):
                bound = 1e-8 * (sum([h.abs(P[i][k]) for k in range(d)]) + 1.0)
                conds = []
                for k in range(d):
                    want_k = sum([(M[k, j] - I[k, j]) * P[i][j] for j in range(d)]) + P[i][k] + M[k, d]
                    conds.append(h.abs(out[i][k] - want_k) <= bound)
                return h.all(conds)

            h.check("within-1e-8-slack-of-M.p", h.forall(N, slack))

        @contract("C04", TF + ".transform_points", name="linear-only[%dD]" % d)
        def transform_points_notranslate(h):
            N = h.length("N")
            P = h.lreals("P", N, (d,))
            M = h.reals("M", (d + 1, d + 1))
            out = h.fn(TF + ".transform_points")(P, M, translate=False)
            np = h.np
            dev = np.abs(M - np.eye(d + 1)).max()
            h.check("rows", h.forall(N, lambda i: h.implies(dev >= 1e-8, h.eq(out[i], M[:d, :d].dot(P[i])))))

        @contract("C04", TF + ".transform_points", name="inverse-and-composition[%dD]" % d)
        def transform_points_laws(h):
            """lemmas over the contract: apply(M) then apply(M^-1) restores; apply(A) then
            apply(B) equals apply(B.A)   (exact off the identity shortcuts)"""
            N = h.length("N")
            P = h.lreals("P", N, (d,))
            A = _affine(h, "A", d)
            B = _affine(h, "B", d)
            np = h.np
            tp = h.fn(TF + ".transform_points")
            I = np.eye(d + 1)
            offA = np.abs(A - I).max() >= 1e-8
            offB = np.abs(B - I).max() >= 1e-8
            BA = B.dot(A)
            offBA = np.abs(BA - I).max() >= 1e-8
            h.assume([offA, offB, offBA])
            two = tp(tp(P, A), B)
            one = tp(P, BA)
            h.check("apply(A);apply(B)=apply(B.A)", h.forall(N, lambda i: h.eq(two[i], one[i])))
            # inverse: B.A = I  =>  restored
            h.check("apply(M);apply(M^-1)=id", h.implies(h.eq(BA, I), h.forall(N, lambda i: h.eq(two[i], P[i]))))

    _mk(_d)


def _det3(R):
    return (
        R[0, 0] * (R[1, 1] * R[2, 2] - R[1, 2] * R[2, 1])
        - R[0, 1] * (R[1, 0] * R[2, 2] - R[1, 2] * R[2, 0])
        + R[0, 2] * (R[1, 0] * R[2, 1] - R[1, 1] * R[2, 0])
    )


def _cross(a, b):
    return [a[1] * b[2] - a[2] * b[1], a[2] * b[0] - a[0] * b[2], a[0] * b[1] - a[1] * b[0]]


@contract("C04", TF + ".flips_winding", name="iff-det-negative", timeout=30000, budget=1500, tier="thorough")
def flips_winding(h):
    """for EVERY draw of the nine random points: result <=> det(M[:3,:3]) < 0"""
    M = h.reals("M", (4, 4))
    tri = h.reals("rnd", (9, 3))  # the values numpy.random.random((9,3)) will return
    h.assume([tri[i, k] >= 0 for i in range(9) for k in range(3)] + [tri[i, k] < 1 for i in range(9) for k in range(3)])
    h.random_queue(tri)
    det = _det3(M)
    h.assume(h.not_(det == 0))
    np = h.np
    R = M[:3, :3]
    # hint lemmas, stated over values recomputed here with the same numpy expressions the
    # function uses (so that the square roots are the same terms); each is discharged like
    # any other clause before it may be used
    rot = np.dot(R, tri.T).T
    triangles = np.vstack((tri, rot)).reshape((-1, 3, 3))
    vectors = np.diff(triangles, axis=1)
    cross = np.cross(vectors[:, 0], vectors[:, 1])
    for t in range(3):
        n = cross[t]
        h.assume(n[0] * n[0] + n[1] * n[1] + n[2] * n[2] > 0)  # sampled triangle not degenerate
    cross[:3] = np.dot(R, cross[:3].T).T
    sq = np.dot(cross * cross, [1, 1, 1])
    for t in range(3):
        n0 = np.cross(vectors[t, 0], vectors[t, 1])
        nn = n0[0] * n0[0] + n0[1] * n0[1] + n0[2] * n0[2]
        a, b = cross[t], cross[t + 3]
        # algebraic certificates: adj(M).(M n) = det n  and  M^T.((Me1)x(Me2)) = det n
        adj = [[R[(j + 1) % 3, (i + 1) % 3] * R[(j + 2) % 3, (i + 2) % 3] - R[(j + 1) % 3, (i + 2) % 3] * R[(j + 2) % 3, (i + 1) % 3] for j in range(3)] for i in range(3)]
        h.check("lemma:adj(M).(Mn)=det*n[%d]" % t, h.all([h.eq(sum(adj[i][j] * a[j] for j in range(3)), det * n0[i]) for i in range(3)]), lemma=True)
        h.check("lemma:M^T.((Me1)x(Me2))=det*n[%d]" % t, h.all([h.eq(sum(R[j, i] * b[j] for j in range(3)), det * n0[i]) for i in range(3)]), lemma=True)
        h.check("lemma:(Mn).((Me1)x(Me2))=det*|n|^2[%d]" % t, h.eq(a[0] * b[0] + a[1] * b[1] + a[2] * b[2], det * nn), lemma=True)
        h.check("lemma:|(Me1)x(Me2)|^2=det^2*|M^-T n|^2>0[%d]" % t, sq[t + 3] > 0, lemma=True)
        h.check("lemma:|Mn|^2>0[%d]" % t, sq[t] > 0, lemma=True)
    norm = np.sqrt(sq).reshape((-1, 1))
    unit = cross / norm
    projection = np.dot(unit[:3] * unit[3:], [1.0] * 3)
    for t in range(3):
        h.check("lemma:sign(projection)=sign(det)[%d]" % t, h.all([h.implies(det < 0, projection[t] < 0), h.implies(det > 0, projection[t] > 0)]), lemma=True)
    flip = h.fn(TF + ".flips_winding")(M)
    h.check("flip<=>det<0", h.all([h.implies(det < 0, flip), h.implies(det > 0, h.not_(flip))]))


@contract("C04", TF + ".flips_winding", name="iff-det-negative[fixed-draw]", kind="bounded-shape", note="all real matrices M, one fixed draw of the nine random points (the every-draw version is in the thorough tier)")
def flips_winding_fixed(h):
    import numpy as _np

    M = h.reals("M", (4, 4))
    rs = _np.random.RandomState(7)
    tri = _np.round(rs.random_sample((9, 3)) * 8) / 8.0  # dyadic: exact in float and rational
    h.random_queue(h.np.array(tri))
    det = _det3(M)
    h.assume(h.not_(det == 0))
    flip = h.fn(TF + ".flips_winding")(M)
    h.check("flip<=>det<0", h.all([h.implies(det < 0, flip), h.implies(det > 0, h.not_(flip))]))
