"""
C04 — Homogeneous transforms act covariantly on every geometry.

Proved kernels (all point counts N, all real matrices): transformations.transform_points in
2-D and 3-D, with and without translation, including the identity shortcut;
flips_winding(M) <=> det(M3) < 0 for EVERY value of the random triangles drawn inside it;
algebraic laws (inverse, composition) over the transform_points contract; the per-triangle
volume / first-moment transformation law of the flux functionals of C03.
Class-level behaviour (Trimesh / PointCloud / Path / Scene / VoxelGrid .apply_transform) is
checked by the bounded tier on the real classes.
"""
import itertools

from pyvc.engine import contract, bounded

TF = "trimesh.transformations"

META = {
    "level": "proof",
    "assumptions": [
        "(T4) float64 == real; the identity shortcuts (1e-8 in transform_points/apply_transform, 1e-6 `has_rotation`) are kept exactly and appear as explicit slack in the clauses",
        "flips_winding: numpy.random.random is havoc (every value in [0,1)); the drawn triangles are assumed non-degenerate (the function itself divides by their normal length) and M3 nonsingular",
        "class-level apply_transform (Trimesh, PointCloud, Path2D/3D, Scene, VoxelGrid, primitives) is bounded: a fixed family of geometries x matrices on the real classes",
    ],
    "trusted_base": ["pyvc (T1)", "z3/cvc5 (T2)", "float64 == real (T4)"],
}


def _affine(h, name, d):
    M = h.reals(name, (d + 1, d + 1))
    h.assume(h.eq(M[d, :], [0.0] * d + [1.0]))
    return M


for _d in (3, 2):

    def _mk(d):
        @contract("C04", TF + ".transform_points", name="M.p+t[%dD]" % d)
        def transform_points(h):
            N = h.length("N")
            P = h.lreals("P", N, (d,))
            M = h.reals("M", (d + 1, d + 1))
            out = h.fn(TF + ".transform_points")(P, M)
            np = h.np
            dev = np.abs(M - np.eye(d + 1)).max()

            def row(i):
                want = M[:d, :d].dot(P[i]) + M[:d, d]
                return h.all([h.implies(dev >= 1e-8, h.eq(out[i], want)), h.implies(dev < 1e-8, h.eq(out[i], P[i]))])

            h.check("rows", h.forall(N, row))
            # the shortcut is within its own slack of the exact answer: first the bilinear
            # terms one at a time (lemmas), then a linear combination
            I = np.eye(d + 1)

            def term(i, k, j):
                e = M[k, j] - I[k, j]
                # two-sided form of |e*p| <= 1e-8*|p| (no sign test on the product itself, so
                # the obligation that uses it is linear in the monomials)
                b = 1e-8 * h.abs(P[i][j])
                return h.implies(h.abs(e) < 1e-8, h.all([e * P[i][j] <= b, -(e * P[i][j]) <= b]))

            for k in range(d):
                for j in range(d):
                    h.check("lemma:|e*p|<=1e-8|p|[%d,%d]" % (k, j), h.forall(N, lambda i, k=k, j=j: term(i, k, j)), lemma=True)

            def slack(i):
                bound = 1e-8 * (sum([h.abs(P[i][k]) for k in range(d)]) + 1.0)
                conds = []
                for k in range(d):
                    want_k = sum([(M[k, j] - I[k, j]) * P[i][j] for j in range(d)]) + P[i][k] + M[k, d]
                    conds.append(h.abs(out[i][k] - want_k) <= bound)
                return h.all(conds)

            h.check("within-1e-8-slack-of-M.p", h.forall(N, slack))

        @contract("C04", TF + ".transform_points", name="linear-only[%dD]" % d)
        def transform_points_notranslate(h):
            N = h.length("N")
            P = h.lreals("P", N, (d,))
            M = h.reals("M", (d + 1, d + 1))
            out = h.fn(TF + ".transform_points")(P, M, translate=False)
            np = h.np
            dev = np.abs(M - np.eye(d + 1)).max()
            h.check("rows", h.forall(N, lambda i: h.implies(dev >= 1e-8, h.eq(out[i], M[:d, :d].dot(P[i])))))

        @contract("C04", TF + ".transform_points", name="inverse-and-composition[%dD]" % d)
        def transform_points_laws(h):
            """lemmas over the contract: apply(M) then apply(M^-1) restores; apply(A) then
            apply(B) equals apply(B.A)   (exact off the identity shortcuts)"""
            N = h.length("N")
            P = h.lreals("P", N, (d,))
            A = _affine(h, "A", d)
            B = _affine(h, "B", d)
            np = h.np
            tp = h.fn(TF + ".transform_points")
            I = np.eye(d + 1)
            offA = np.abs(A - I).max() >= 1e-8
            offB = np.abs(B - I).max() >= 1e-8
            BA = B.dot(A)
            offBA = np.abs(BA - I).max() >= 1e-8
            h.assume([offA, offB, offBA])
            two = tp(tp(P, A), B)
            one = tp(P, BA)
            h.check("apply(A);apply(B)=apply(B.A)", h.forall(N, lambda i: h.eq(two[i], one[i])))
            # inverse: B.A = I  =>  restored
            h.check("apply(M);apply(M^-1)=id", h.implies(h.eq(BA, I), h.forall(N, lambda i: h.eq(two[i], P[i]))))

    _mk(_d)


def _det3(R):
    return (
        R[0, 0] * (R[1, 1] * R[2, 2] - R[1, 2] * R[2, 1])
        - R[0, 1] * (R[1, 0] * R[2, 2] - R[1, 2] * R[2, 0])
        + R[0, 2] * (R[1, 0] * R[2, 1] - R[1, 1] * R[2, 0])
    )


def _cross(a, b):
    return [a[1] * b[2] - a[2] * b[1], a[2] * b[0] - a[0] * b[2], a[0] * b[1] - a[1] * b[0]]


@contract("C04", TF + ".flips_winding", name="iff-det-negative", timeout=90000, budget=3000, tier="thorough")
def flips_winding(h):
    """for EVERY draw of the nine random points: result <=> det(M[:3,:3]) < 0"""
    M = h.reals("M", (4, 4))
    tri = h.reals("rnd", (9, 3))  # the values numpy.random.random((9,3)) will return
    h.assume([tri[i, k] >= 0 for i in range(9) for k in range(3)] + [tri[i, k] < 1 for i in range(9) for k in range(3)])
    h.random_queue(tri)
    det = _det3(M)
    h.assume(h.not_(det == 0))
    np = h.np
    R = M[:3, :3]
    # hint lemmas, stated over values recomputed here with the same numpy expressions the
    # function uses (so that the square roots are the same terms); each is discharged like
    # any other clause before it may be used
    rot = np.dot(R, tri.T).T
    triangles = np.vstack((tri, rot)).reshape((-1, 3, 3))
    vectors = np.diff(triangles, axis=1)
    cross = np.cross(vectors[:, 0], vectors[:, 1])
    for t in range(3):
        n = cross[t]
        h.assume(n[0] * n[0] + n[1] * n[1] + n[2] * n[2] > 0)  # sampled triangle not degenerate
    cross[:3] = np.dot(R, cross[:3].T).T
    sq = np.dot(cross * cross, [1, 1, 1])
    for t in range(3):
        n0 = np.cross(vectors[t, 0], vectors[t, 1])
        nn = n0[0] * n0[0] + n0[1] * n0[1] + n0[2] * n0[2]
        a, b = cross[t], cross[t + 3]
        # algebraic certificates: adj(M).(M n) = det n  and  M^T.((Me1)x(Me2)) = det n
        adj = [[R[(j + 1) % 3, (i + 1) % 3] * R[(j + 2) % 3, (i + 2) % 3] - R[(j + 1) % 3, (i + 2) % 3] * R[(j + 2) % 3, (i + 1) % 3] for j in range(3)] for i in range(3)]
        h.check("lemma:adj(M).(Mn)=det*n[%d]" % t, h.all([h.eq(sum(adj[i][j] * a[j] for j in range(3)), det * n0[i]) for i in range(3)]), lemma=True)
        h.check("lemma:M^T.((Me1)x(Me2))=det*n[%d]" % t, h.all([h.eq(sum(R[j, i] * b[j] for j in range(3)), det * n0[i]) for i in range(3)]), lemma=True)
        h.check("lemma:(Mn).((Me1)x(Me2))=det*|n|^2[%d]" % t, h.eq(a[0] * b[0] + a[1] * b[1] + a[2] * b[2], det * nn), lemma=True)
        h.check("lemma:|(Me1)x(Me2)|^2=det^2*|M^-T n|^2>0[%d]" % t, sq[t + 3] > 0, lemma=True)
        h.check("lemma:|Mn|^2>0[%d]" % t, sq[t] > 0, lemma=True)
    norm = np.sqrt(sq).reshape((-1, 1))
    unit = cross / norm
    projection = np.dot(unit[:3] * unit[3:], [1.0] * 3)
    ps = []
    for t in range(3):
        a, b = cross[t], cross[t + 3]
        na, nb = norm[t, 0], norm[t + 3, 0]
        n0 = np.cross(vectors[t, 0], vectors[t, 1])
        nn = n0[0] * n0[0] + n0[1] * n0[1] + n0[2] * n0[2]
        # definitional names (fresh variable := term) keep the sign argument atomic
        if h.mode == "sym":
            p_, q_, nn_ = h.fresh_real("proj"), h.fresh_real("q"), h.fresh_real("nn")
            h.assume(p_ == projection[t], name="def:p[%d]" % t)
            h.assume(q_ == na * nb, name="def:q[%d]" % t)
            h.assume(nn_ == nn, name="def:nn[%d]" % t)
            ab_ = h.fresh_real("ab")
            h.assume(ab_ == a[0] * b[0] + a[1] * b[1] + a[2] * b[2], name="def:ab[%d]" % t)
        else:
            p_, q_, nn_ = projection[t], na * nb, nn
            ab_ = a[0] * b[0] + a[1] * b[1] + a[2] * b[2]
        ps.append(p_)
        h.check("lemma:norms-positive[%d]" % t, h.all([na > 0, nb > 0, h.eq(na * na, sq[t]), h.eq(nb * nb, sq[t + 3])]), lemma=True)
        h.check("lemma:q=|a||b|>0[%d]" % t, q_ > 0, lemma=True)
        h.check("lemma:projection*|a||b|=a.b[%d]" % t, h.eq(projection[t] * (na * nb), a[0] * b[0] + a[1] * b[1] + a[2] * b[2]), lemma=True)
        h.check("lemma:|n|^2>0[%d]" % t, nn_ > 0, lemma=True)
        sym = h.mode == "sym"
        h.check("lemma:ab=det*nn[%d]" % t, h.eq(ab_, det * nn_), lemma=True, using=(["def:ab[%d]" % t, "def:nn[%d]" % t, "lemma:(Mn).((Me1)x(Me2))=det*|n|^2[%d]" % t] if sym else None))
        h.check("lemma:p*q=ab[%d]" % t, h.eq(p_ * q_, ab_), lemma=True, using=(["def:p[%d]" % t, "def:q[%d]" % t, "def:ab[%d]" % t, "lemma:projection*|a||b|=a.b[%d]" % t] if sym else None))
        h.check("lemma:p*q=det*|n|^2[%d]" % t, h.eq(p_ * q_, det * nn_), lemma=True, using=(["lemma:ab=det*nn[%d]" % t, "lemma:p*q=ab[%d]" % t] if sym else None))
        h.check("lemma:sign(projection)=sign(det)[%d]" % t, h.all([h.implies(det < 0, p_ < 0), h.implies(det > 0, p_ > 0)]), lemma=True, using=(["lemma:q=|a||b|>0[%d]" % t, "lemma:|n|^2>0[%d]" % t, "lemma:p*q=det*|n|^2[%d]" % t] if h.mode == "sym" else None))
    h.check("lemma:sign(mean)=sign(det)", h.all([h.implies(det < 0, ps[0] + ps[1] + ps[2] < 0), h.implies(det > 0, ps[0] + ps[1] + ps[2] > 0)]), lemma=True, using=(["lemma:sign(projection)=sign(det)[%d]" % t for t in range(3)] if h.mode == "sym" else None))
    flip = h.fn(TF + ".flips_winding")(M)
    h.check("flip<=>det<0", h.all([h.implies(det < 0, flip), h.implies(det > 0, h.not_(flip))]))


# (a weaker "one fixed draw of the random points" variant used to be registered here; it is
# subsumed by the every-draw contract above, which discharges with the lemma chain, and was
# itself not decided within 120 s - removed rather than left undecided)


# ----------------------------------------------------------------------------- bounded: the real classes


@bounded("C04", name="real-classes:apply_transform", note="fixed family of meshes/points/paths/scenes/voxels x matrices on the really imported classes")
def classes_apply_transform(tier, seed):
    import copy as _copy

    import numpy as np
    import trimesh
    from trimesh import transformations as tf

    from contracts import common as C

    fails = []
    cases = 0
    mats = C.matrices(tier)

    def bad(what, **kw):
        if len(fails) < 5:
            fails.append(dict(what=what, **{k: (v.tolist() if hasattr(v, "tolist") else v) for k, v in kw.items()}))

    for (mname, mk), (xname, M) in itertools.product(C.meshes(tier), mats):
        for preread in (False, True):
            cases += 1
            m = mk()
            m.vertex_attributes["tag"] = np.arange(len(m.vertices))
            m.face_attributes["ftag"] = np.arange(len(m.faces))
            v0, f0 = m.vertices.copy(), m.faces.copy()
            ref = trimesh.Trimesh(v0, f0, process=False)
            vol0, com0, area0 = ref.volume, ref.center_mass.copy(), ref.area
            solid = ref.is_watertight and ref.is_winding_consistent and vol0 > 1e-9
            I0 = ref.moment_inertia.copy()
            if preread:
                _ = (m.face_normals, m.vertex_normals, m.edges_unique, m.face_adjacency, m.volume, m.bounds, m.area_faces)
            ret = m.apply_transform(M)
            L = M[:3, :3]
            det = np.linalg.det(L)
            want_v = v0 @ L.T + M[:3, 3]
            key = dict(mesh=mname, matrix=xname, preread=preread)
            if ret is not m:
                bad("apply_transform does not return self", **key)
            if not C.close(m.vertices, want_v):
                bad("vertices != M.p", **key)
            if len(m.faces) != len(f0) or len(m.vertices) != len(v0):
                bad("counts changed", **key)
            want_tris = want_v[f0][:, ::-1] if det < 0 else want_v[f0]
            if C.tri_multiset(m.vertices[m.faces]) != C.tri_multiset(want_tris):
                bad("triangles / winding: faces must be re-wound exactly when det < 0", **key)
            if not (np.array_equal(m.vertex_attributes["tag"], np.arange(len(v0))) and np.array_equal(m.face_attributes["ftag"], np.arange(len(f0)))):
                bad("attributes changed", **key)
            fresh = trimesh.Trimesh(m.vertices.copy(), m.faces.copy(), process=False)
            if solid:
                if not C.close(fresh.volume, abs(det) * vol0, rtol=1e-7):
                    bad("volume != |det| volume", got=fresh.volume, want=abs(det) * vol0, **key)
                if not C.close(fresh.center_mass, L @ com0 + M[:3, 3], rtol=1e-7, atol=1e-8):
                    bad("centre of mass does not map through M", **key)
                s = abs(det) ** (1.0 / 3.0)
                if C.close(L @ L.T, s * s * np.eye(3), rtol=1e-9):
                    if not C.close(fresh.area, s * s * area0, rtol=1e-7):
                        bad("area != s^2 area", **key)
                    Rm = L / s
                    if not C.close(fresh.moment_inertia, s**5 * (Rm @ I0 @ Rm.T), rtol=1e-6, atol=1e-8):
                        bad("inertia != s^5 R I R^T", **key)
            # inverse restores
            m.apply_transform(np.linalg.inv(M))
            if not C.close(m.vertices, v0, rtol=1e-7, atol=1e-7) or C.tri_multiset(m.vertices[m.faces], 5) != C.tri_multiset(v0[f0], 5):
                bad("apply(M) then apply(M^-1) does not restore", **key)
    # a user-given centre of mass (stored with the mesh data) is a point of the body: it maps
    # through every M, a pure translation included, and composition / inverse hold for it
    for xname, M in list(mats) + [("pure-translation", tf.translation_matrix([3.0, -2.0, 0.5])), ("tiny-translation", tf.translation_matrix([1e-9, 0.0, 0.0]))]:
        cases += 1
        m = trimesh.creation.box(extents=[1.0, 2.0, 3.0])
        c0 = np.array([0.25, -0.5, 1.0])
        m.center_mass = c0
        _ = m.mass_properties
        I_before = m.moment_inertia.copy()
        m.apply_transform(M)
        if xname == "pure-translation" and not C.close(m.moment_inertia, I_before, rtol=1e-9, atol=1e-9):
            bad("overridden centre of mass: inertia about it changes under a pure translation", matrix=xname, got=float(np.abs(m.moment_inertia - I_before).max()))
        want = M[:3, :3] @ c0 + M[:3, 3]
        if not C.close(m.center_mass, want, rtol=1e-9, atol=1e-12):
            bad("overridden centre of mass does not map through M", matrix=xname, got=m.center_mass, want=want)
        m.apply_transform(np.linalg.inv(M))
        if not C.close(m.center_mass, c0, rtol=1e-7, atol=1e-9):
            bad("overridden centre of mass: apply(M) then apply(M^-1) does not restore", matrix=xname)
    # composition
    for (mname, mk) in C.meshes(tier):
        for (an, A), (bn, B) in itertools.product(mats[1:6], mats[3:8]):
            cases += 1
            a = mk().apply_transform(A).apply_transform(B)
            b = mk().apply_transform(B @ A)
            if not C.close(a.vertices, b.vertices, rtol=1e-7) or C.tri_multiset(a.triangles, 5) != C.tri_multiset(b.triangles, 5):
                bad("apply(A);apply(B) != apply(B.A)", mesh=mname, A=an, B=bn)
    # point clouds, paths, scenes, voxels, primitives
    rs = np.random.RandomState(seed)
    for xname, M in mats:
        L, t = M[:3, :3], M[:3, 3]
        cases += 1
        pts = rs.rand(7, 3)
        pc = trimesh.PointCloud(pts.copy(), colors=np.tile([10, 20, 30, 255], (7, 1)))
        pc.apply_transform(M)
        if not C.close(pc.vertices, pts @ L.T + t) or not np.array_equal(pc.colors, np.tile([10, 20, 30, 255], (7, 1))):
            bad("PointCloud.apply_transform", matrix=xname)
        cases += 1
        p3 = trimesh.load_path(np.array([[0, 0, 0], [1, 0, 0], [1, 1, 0.5], [0, 0, 0]], dtype=float))
        v0 = p3.vertices.copy()
        ents = [e.points.copy() for e in p3.entities]
        _ = p3.length
        p3.apply_transform(M)
        if not C.close(p3.vertices, v0 @ L.T + t) or any(not np.array_equal(e.points, q) for e, q in zip(p3.entities, ents)):
            bad("Path3D.apply_transform", matrix=xname)
        cases += 1
        sc = trimesh.Scene()
        sc.add_geometry(trimesh.creation.box(), node_name="a", transform=tf.translation_matrix([1, 2, 3]))
        sc.add_geometry(trimesh.creation.icosphere(subdivisions=1), node_name="b", parent_node_name="a", transform=tf.rotation_matrix(0.5, [0, 1, 0]))
        before = {n: sc.graph.get(n)[0].copy() for n in sc.graph.nodes_geometry}
        sc.apply_transform(M)
        for n, W in before.items():
            if not C.close(sc.graph.get(n)[0], M @ W, rtol=1e-9):
                bad("Scene.apply_transform: world transform of node != M.W", node=n, matrix=xname)
        cases += 1
        vg = trimesh.creation.box(extents=[1, 1, 2]).voxelized(0.5)
        p0 = vg.points.copy()
        dense0 = vg.matrix.copy()
        vg.apply_transform(M)
        if not C.close(vg.points, p0 @ L.T + t, rtol=1e-9) or not np.array_equal(vg.matrix, dense0):
            bad("VoxelGrid.apply_transform", matrix=xname)
    M2 = np.array([[0.0, -2, 7.0], [2.0, 0, -1.0], [0, 0, 1.0]])
    cases += 1
    p2 = trimesh.load_path(np.array([[0, 0], [2, 0], [2, 1], [0, 0]], dtype=float))
    a0, v0 = p2.area, p2.vertices.copy()
    p2.apply_transform(M2)
    if not C.close(p2.vertices, v0 @ M2[:2, :2].T + M2[:2, 2]) or not C.close(p2.area, 4.0 * a0):
        bad("Path2D.apply_transform (similarity s=2): vertices / area", area=p2.area, want=4.0 * a0)
    # primitives: similarity re-parameterises, result mesh equals the transformed mesh
    sim = tf.rotation_matrix(0.4, [1, 0, 1], [0.1, 0.2, 0.3]) @ tf.scale_matrix(1.7)
    for pname, mkp in (
        ("Box", lambda: trimesh.primitives.Box(extents=[1, 2, 3])),
        ("Sphere", lambda: trimesh.primitives.Sphere(radius=1.2, subdivisions=1)),
        ("Cylinder", lambda: trimesh.primitives.Cylinder(radius=0.5, height=2.0, sections=8)),
        ("Capsule", lambda: trimesh.primitives.Capsule(radius=0.5, height=2.0, sections=8)),
    ):
        cases += 1
        pr = mkp()
        w = tf.transform_points(pr.vertices.copy(), sim)
        vol = pr.volume
        pr.apply_transform(sim)
        got = np.asarray(pr.vertices)
        if pname == "Sphere":
            # a sphere keeps no orientation: its point SET is invariant under the rotation
            # part, so compare centre and radius (not individual tessellation vertices)
            c_want = tf.transform_points([[0.0, 0.0, 0.0]], sim)[0]
            if not C.close(pr.primitive.center, c_want, rtol=1e-9) or not C.close(float(pr.primitive.radius), 1.2 * 1.7, rtol=1e-9) or not C.close(np.linalg.norm(got - c_want, axis=1), np.full(len(got), 1.2 * 1.7), rtol=1e-6):
                bad("Sphere.apply_transform (similarity): centre / radius", primitive=pname)
        elif len(got) != len(w) or not C.close(np.sort(np.round(got, 6), axis=0), np.sort(np.round(w, 6), axis=0), rtol=1e-5, atol=1e-5):
            bad("primitive.apply_transform (similarity): mesh != transformed mesh", primitive=pname)
        if not C.close(pr.volume, vol * 1.7**3, rtol=1e-6):
            bad("primitive volume after similarity", primitive=pname)
    return C.result(cases, cases, fails, "meshes %s x matrices %s x {cache cold, cache warm}; composition pairs; point cloud / path / scene / voxel / primitive instances" % ([n for n, _ in C.meshes(tier)], [n for n, _ in mats]), exhaustive=True, sample={"mesh": "box", "matrix": "mirror_x", "preread": True})
