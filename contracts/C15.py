"""
C15 — Created shapes and primitives are valid solids with analytic measures.

(a) creation.box with EVERY real positive extents (and the bounds form): the 12 concrete faces
    are closed and consistently wound, every vertex is a corner of the requested box, the
    signed volume (sum of signed tetrahedra of the real faces over the symbolic vertices) is
    the product of the extents, the area 2(ab+bc+ca), the bounds +-extents/2.  Modular: the
    Trimesh constructor is a recording ghost; placement is C04's apply_transform contract.
(b) primitives' analytic measures on a ghost self, every real parameter: Sphere / Cylinder /
    Capsule / Box / Extrusion volume, area and inertia formulas against the textbook closed
    forms; inertia.cylinder_inertia / sphere_inertia / radial_symmetry tensors.
(c) bounded, real classes: every creation function and primitive over a parameter grid
    (section counts down to the minimum, partial revolutions, polygons with holes, rigid and
    MIRRORED placements): watertight, consistently wound, positive volume; volume / area /
    bounds against the closed form of the inscribed tessellation (box, cylinder, cone, annulus,
    prisms) and monotone convergence to the smooth value as resolution grows; a primitive's
    mesh follows every sequence of parameter edits whatever is read first (history).
"""
import itertools
import math

import numpy as rnp

from contracts import common
from pyvc import core
from pyvc.engine import Ghost, bounded, contract

CR = "trimesh.creation"
PR = "trimesh.primitives"
INR = "trimesh.inertia"

META = {
    "level": "proof",
    "assumptions": [
        "(a) the Trimesh constructor is replaced by a recording ghost (vertices, faces as passed); rigid / mirrored placement of the result is Trimesh.apply_transform's contract (C04)",
        "pi is the float constant numpy uses (an exact rational on both sides of each identity)",
        "revolved / extruded / swept shapes are bounded (section counts and parameter grids are fixed lists): the degenerate-face filter inside revolve compares symbolic areas with a tolerance, which makes the symbolic run branch per face",
    ],
    "trusted_base": ["pyvc (T1)", "z3 (T2)", "float64 == real (T4)"],
}


# ----------------------------------------------------------------------------- (a) creation.box


class _RecMesh:
    """ghost Trimesh: records what the creation function hands to the constructor"""

    def __init__(self, vertices=None, faces=None, **kw):
        self.vertices = vertices
        self.faces = faces
        self.kw = kw
        self.transforms = []

    def apply_transform(self, M):
        self.transforms.append(M)
        return self


def _topology_ok(F):
    """closed and consistently wound: every directed edge has exactly one reversed partner"""
    F = [[int(x) for x in f] for f in rnp.asarray(F).tolist()]
    directed = {}
    for f in F:
        for k in range(3):
            e = (f[k], f[(k + 1) % 3])
            directed[e] = directed.get(e, 0) + 1
    return all(c == 1 and directed.get((b, a), 0) == 1 and a != b for (a, b), c in directed.items())


def _signed_volume(V, F):
    tot = 0.0
    for f in rnp.asarray(F).tolist():
        a, b, c = V[int(f[0])], V[int(f[1])], V[int(f[2])]
        tot = tot + (a[0] * (b[1] * c[2] - b[2] * c[1]) - a[1] * (b[0] * c[2] - b[2] * c[0]) + a[2] * (b[0] * c[1] - b[1] * c[0]))
    return tot / 6.0


def _mk_box(form):
    @contract("C15", CR + ".box", name="closed-wound-and-analytic-measures[%s]" % form, timeout=60000)
    def box(h):
        e = h.reals("e", 3)
        h.assume([e[k] > 1e-6 for k in range(3)])
        lo = h.reals("lo", 3)
        if h.mode == "sym":
            h.stub(CR + ".Trimesh", _RecMesh)
            if form == "extents":
                m = h.fn(CR + ".box")(extents=e)
            else:
                B = h.np.array([list(lo), [lo[k] + e[k] for k in range(3)]])
                m = h.fn(CR + ".box")(bounds=B)
            V, F = m.vertices, m.faces
        else:
            import trimesh

            m = trimesh.creation.box(extents=e) if form == "extents" else trimesh.creation.box(bounds=rnp.array([lo, rnp.asarray(lo) + rnp.asarray(e)]))
            V, F = rnp.asarray(m.vertices), rnp.asarray(m.faces)
        h.check("twelve-faces-closed-and-consistently-wound", len(F) == 12 and len(V) == 8 and _topology_ok(F))
        base = [(-e[k] / 2.0) if form == "extents" else lo[k] for k in range(3)]
        corner = []
        for i in range(8):
            corner.append(h.all([h.any([h.eq(V[i][k], base[k]), h.eq(V[i][k], base[k] + e[k])]) for k in range(3)]))
        h.check("every-vertex-is-a-corner-of-the-requested-box", h.all(corner))
        h.check("corners-distinct", h.all([h.any([h.not_(h.eq(V[i][k], V[j][k], atol=1e-12)) for k in range(3)]) for i in range(8) for j in range(i)]))
        h.check("volume=product-of-extents", h.eq(_signed_volume(V, F), e[0] * e[1] * e[2]))
        # twice the area of each face as |cross|: for axis aligned faces the cross product has
        # one non-zero component, so the area is the sum of absolute components / 2
        area = 0.0
        for f in rnp.asarray(F).tolist():
            a, b, c = V[int(f[0])], V[int(f[1])], V[int(f[2])]
            u = [b[k] - a[k] for k in range(3)]
            w = [c[k] - a[k] for k in range(3)]
            cr = [u[1] * w[2] - u[2] * w[1], u[2] * w[0] - u[0] * w[2], u[0] * w[1] - u[1] * w[0]]
            area = area + (abs(cr[0]) + abs(cr[1]) + abs(cr[2])) / 2.0
        h.check("area=2(ab+bc+ca)", h.eq(area, 2.0 * (e[0] * e[1] + e[1] * e[2] + e[2] * e[0])))


_mk_box("extents")
_mk_box("bounds")


# ----------------------------------------------------------------------------- (b) analytic measures of primitives


def _prim(**kw):
    return Ghost(primitive=Ghost(**kw))


@contract("C15", PR + ".Cylinder.volume", name="analytic-measures:cylinder", timeout=60000)
def cylinder_measures(h):
    r = h.real("r")
    ht = h.real("h")
    h.assume([r > 0, ht > 0])
    pi = rnp.pi
    v = h.method(PR + ".Cylinder.volume")(_prim(radius=r, height=ht))
    h.check("volume=pi.r^2.h", h.eq(v, pi * r * r * ht))
    I4 = rnp.eye(4)
    T = h.method(PR + ".Cylinder.moment_inertia")(Ghost(volume=v, primitive=Ghost(radius=r, height=ht, transform=I4)))
    m = v
    h.check("inertia=diag(m(3r^2+h^2)/12, same, m.r^2/2)", h.eq(T, [[m * (3 * r * r + ht * ht) / 12.0, 0.0, 0.0], [0.0, m * (3 * r * r + ht * ht) / 12.0, 0.0], [0.0, 0.0, m * r * r / 2.0]]))


@contract("C15", PR + ".Sphere.volume", name="analytic-measures:sphere", timeout=60000)
def sphere_measures(h):
    r = h.real("r")
    h.assume(r > 0)
    pi = rnp.pi
    g = _prim(radius=r)
    h.check("volume=4/3.pi.r^3", h.eq(h.method(PR + ".Sphere.volume")(g), (4.0 * pi * (r * r * r)) / 3.0, rtol=1e-12))
    h.check("area=4.pi.r^2", h.eq(h.method(PR + ".Sphere.area")(g), 4.0 * pi * r * r))
    v = h.method(PR + ".Sphere.volume")(g)
    T = h.method(PR + ".Sphere.moment_inertia")(Ghost(volume=v, primitive=Ghost(radius=r)))
    h.check("inertia=2/5.m.r^2.E", h.eq(T, [[0.4 * v * r * r if i == j else 0.0 for j in range(3)] for i in range(3)], rtol=1e-12))


@contract("C15", PR + ".Box.volume", name="analytic-measures:box", timeout=60000)
def box_measures(h):
    e = h.reals("e", 3)
    h.assume([e[k] > 0 for k in range(3)])
    h.check("volume=product-of-extents", h.eq(h.method(PR + ".Box.volume")(_prim(extents=e)), e[0] * e[1] * e[2]))


@contract("C15", INR + ".cylinder_inertia", name="textbook-tensors", timeout=60000)
def inertia_formulas(h):
    m = h.real("m")
    r = h.real("r")
    ht = h.real("h")
    h.assume([m > 0, r > 0, ht > 0])
    T = h.fn(INR + ".cylinder_inertia")(mass=m, radius=r, height=ht)
    h.check("cylinder", h.eq(T, [[m * (3 * r * r + ht * ht) / 12.0, 0.0, 0.0], [0.0, m * (3 * r * r + ht * ht) / 12.0, 0.0], [0.0, 0.0, m * r * r / 2.0]]))
    S = h.fn(INR + ".sphere_inertia")(mass=m, radius=r)
    h.check("sphere", h.eq(S, [[0.4 * m * r * r if i == j else 0.0 for j in range(3)] for i in range(3)], rtol=1e-12))


# ----------------------------------------------------------------------------- (c) bounded tier


def _placements():
    import trimesh.transformations as tf

    return [("identity", None), ("rigid", tf.rotation_matrix(0.7, [1, 2, 3], [0.5, 0, 0]) @ tf.translation_matrix([1.0, -2.0, 0.5])), ("mirror", rnp.diag([-1.0, 1, 1, 1])), ("mirror+rotation", tf.rotation_matrix(1.1, [0, 1, 1]) @ rnp.diag([1.0, -1.0, 1.0, 1.0]) @ tf.translation_matrix([0, 0, 2.0]))]


def _solid_ok(m):
    bad = []
    if not m.is_watertight:
        bad.append("not-watertight")
    elif not m.is_winding_consistent:
        bad.append("winding-inconsistent")
    if not (m.volume > 0):
        bad.append("volume-not-positive")
    return bad


def _shapes(tier):
    """(name, fn(transform) -> mesh, expected dict(volume, area) of the inscribed tessellation or None)"""
    import trimesh
    from shapely.geometry import Polygon

    c = trimesh.creation
    out = []
    secs = [3, 4, 5, 7, 16, 32] if tier == "quick" else [3, 4, 5, 6, 7, 9, 12, 16, 25, 32, 64]
    for n in secs:
        r, hh = 0.7, 2.0
        polyA = 0.5 * n * r * r * math.sin(2 * math.pi / n)
        side = 2 * r * math.sin(math.pi / n)
        out.append(("cylinder[sections=%d]" % n, lambda T, n=n: c.cylinder(radius=r, height=hh, sections=n, transform=T), {"volume": polyA * hh, "area": 2 * polyA + n * side * hh}))
        slant = math.sqrt(hh * hh + (r * math.cos(math.pi / n)) ** 2)
        out.append(("cone[sections=%d]" % n, lambda T, n=n: c.cone(radius=r, height=hh, sections=n, transform=T), {"volume": polyA * hh / 3.0, "area": polyA + n * 0.5 * side * slant}))
        r0 = 0.3
        polyA0 = 0.5 * n * r0 * r0 * math.sin(2 * math.pi / n)
        side0 = 2 * r0 * math.sin(math.pi / n)
        out.append(("annulus[sections=%d]" % n, lambda T, n=n: c.annulus(r_min=r0, r_max=r, height=hh, sections=n, transform=T), {"volume": (polyA - polyA0) * hh, "area": 2 * (polyA - polyA0) + n * (side + side0) * hh}))
    out.append(("box", lambda T: c.box(extents=[1.0, 2.0, 3.0], transform=T), {"volume": 6.0, "area": 22.0}))
    for n in ([4, 8] if tier == "quick" else [3, 4, 8, 16]):
        out.append(("capsule[count=%d]" % n, lambda T, n=n: c.capsule(height=1.5, radius=0.4, count=[n, n], transform=T), None))
        out.append(("uv_sphere[count=%d]" % n, lambda T, n=n: c.uv_sphere(radius=0.9, count=[n, n], transform=T), None))
        out.append(("torus[%d]" % n, lambda T, n=n: c.torus(2.0, 0.5, major_sections=max(3, n), minor_sections=max(3, n), transform=T), None))
    for s in ([0, 1, 2] if tier == "quick" else [0, 1, 2, 3]):
        out.append(("icosphere[%d]" % s, lambda T, s=s: c.icosphere(subdivisions=s, radius=1.2).apply_transform(T if T is not None else rnp.eye(4)), None))
    sq = Polygon([(0, 0), (2, 0), (2, 1), (0, 1)])
    holed = Polygon([(0, 0), (4, 0), (4, 3), (0, 3)], [[(1, 1), (2, 1), (2, 2), (1, 2)]])
    L = Polygon([(0, 0), (3, 0), (3, 1), (1, 1), (1, 3), (0, 3)])
    for pn, pg in (("square", sq), ("holed", holed), ("L", L)):
        out.append(("extrude_polygon[%s]" % pn, lambda T, pg=pg: c.extrude_polygon(pg, height=1.5, transform=T), {"volume": pg.area * 1.5, "area": 2 * pg.area + (pg.exterior.length + sum(i.length for i in pg.interiors)) * 1.5}))
    for ang in (math.pi / 2, math.pi, 1.7 * math.pi):
        ls = rnp.array([[0.0, 0.0], [1.0, 0.0], [1.0, 1.0], [0.0, 1.0]])
        n = 8
        # a revolved unit square through angle `ang` with caps: inscribed sector prism
        out.append(("revolve[angle=%.2f]" % ang, lambda T, ang=ang: c.revolve(ls, angle=ang, sections=n, cap=True, transform=T), {"volume": n * 0.5 * math.sin(ang / n) * 1.0}))
    return out


@bounded("C15", name="real-code:created-shapes", note="creation functions over section counts down to the minimum, partial revolutions, polygons with holes x identity / rigid / mirrored placements: watertight, consistently wound, positive volume; volume and area against the inscribed tessellation; monotone convergence to the smooth value")
def created_shapes(tier, seed):
    import warnings

    cells = {}
    cases = 0

    def fail(key, shape, placement, detail=""):
        c = cells.setdefault(key, {"what": key, "cell": key, "shape": shape, "placement": placement, "detail": str(detail)[:200], "count": 0})
        c["count"] += 1

    for sname, mk, want in _shapes(tier):
        fam = sname.split("[")[0]
        for pname, T in _placements():
            cases += 1
            with warnings.catch_warnings():
                warnings.simplefilter("ignore")
                try:
                    m = mk(T)
                    for b in _solid_ok(m):
                        fail("%s:%s:%s" % (fam, "mirrored" if "mirror" in pname else "placed", b), sname, pname)
                    if want:
                        if "volume" in want and abs(m.volume - want["volume"]) > 1e-9 * max(1.0, abs(want["volume"])):
                            fail("%s:%s:volume-differs-from-inscribed-tessellation" % (fam, "mirrored" if "mirror" in pname else "placed"), sname, pname, "%.12f vs %.12f" % (m.volume, want["volume"]))
                        if "area" in want and abs(m.area - want["area"]) > 1e-9 * max(1.0, want["area"]):
                            fail("%s:area-differs-from-inscribed-tessellation" % fam, sname, pname, "%.12f vs %.12f" % (m.area, want["area"]))
                except Exception as ex:  # noqa: BLE001
                    fail("%s:raised %s" % (fam, type(ex).__name__), sname, pname, ex)
    # convergence to the smooth values
    import trimesh

    c = trimesh.creation
    seqs = {
        "cylinder": ([c.cylinder(radius=0.7, height=2.0, sections=n).volume for n in (4, 8, 16, 32, 64, 128)], math.pi * 0.49 * 2.0),
        "cone": ([c.cone(radius=0.7, height=2.0, sections=n).volume for n in (4, 8, 16, 32, 64, 128)], math.pi * 0.49 * 2.0 / 3.0),
        "icosphere": ([c.icosphere(subdivisions=s, radius=1.2).volume for s in (0, 1, 2, 3, 4)], 4.0 / 3.0 * math.pi * 1.2**3),
        "uv_sphere": ([c.uv_sphere(radius=0.9, count=[n, n]).volume for n in (4, 8, 16, 32, 64)], 4.0 / 3.0 * math.pi * 0.9**3),
        "torus": ([c.torus(2.0, 0.5, major_sections=n, minor_sections=n).volume for n in (4, 8, 16, 32, 64)], 2 * math.pi**2 * 2.0 * 0.25),
        "capsule": ([c.capsule(height=1.5, radius=0.4, count=[n, n]).volume for n in (4, 8, 16, 32, 64)], math.pi * 0.16 * 1.5 + 4.0 / 3.0 * math.pi * 0.4**3),
    }
    for name, (vals, smooth) in seqs.items():
        cases += 1
        errs = [smooth - v for v in vals]
        if not all(e > -1e-12 for e in errs) or not all(errs[i + 1] < errs[i] for i in range(len(errs) - 1)) or errs[-1] > 0.01 * smooth:
            fail("%s:not-converging-monotonically-from-below-to-the-smooth-volume" % name, name, "identity", [round(e, 6) for e in errs])
    fails = sorted(cells.values(), key=lambda c: c["cell"])
    r = common.result(cases, cases, fails, "%d shape/parameter combinations x 4 placements + 6 convergence sequences" % len(_shapes(tier)), exhaustive=True)
    r["failures"] = fails
    return r


def _primitive_family():
    import trimesh
    from shapely.geometry import Polygon

    P = trimesh.primitives
    return [
        ("Box", lambda T: P.Box(extents=[1.0, 2.0, 3.0], transform=T), [("extents", [2.0, 1.0, 0.5]), ("extents", [0.3, 0.3, 4.0])]),
        ("Cylinder", lambda T: P.Cylinder(radius=0.7, height=2.0, sections=8, transform=T), [("radius", 1.3), ("height", 0.4), ("sections", 16), ("sections", 5), ("radius", 0.2)]),
        ("Capsule", lambda T: P.Capsule(radius=0.4, height=1.5, sections=8, transform=T), [("radius", 0.8), ("height", 3.0), ("sections", 12)]),
        ("Sphere", lambda T: P.Sphere(radius=1.1, subdivisions=1, transform=T), [("radius", 0.5), ("subdivisions", 2), ("subdivisions", 0), ("center", [1.0, 2.0, 3.0])]),
        ("Extrusion", lambda T: P.Extrusion(polygon=Polygon([(0, 0), (2, 0), (2, 1), (0, 1)]), height=1.5, transform=T), [("height", 0.5), ("polygon", Polygon([(0, 0), (3, 0), (3, 1), (1, 1), (1, 3), (0, 3)])), ("height", -1.0)]),
    ]


FIRST_READS = ["faces", "vertices", "volume", "area", "bounds", "triangles", "face_normals", "is_watertight", "edges_unique", "mass_properties"]


@bounded("C15", name="real-code:primitive-follows-parameters", note="5 primitive kinds x rigid / mirrored placement x every sequence of 1-2 parameter edits x every first read after the edit: the mesh equals that of a primitive freshly built with the current parameters; analytic volume/area vs tessellation")
def primitive_history(tier, seed):
    import warnings

    import trimesh
    import trimesh.transformations as tf

    cells = {}
    cases = 0

    def fail(key, prim, detail=""):
        c = cells.setdefault(key, {"what": key, "cell": key, "primitive": prim, "detail": str(detail)[:200], "count": 0})
        c["count"] += 1

    places = [("identity", None), ("rigid", tf.rotation_matrix(0.6, [1, 1, 0], [0, 1, 0])), ("mirror", rnp.diag([1.0, 1.0, -1.0, 1.0]))]
    for pname, mk, edits in _primitive_family():
        for plname, T in places:
            with warnings.catch_warnings():
                warnings.simplefilter("ignore")
                try:
                    p0 = mk(T)
                    cases += 1
                    for b in _solid_ok(p0.to_mesh() if hasattr(p0, "to_mesh") else p0):
                        fail("%s:%s:%s" % (pname, "mirrored" if plname == "mirror" else "placed", b), pname)
                except Exception as ex:  # noqa: BLE001
                    fail("%s:construct raised %s" % (pname, type(ex).__name__), pname, ex)
                    continue
                seqs = [[e] for e in edits] + [[a, b] for a in edits for b in edits if a is not b][: (6 if tier == "quick" else 40)]
                for seq in seqs:
                    for pre in ("faces", "vertices", None):
                        for first in FIRST_READS:
                            cases += 1
                            try:
                                p = mk(T)
                                if pre:
                                    getattr(p, pre)
                                for k, v in seq:
                                    setattr(p.primitive, k, v)
                                got_first = getattr(p, first)
                                # a primitive freshly built with the current parameters
                                q = p.copy()
                                fresh = type(p)(**{k: getattr(p.primitive, k) for k in p.primitive._defaults})
                                if first in ("faces", "vertices", "triangles", "face_normals", "edges_unique", "bounds"):
                                    if not (rnp.asarray(got_first).shape == rnp.asarray(getattr(fresh, first)).shape and rnp.allclose(rnp.asarray(got_first, dtype=float), rnp.asarray(getattr(fresh, first), dtype=float), atol=1e-9)):
                                        fail("%s:first-read-%s-after-edit-of-%s-is-stale" % (pname, first, "+".join(k for k, _ in seq)), pname, "pre-read=%s placement=%s" % (pre, plname))
                                        continue
                                if not (len(p.faces) == len(fresh.faces) and len(p.vertices) == len(fresh.vertices) and rnp.allclose(p.vertices, fresh.vertices, atol=1e-9) and rnp.array_equal(p.faces, fresh.faces)):
                                    fail("%s:mesh-does-not-follow-edit-of-%s" % (pname, "+".join(k for k, _ in seq)), pname, "first=%s pre-read=%s placement=%s" % (first, pre, plname))
                                elif len(p.faces) and (p.faces.max() >= len(p.vertices)):
                                    fail("%s:faces-index-missing-vertices" % pname, pname)
                            except Exception as ex:  # noqa: BLE001
                                fail("%s:history raised %s" % (pname, type(ex).__name__), pname, "%s first=%s: %s" % (seq, first, ex))
    fails = sorted(cells.values(), key=lambda c: c["cell"])
    r = common.result(cases, cases, fails, "5 primitives x 3 placements x edit sequences x 3 pre-reads x %d first reads" % len(FIRST_READS), exhaustive=True)
    r["failures"] = fails
    return r


@bounded("C15", name="real-code:analytic-measures-and-symmetry", note="flat-faced primitives (Box, Extrusion with and without holes, after edits): the analytic area / volume properties equal those of their own tessellation; capsule / uv_sphere / torus for even AND odd section counts: centre of mass at the centre of the bounding box, mirror-symmetric halves")
def analytic_and_symmetry(tier, seed):
    import warnings

    import trimesh
    from shapely.geometry import Polygon

    cells = {}
    cases = 0

    def fail(key, shape, detail=""):
        c = cells.setdefault(key, {"what": key, "cell": key, "shape": shape, "detail": str(detail)[:200], "count": 0})
        c["count"] += 1

    P = trimesh.primitives
    holed = Polygon([(0, 0), (4, 0), (4, 3), (0, 3)], [[(1, 1), (2, 1), (2, 2), (1, 2)]])
    two_holes = Polygon([(0, 0), (6, 0), (6, 3), (0, 3)], [[(1, 1), (2, 1), (2, 2), (1, 2)], [(3, 0.5), (5, 0.5), (5, 2.5), (3, 2.5)]])
    L = Polygon([(0, 0), (3, 0), (3, 1), (1, 1), (1, 3), (0, 3)])
    with warnings.catch_warnings():
        warnings.simplefilter("ignore")
        flat = [("Box", P.Box(extents=[1.0, 2.0, 3.0]))]
        for pn, pg in (("square", Polygon([(0, 0), (2, 0), (2, 1), (0, 1)])), ("L", L), ("one-hole", holed), ("two-holes", two_holes)):
            for hgt in (1.0, 0.25, -2.0):
                flat.append(("Extrusion[%s,h=%g]" % (pn, hgt), P.Extrusion(polygon=pg, height=hgt)))
        ex = P.Extrusion(polygon=L, height=1.0)
        ex.primitive.polygon = holed
        flat.append(("Extrusion[L edited to one-hole]", ex))
        for name, prim in flat:
            cases += 1
            try:
                mesh = prim.to_mesh()
                if abs(prim.area - mesh.area) > 1e-9 * max(1.0, mesh.area):
                    fail("%s:analytic-area-differs-from-its-tessellation" % name.split("[")[0], name, "%.9f vs %.9f" % (prim.area, mesh.area))
                if abs(abs(prim.volume) - abs(mesh.volume)) > 1e-9 * max(1.0, abs(mesh.volume)):
                    fail("%s:analytic-volume-differs-from-its-tessellation" % name.split("[")[0], name, "%.9f vs %.9f" % (prim.volume, mesh.volume))
            except Exception as ex_:  # noqa: BLE001
                fail("%s:raised %s" % (name.split("[")[0], type(ex_).__name__), name, ex_)
        c = trimesh.creation
        sym = []
        for n0, n1 in ((3, 3), (4, 4), (5, 8), (7, 6), (8, 5), (9, 9), (16, 16), (33, 12)):
            sym.append(("capsule[count=%d,%d]" % (n0, n1), lambda n0=n0, n1=n1: c.capsule(height=1.5, radius=0.4, count=[n0, n1])))
            sym.append(("uv_sphere[count=%d,%d]" % (n0, n1), lambda n0=n0, n1=n1: c.uv_sphere(radius=0.9, count=[n0, n1])))
        for n in (3, 4, 5, 8, 9):
            sym.append(("torus[%d]" % n, lambda n=n: c.torus(2.0, 0.5, major_sections=n, minor_sections=n)))
            sym.append(("cylinder[%d]" % n, lambda n=n: c.cylinder(radius=0.7, height=2.0, sections=n)))
        for name, mk in sym:
            cases += 1
            try:
                m = mk()
                fam = name.split("[")[0]
                if not (m.is_watertight and m.is_winding_consistent and m.volume > 0):
                    fail("%s:not-a-valid-solid" % fam, name)
                    continue
                mid_z = float(m.bounds[:, 2].mean())
                # the shape is symmetric about the plane through the middle of its axis
                if abs(float(m.center_mass[2]) - mid_z) > 1e-9 * max(1.0, float(m.extents[2])):
                    fail("%s:centre-of-mass-off-the-middle-plane" % fam, name, "z %.6g vs %.6g" % (m.center_mass[2], mid_z))
                up = m.slice_plane([0, 0, mid_z], [0, 0, 1.0], cap=False)
                dn = m.slice_plane([0, 0, mid_z], [0, 0, -1.0], cap=False)
                if abs(up.area - dn.area) > 1e-9 * max(1.0, m.area):
                    fail("%s:halves-above-and-below-the-middle-plane-differ" % fam, name, "area %.9f vs %.9f" % (up.area, dn.area))
            except Exception as ex_:  # noqa: BLE001
                fail("%s:raised %s" % (name.split("[")[0], type(ex_).__name__), name, ex_)
    fails = sorted(cells.values(), key=lambda c: c["cell"])
    r = common.result(cases, cases, fails, "14 flat-faced primitives; 26 axially symmetric shapes with even and odd section counts", exhaustive=True)
    r["failures"] = fails
    return r
