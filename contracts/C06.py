"""
C06 — Row grouping and uniqueness primitives are exact.
"""
import numpy as rnp

from contracts import common
from pyvc.engine import contract, bounded
from pyvc import core

G = "trimesh.grouping"

META = {
    "level": "proof",
    "assumptions": [
        "hashable_rows: two-row (n=2) runs over all 2^64 values per element; the packing of a row depends only on that row, the branch condition on the global min/max is implied for the two rows considered",
        "np.void view of an integer row is modelled as the tuple of its elements (byte identity)",
    ],
    "trusted_base": ["pyvc (T1)", "z3 bit-vector theory (T2)"],
}


for _cols in (1, 2, 3, 4):

    def _mk(cols):
        @contract("C06", G + ".hashable_rows", name="injective-int64[cols=%d]" % cols)
        def hashable_rows(h):
            """equal integer rows hash equal, different rows never do — for every int64 value"""
            if cols == 1 and h.finding("C06-hashable-rows-single-column"):
                # region of the open finding: the whole single-column case raises
                h.assume(False)
            D = h.bv64s("d", (2, cols))
            hs = h.fn(G + ".hashable_rows")(D)
            same_rows = h.all([D[0, k] == D[1, k] for k in range(cols)])
            same_hash = hs[0] == hs[1]
            h.check("rows-equal=>hash-equal", h.implies(same_rows, same_hash))
            h.check("hash-equal=>rows-equal", h.implies(same_hash, same_rows))

    _mk(_cols)


# ----------------------------------------------------------------------------- helpers


def _hash_stub(h):
    """contract of hashable_rows used modularly by its callers (proved above for int64):
    one integer code per row, codes equal iff rows equal"""
    import z3
    from pyvc import symnp
    from pyvc.core import SNum

    def stub(data, digits=None, allow_int=True):
        c = core.ctx()
        data = symnp.to_sarr(data)
        if data.ndim == 1:
            return data
        n = data.shape[0]
        codes = [SNum(c.fresh(z3.IntSort(), "rowhash")) for _ in range(n)]
        p = data.view(symnp.rnp.ndarray)
        for i in range(n):
            for j in range(i):
                same = core.sand(*[p[i, k] == p[j, k] for k in range(p.shape[1])])
                c.axiom(core.tobool(codes[i] == codes[j]) == core.tobool(same))
        return symnp.to_sarr(codes)

    return stub


def _partition_ok(h, groups, values, n, covers_all=True):
    """groups (concrete index lists) partition 0..n-1 exactly by equality of `values`"""
    conds = []
    flat = [int(i) for g in groups for i in g]
    conds.append(len(flat) == len(set(flat)))
    if covers_all:
        conds.append(sorted(flat) == list(range(n)))
    label = {}
    for gi, g in enumerate(groups):
        for i in g:
            label[int(i)] = gi
    for a in range(n):
        for b in range(a):
            if a in label and b in label:
                same = values(a, b)
                if label[a] == label[b]:
                    conds.append(same)
                else:
                    conds.append(h.not_(same))
    return h.all(conds)


N1 = 4  # length of the 1-D symbolic arrays (all integer values; bounded shape)


@contract("C06", G + ".group", name="partition-by-equality", kind="bounded-shape", note="n=4, all integer values")
def group(h):
    v = h.ints("v", N1)
    groups = h.fn(G + ".group")(v)
    h.check("partition", _partition_ok(h, groups, lambda a, b: v[a] == v[b], N1))


@contract("C06", G + ".group", name="min-max-len", kind="bounded-shape", note="n=4, all integer values")
def group_minmax(h):
    v = h.ints("v", N1)
    groups = h.fn(G + ".group")(v, min_len=2, max_len=3)
    # every returned group is a complete class of size 2..3; classes of other sizes absent
    conds = []
    flat = set()
    for g in groups:
        conds.append(2 <= len(g) <= 3)
        for i in g:
            flat.add(int(i))
            # complete: every index with the same value is in the group
            conds.append(h.all([h.implies(v[int(i)] == v[j], j in [int(x) for x in g]) for j in range(N1)]))
            conds.append(h.all([v[int(i)] == v[int(j)] for j in g]))
    for i in range(N1):
        if i not in flat:
            cnt = sum([h.ite(v[i] == v[j], 1, 0) for j in range(N1)])
            conds.append(h.any([cnt < 2, cnt > 3]))
    h.check("complete-classes-of-allowed-size", h.all(conds))


for _keep in (False, True):

    def _mk2(keep):
        @contract("C06", G + ".unique_rows", name="first-occurrences-and-inverse[keep_order=%s]" % keep, kind="bounded-shape", note="3 rows x 2 cols, all integer values; hashable_rows by its contract")
        def unique_rows(h):
            n, m = 3, 2
            D = h.ints("d", (n, m))
            h.stub(G + ".hashable_rows", _hash_stub(h))
            u, inv = h.fn(G + ".unique_rows")(D, keep_order=keep)
            u = [int(x) for x in u]
            inv = [int(x) for x in inv]
            roweq = lambda a, b: h.all([D[a, k] == D[b, k] for k in range(m)])
            conds = [len(inv) == n]
            # data[u][inv] == data
            conds += [roweq(u[inv[i]], i) for i in range(n)]
            # distinct representatives have distinct rows
            conds += [h.not_(roweq(u[a], u[b])) for a in range(len(u)) for b in range(a)]
            # representatives are first occurrences
            conds += [h.not_(roweq(j, ui)) for ui in u for j in range(ui)]
            if keep:
                conds.append(u == sorted(u))
            h.check("unique-rows", h.all(conds))

    _mk2(_keep)


@contract("C06", G + ".group_rows", name="groups-all", kind="bounded-shape", note="3 rows x 2 cols, all integer values; hashable_rows by its contract")
def group_rows(h):
    n, m = 3, 2
    D = h.ints("d", (n, m))
    h.stub(G + ".hashable_rows", _hash_stub(h))
    groups = h.fn(G + ".group_rows")(D)
    roweq = lambda a, b: h.all([D[a, k] == D[b, k] for k in range(m)])
    h.check("partition", _partition_ok(h, groups, roweq, n))


@contract("C06", G + ".group_rows", name="require_count=2", kind="bounded-shape", note="4 rows x 2 cols, all integer values; hashable_rows by its contract")
def group_rows_2(h):
    n, m = 4, 2
    D = h.ints("d", (n, m))
    h.stub(G + ".hashable_rows", _hash_stub(h))
    groups = h.fn(G + ".group_rows")(D, require_count=2)
    roweq = lambda a, b: h.all([D[a, k] == D[b, k] for k in range(m)])
    conds = []
    listed = set()
    for g in groups:
        a, b = int(g[0]), int(g[1])
        conds += [a != b, roweq(a, b)]
        # exactly twice: no third row equals them
        conds += [h.not_(roweq(a, j)) for j in range(n) if j not in (a, b)]
        listed |= {a, b}
    # every row occurring exactly twice is reported
    for i in range(n):
        if i not in listed:
            cnt = sum([h.ite(roweq(i, j), 1, 0) for j in range(n)])
            conds.append(h.not_(cnt == 2))
    conds.append(len(listed) == 2 * len(groups))
    h.check("exactly-the-pairs", h.all(conds))


@contract("C06", G + ".unique_ordered", name="first-occurrence-order", kind="bounded-shape", note="n=4, all integer values")
def unique_ordered(h):
    v = h.ints("v", N1)
    u, idx, inv = h.fn(G + ".unique_ordered")(v, return_index=True, return_inverse=True)
    idx = [int(i) for i in idx]
    inv = [int(i) for i in inv]
    conds = [idx == sorted(idx), len(inv) == N1]
    conds += [h.exact(u[k], v[idx[k]]) for k in range(len(idx))]
    conds += [v[idx[inv[i]]] == v[i] for i in range(N1)]
    conds += [h.not_(v[j] == v[i]) for i in idx for j in range(i)]
    conds += [h.not_(v[idx[a]] == v[idx[b]]) for a in range(len(idx)) for b in range(a)]
    h.check("unique-ordered", h.all(conds))
    # the other return forms give the same values in the same order
    plain = h.fn(G + ".unique_ordered")(v)
    h.check("plain-call-returns-the-values-only", len(getattr(plain, "shape", ())) == 1 and len(plain) == len(idx) and h.all([h.exact(plain[k], u[k]) for k in range(len(idx))]))
    u2, idx2 = h.fn(G + ".unique_ordered")(v, return_index=True)
    h.check("index-only-form", [int(i) for i in idx2] == idx and h.all([h.exact(u2[k], u[k]) for k in range(len(idx))]))
    u3, inv3 = h.fn(G + ".unique_ordered")(v, return_inverse=True)
    h.check("inverse-only-form", [int(i) for i in inv3] == inv and h.all([h.exact(u3[k], u[k]) for k in range(len(idx))]))


@contract("C06", G + ".unique_bincount", name="unique-inverse-counts", kind="bounded-shape", note="n=3 values in 0..3")
def unique_bincount(h):
    n = 3
    v = h.ints("v", n)
    h.assume([v[i] >= 0 for i in range(n)] + [v[i] <= 3 for i in range(n)])
    u, inv, cnt = h.fn(G + ".unique_bincount")(v, return_inverse=True, return_counts=True)
    u = [int(x) for x in u]
    conds = [u == sorted(set(u))]
    conds += [h.exact(u[int(inv[i])], v[i]) if not hasattr(inv[i], "t") else h.all([h.implies(inv[i] == k, v[i] == u[k]) for k in range(len(u))] + [inv[i] >= 0, inv[i] < len(u)]) for i in range(n)]
    for k, val in enumerate(u):
        c = sum([h.ite(v[i] == val, 1, 0) for i in range(n)])
        conds.append(h.exact(cnt[k], c))
        conds.append(c >= 1)
    conds += [h.any([v[i] == val for val in u]) for i in range(n)]
    h.check("unique-bincount", h.all(conds))


@contract("C06", G + ".merge_runs", name="consecutive-duplicates-removed", kind="bounded-shape", note="n=4, all integer values")
def merge_runs(h):
    v = h.ints("v", N1)
    out = h.fn(G + ".merge_runs")(v)
    # expected: keep v[0] and every v[i] != v[i-1]  (integers: |a-b| > 1e-8 <=> a != b)
    keep = [True] + [h.not_(v[i] == v[i - 1]) for i in range(1, N1)]
    # out is concrete-length per path; compare with the kept subsequence
    conds = []
    k = 0
    exp = []
    for i in range(N1):
        exp.append((keep[i], v[i]))
    # length
    cnt = sum([h.ite(kp, 1, 0) for kp in keep])
    conds.append(h.exact(len(out), cnt))
    # element-wise: the j-th output equals the j-th kept input
    for j in range(len(out)):
        for i in range(N1):
            before = sum([h.ite(keep[a], 1, 0) for a in range(i)]) if i else 0
            conds.append(h.implies(h.all([keep[i], h.exact(before, j)]), h.exact(out[j], v[i])))
    h.check("merge-runs", h.all(conds))


@contract("C06", G + ".float_to_int", name="int-passthrough-and-rounding")
def float_to_int(h):
    x = h.reals("x", 2)
    # definition of float equality used by the property: round(x*10^digits - 1e-6), for the
    # REQUESTED number of digits - every value an explicit caller may pass, 0 included
    import numpy as _np

    tolmerge = h.module("trimesh.constants").tol.merge
    for digits, tag in ((3, "3"), (0, "0"), (1, "1"), (_np.int64(0), "np.int64(0)"), (8, "8"), (None, "None")):
        out = h.fn(G + ".float_to_int")(x, digits=digits)
        d = digits if digits is not None else h.module("trimesh.util").decimal_to_digits(tolmerge)
        conds = []
        for i in range(2):
            t = x[i] * float(10 ** int(d)) - 1e-6
            conds.append(h.all([out[i] - t <= 0.5, t - out[i] <= 0.5]))
        h.check("nearest-integer-of(x*10^d - 1e-6)[digits=%s]" % tag, h.all(conds))
    h.check("default-digits-from-tol.merge=8", h.module("trimesh.util").decimal_to_digits(tolmerge) == 8)
    v = h.ints("v", 2)
    out2 = h.fn(G + ".float_to_int")(v)
    h.check("integers-unchanged", h.exact(out2, v))


@contract("C06", G + ".unique_value_in_row", name="unshared-marker", kind="bounded-shape", note="2 rows x 3 cols over {-1,1}, as used by face_adjacency_unshared")
def unique_value_in_row(h):
    n, m = 2, 3
    D = h.ints("d", (n, m))
    h.assume([h.any([D[i, k] == -1, D[i, k] == 1]) for i in range(n) for k in range(m)])
    out = h.fn(G + ".unique_value_in_row")(D, unique=[-1, 1])
    conds = []
    for i in range(n):
        for k in range(m):
            others = [D[i, j] == D[i, k] for j in range(m) if j != k]
            once = h.not_(h.any(others))
            conds.append(h.exact(out[i, k], once) if h.mode == "concrete" else (core.tobool(out[i, k]) == core.tobool(once)))
    h.check("true-exactly-where-value-occurs-once", h.all(conds))


@contract("C06", G + ".blocks", name="contiguous-blocks", kind="bounded-shape", note="n=4, all integer values, min_len=1")
def blocks(h):
    v = h.ints("v", N1)
    bl = h.fn(G + ".blocks")(v, min_len=1)
    conds = []
    flat = [int(i) for b in bl for i in b]
    conds.append(flat == list(range(N1)))
    for b in bl:
        b = [int(i) for i in b]
        conds.append(b == list(range(b[0], b[-1] + 1)))
        conds += [v[b[0]] == v[i] for i in b]
        if b[0] > 0:
            conds.append(h.not_(v[b[0] - 1] == v[b[0]]))
    h.check("maximal-runs", h.all(conds))


@contract("C06", G + ".blocks", name="wrap+only_nonzero", kind="bounded-shape", note="n=4, all integer values, min_len=2, wrap=True, only_nonzero=True")
def blocks_wrap(h):
    v = h.ints("v", N1)
    bl = h.fn(G + ".blocks")(v, min_len=2, wrap=True, only_nonzero=True)
    conds = []
    seen = []
    for b in bl:
        b = [int(i) for i in b]
        conds.append(len(b) >= 2)
        conds += [v[b[0]] == v[i] for i in b]
        conds.append(h.not_(v[b[0]] == 0))
        # cyclically contiguous
        conds.append(all((b[k + 1] - b[k]) % N1 == 1 for k in range(len(b) - 1)))
        # maximal (cyclically) unless it is the whole array
        if len(b) < N1:
            conds.append(h.not_(v[(b[0] - 1) % N1] == v[b[0]]))
            conds.append(h.not_(v[(b[-1] + 1) % N1] == v[b[0]]))
        seen += b
    conds.append(len(seen) == len(set(seen)))
    # completeness: every index in a cyclic run of length >= 2 of a nonzero value is listed
    for i in range(N1):
        if i not in seen:
            nb = h.any([v[(i - 1) % N1] == v[i], v[(i + 1) % N1] == v[i]])
            conds.append(h.not_(h.all([nb, h.not_(v[i] == 0)])))
    h.check("cyclic-nonzero-runs", h.all(conds))


@contract("C06", G + ".group_min", name="minimum-per-group", kind="bounded-shape", note="n=4 items in <=3 groups, all real values")
def group_min(h):
    n = 4
    g = h.ints("g", n)
    d = h.reals("x", n)
    h.assume([g[i] >= 0 for i in range(n)] + [g[i] <= 2 for i in range(n)])
    # groups are labelled 0..k-1 without gaps, as the callers guarantee
    h.assume([h.implies(g[i] == 2, h.any([g[j] == 1 for j in range(n)])) for i in range(n)])
    h.assume([h.implies(g[i] >= 1, h.any([g[j] == 0 for j in range(n)])) for i in range(n)])
    out = h.fn(G + ".group_min")(g, d)
    conds = []
    for k in range(len(out)):
        conds += [h.implies(g[i] == k, h.le(out[k], d[i], slack=0.0)) for i in range(n)]
        conds.append(h.any([h.all([g[i] == k, h.eq(out[k], d[i])]) for i in range(n)]))
    h.check("minimum-per-group", h.all(conds))


# ----------------------------------------------------------------------------- bounded tier: same contracts on the real code


def _enum(cid, domains, limit=20000):
    def run(tier, seed):
        from pyvc import engine

        return engine.enumerate_contract(cid, domains, tier=tier, seed=seed, limit=limit if tier == "quick" else limit * 5)

    return run


_BOUNDED = {
    "group": ("C06/trimesh.grouping.group/partition-by-equality", {"int": [0, 1, 2]}),
    "group-minmax": ("C06/trimesh.grouping.group/min-max-len", {"int": [0, 1, 2]}),
    "unique_rows": ("C06/trimesh.grouping.unique_rows/first-occurrences-and-inverse[keep_order=False]", {"int": [0, 1, -(2**31)]}),
    "unique_rows-ordered": ("C06/trimesh.grouping.unique_rows/first-occurrences-and-inverse[keep_order=True]", {"int": [0, 1, 2**40]}),
    "group_rows": ("C06/trimesh.grouping.group_rows/groups-all", {"int": [0, 1, 2]}),
    "group_rows-2": ("C06/trimesh.grouping.group_rows/require_count=2", {"int": [0, 1]}),
    "unique_ordered": ("C06/trimesh.grouping.unique_ordered/first-occurrence-order", {"int": [0, 1, 2, -5]}),
    "unique_bincount": ("C06/trimesh.grouping.unique_bincount/unique-inverse-counts", {"int": [0, 1, 2, 3]}),
    "merge_runs": ("C06/trimesh.grouping.merge_runs/consecutive-duplicates-removed", {"int": [0, 1, 2]}),
    "blocks": ("C06/trimesh.grouping.blocks/contiguous-blocks", {"int": [0, 1, 2]}),
    "blocks-wrap": ("C06/trimesh.grouping.blocks/wrap+only_nonzero", {"int": [0, 1, 2]}),
    "hashable-limits": ("C06/trimesh.grouping.hashable_rows/injective-int64[cols=2]", {"bv": [0, 1, -1, 2**30, 2**31 - 2, 2**31 - 1, 2**31, -(2**31) + 1, -(2**31), 2**62, 2**63 - 1, -(2**63)]}),
    "hashable-limits-1col": ("C06/trimesh.grouping.hashable_rows/injective-int64[cols=1]", {"bv": [0, 1, -1, 2**62, 2**63 - 1, -(2**63)]}),
    "hashable-limits-4col": ("C06/trimesh.grouping.hashable_rows/injective-int64[cols=4]", {"bv": [0, -1, 2**15 - 2, 2**15 - 1, -(2**15)]}),
}
for _n, (_cid, _dom) in _BOUNDED.items():
    bounded("C06", name="real-code:" + _n, note="contract text evaluated on the really imported trimesh")(_enum(_cid, _dom))


# ----------------------------------------------------------------------------- blocks / boolean_rows against brute force


def _circular_runs(data, min_len, max_len, wrap, only_nonzero):
    """reference: maximal runs of equal values as sorted index tuples (circular when wrap)"""
    n = len(data)
    if n == 0:
        return []
    runs = []
    start = 0
    for i in range(1, n + 1):
        if i == n or data[i] != data[start]:
            runs.append(list(range(start, i)))
            start = i
    if wrap and len(runs) > 1 and data[0] == data[-1]:
        runs[0] = runs[-1] + runs[0]
        runs.pop()
    out = []
    for r in runs:
        if only_nonzero and not data[r[0]]:
            continue
        if len(r) < min_len or (max_len is not None and len(r) > max_len):
            continue
        out.append(tuple(r))
    return sorted(out)


@bounded("C06", name="real-code:blocks-vs-circular-runs", note="grouping.blocks against a brute-force scan of (circular) runs: every array over {0,1,2} up to length 7 x min_len 1..3 x max_len none/3 x wrap x only_nonzero; constant arrays only without wrap")
def blocks_exhaustive(tier, seed):
    import itertools

    from trimesh import grouping

    cells = {}
    cases = 0

    def fail(key, detail=""):
        c = cells.setdefault(key, {"what": key, "cell": key, "detail": str(detail)[:200], "count": 0})
        c["count"] += 1

    top = 7 if tier == "quick" else 9
    for n in range(1, top + 1):
        for data in itertools.product((0, 1, 2), repeat=n):
            const = len(set(data)) == 1
            for min_len, max_len, wrap, nz in itertools.product((1, 2, 3), (None, 3), (False, True), (False, True)):
                if wrap and const:
                    continue  # a constant ring has no run boundary: not defined by the docstring
                cases += 1
                try:
                    got = sorted(tuple(int(i) for i in b) for b in grouping.blocks(rnp.array(data), min_len=min_len, max_len=max_len if max_len is not None else rnp.inf, wrap=wrap, only_nonzero=nz))
                    want = _circular_runs(list(data), min_len, max_len, wrap, nz)
                    if sorted(map(sorted, got)) != sorted(map(sorted, want)):
                        fail("blocks[wrap=%s,only_nonzero=%s]:differs-from-the-circular-runs" % (wrap, nz), "data %s min_len %s max_len %s: %s, want %s" % (list(data), min_len, max_len, got, want))
                    elif wrap and any(list(g) != list(w) for g, w in zip(sorted(got, key=sorted), sorted(want, key=sorted))):
                        fail("blocks[wrap=True]:wrapped-block-not-in-ring-order", "data %s: %s want %s" % (list(data), got, want))
                except Exception as ex:  # noqa: BLE001
                    fail("blocks:raised %s" % type(ex).__name__, "data %s min_len %s max_len %s wrap %s nz %s: %s" % (list(data), min_len, max_len, wrap, nz, ex))
    fails = sorted(cells.values(), key=lambda c: c["cell"])
    r = common.result(cases, cases, fails, "all arrays over {0,1,2} up to length %d x 24 option sets" % top, exhaustive=True)
    r["failures"] = fails
    return r


@bounded("C06", name="real-code:boolean_rows-vs-set-operations", note="grouping.boolean_rows (intersect1d / setdiff1d) against Python set operations on row tuples: int64 / int32 / int16 / uint8 / list operands in every combination, values incl. 2^31, 2^32 + k, negative numbers against unsigned arrays")
def boolean_rows_sets(tier, seed):
    import itertools

    from trimesh import grouping

    cells = {}
    cases = 0

    def fail(key, detail=""):
        c = cells.setdefault(key, {"what": key, "cell": key, "detail": str(detail)[:200], "count": 0})
        c["count"] += 1

    rng = rnp.random.default_rng(seed + 66)
    small = [[2, 3], [5, 1], [0, 0], [7, 7], [2, 3 + 0]]
    wide = [[2**32 + 2, 3], [2**31, 1], [5, 1], [-254, 0], [2**16 + 7, 7], [2**8 + 5, 1], [0, 0]]
    operands = {
        "int64": lambda rows: rnp.array(rows, dtype=rnp.int64),
        "int32": lambda rows: rnp.array(rows, dtype=rnp.int32),
        "int16": lambda rows: rnp.array(rows, dtype=rnp.int16),
        "uint8": lambda rows: rnp.array(rows, dtype=rnp.uint8),
        "list": lambda rows: [list(r) for r in rows],
    }
    for (na, mka), (nb, mkb) in itertools.product(operands.items(), repeat=2):
        for rows_a, rows_b in ((small, small[:3]), (small, wide), (wide, small)):
            # an operand must be representable in its own dtype: only the OTHER one may be wider
            def fits(rows, name):
                if name in ("int64", "list"):
                    return True
                info = rnp.iinfo(name)
                return all(info.min <= x <= info.max for r in rows for x in r)

            if not fits(rows_a, na) or not fits(rows_b, nb):
                continue
            for opname, op in (("intersect1d", rnp.intersect1d), ("setdiff1d", rnp.setdiff1d)):
                cases += 1
                try:
                    got = grouping.boolean_rows(mka(rows_a), mkb(rows_b), operation=op)
                    sa, sb = {tuple(r) for r in rows_a}, {tuple(r) for r in rows_b}
                    want = sorted(sa & sb) if opname == "intersect1d" else sorted(sa - sb)
                    if sorted(tuple(int(x) for x in r) for r in rnp.asarray(got).reshape(-1, 2)) != want:
                        fail("boolean_rows[%s]:differs-from-the-set-operation[a:%s,b:%s]" % (opname, na, nb), "got %s want %s" % (rnp.asarray(got).tolist(), want))
                except Exception as ex:  # noqa: BLE001
                    fail("boolean_rows[%s]:raised %s[a:%s,b:%s]" % (opname, type(ex).__name__, na, nb), ex)
    fails = sorted(cells.values(), key=lambda c: c["cell"])
    r = common.result(cases, cases, fails, "5 x 5 operand types x 3 row sets x 2 operations", exhaustive=True)
    r["failures"] = fails
    return r
