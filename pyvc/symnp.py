"""
pyvc.symnp — the numpy shim seen by mirrored repository modules.

Concrete-shape mode: arrays are numpy *object* arrays (subclass SArr) whose elements are
Python numbers or symbolic scalars; numpy's own slicing / view / broadcasting / dot
machinery is reused, ufuncs are re-implemented element-wise on symbolic scalars.
Anything that needs a Python bool out of a symbolic element (C-level sorts, mask
assignment into real bool arrays, ...) forks the explorer, which is sound and complete
for the given shape.
"""
from __future__ import annotations

import functools
import itertools
import math
import types

import numpy as rnp
import z3

from . import core
from .core import SBV, SBool, SNum, SVoid, Unsupported, is_sym, ite, sand, snot, sor

_ND = rnp.ndarray


def _plain(x):
    if isinstance(x, SArr):
        return x.view(_ND)
    return x


def _is_larr(a):
    return getattr(a, "__larr__", False)


def _has_sym(a):
    if isinstance(a, (SNum, SBool, SBV)):
        return True
    if getattr(a, "__larr__", False):
        return True
    if isinstance(a, SArr):
        return True
    if isinstance(a, _ND):
        return a.dtype == object and any(is_sym(e) for e in a.flat)
    if isinstance(a, (list, tuple)):
        return any(_has_sym(e) for e in a)
    return False


def _contains_sym_elems(a):
    """True when an SArr actually holds symbolic elements"""
    return any(is_sym(e) for e in _plain(a).flat)


def _ldt_of(x):
    """logical dtype of an operand (None = python scalar, weak)"""
    if isinstance(x, SArr):
        return x.ldt
    if isinstance(x, _ND):
        return x.dtype if x.dtype != object else None
    if isinstance(x, rnp.generic):
        return x.dtype
    if isinstance(x, SNum):
        return None
    return None


def _dummy(x):
    dt = _ldt_of(x)
    if dt is not None:
        return rnp.ones((), dtype=dt)
    if isinstance(x, SNum):
        return 1 if x.is_int else 1.0
    if isinstance(x, SBV):
        return rnp.ones((), dtype=rnp.int64 if x.signed else rnp.uint64)
    if isinstance(x, SBool):
        return True
    if isinstance(x, (bool, int, float)):
        return type(x)(1)
    if isinstance(x, (list, tuple)):
        try:
            return rnp.ones((), dtype=_infer_ldt_from_elems(rnp.array(x, dtype=object)))
        except Exception:
            return 1.0
    return 1.0


def _infer_ldt_from_elems(obj):
    kinds = set()
    for e in obj.flat:
        if isinstance(e, SBV):
            return rnp.dtype("int64") if e.signed else rnp.dtype("uint64")
        if isinstance(e, SNum):
            kinds.add("i" if e.is_int else "f")
        elif isinstance(e, (SBool, bool, rnp.bool_)):
            kinds.add("b")
        elif isinstance(e, (int, rnp.integer)):
            kinds.add("i")
        elif isinstance(e, (float, rnp.floating)):
            kinds.add("f")
        else:
            kinds.add("f")
    if "f" in kinds:
        return rnp.dtype("float64")
    if "i" in kinds:
        return rnp.dtype("int64")
    if "b" in kinds:
        return rnp.dtype("bool")
    return rnp.dtype("float64")


def wrap(obj, ldt=None):
    """object ndarray -> SArr"""
    if not isinstance(obj, _ND):
        return obj
    if obj.dtype != object:
        return obj
    r = obj.view(SArr)
    r.ldt = rnp.dtype(ldt) if ldt is not None else _infer_ldt_from_elems(obj)
    return r


def to_sarr(a, dtype=None):
    """anything array-like -> SArr (object) with elements cast to dtype"""
    if isinstance(a, SArr):
        src = a.view(_ND)
        ldt = a.ldt
    elif isinstance(a, _ND) and a.dtype != object:
        src = a.astype(object)
        # numpy scalars -> python scalars
        src = rnp.array(a.tolist(), dtype=object).reshape(a.shape) if a.size else src
        ldt = a.dtype
    else:
        if isinstance(a, (SNum, SBool, SBV)):
            src = rnp.empty((), dtype=object)
            src[()] = a
        else:
            src = _obj_array(a)
        ldt = None
    if dtype is not None:
        dt = rnp.dtype(dtype)
        if dt.kind != "O":
            out = rnp.empty(src.shape, dtype=object)
            for idx in rnp.ndindex(src.shape):
                out[idx] = core.cast_scalar(src[idx], dt)
            return wrap(out, dt)
    if ldt is None:
        ldt = _infer_ldt_from_elems(src)
    return wrap(src, ldt)


def _obj_array(a):
    """nested lists/tuples/arrays possibly containing symbols -> object ndarray"""
    if isinstance(a, _ND):
        if a.dtype == object:
            return a.view(_ND)
        return rnp.array(a.tolist(), dtype=object).reshape(a.shape)
    if isinstance(a, (list, tuple)):
        parts = [_obj_array(e) for e in a]
        if not parts:
            return rnp.empty((0,), dtype=object)
        shp = parts[0].shape
        if any(p.shape != shp for p in parts):
            raise Unsupported("ragged array")
        out = rnp.empty((len(parts),) + shp, dtype=object)
        for i, p in enumerate(parts):
            if shp == ():
                out[i] = p[()]
            else:
                out[i] = p
        return out
    out = rnp.empty((), dtype=object)
    if isinstance(a, rnp.generic):
        a = a.item()
    out[()] = a
    return out


# ----------------------------------------------------------------------------- ufuncs


def _atan(x):
    return core.sym_arctan2(x, 1.0)


def _power(a, b):
    if isinstance(a, (SNum, SBool, SBV)):
        return SNum.lift(a) ** b
    if isinstance(b, SNum):
        return SNum.lift(a) ** b
    return a**b


def _fin(x):
    if is_sym(x):
        return True
    return math.isfinite(x)


def _isnan(x):
    if is_sym(x):
        return False
    return isinstance(x, float) and math.isnan(x)


def _isinf(x):
    if is_sym(x):
        return False
    return isinstance(x, float) and math.isinf(x)


def _div(a, b):
    if not is_sym(a) and not is_sym(b):
        if b == 0:
            if a == 0 or (isinstance(a, float) and math.isnan(a)):
                return float("nan")
            return math.copysign(float("inf"), a) * (1 if math.copysign(1, b) > 0 else -1)
        return a / b
    return SNum.lift(a) / b


def _eq(a, b):
    r = a == b
    if r is NotImplemented:
        return False
    return r


def _ne(a, b):
    r = a != b
    if r is NotImplemented:
        return True
    return r


def _bitand(a, b):
    if isinstance(a, (SBool, bool, rnp.bool_)) and isinstance(b, (SBool, bool, rnp.bool_)):
        return sand(a, b)
    return a & b


def _bitor(a, b):
    if isinstance(a, (SBool, bool, rnp.bool_)) and isinstance(b, (SBool, bool, rnp.bool_)):
        return sor(a, b)
    return a | b


def _bitxor(a, b):
    if isinstance(a, (SBool, bool, rnp.bool_)) and isinstance(b, (SBool, bool, rnp.bool_)):
        return core._mkbool(z3.Xor(core.tobool(a), core.tobool(b)))
    return a ^ b


def _invert(a):
    if isinstance(a, (SBool, bool, rnp.bool_)):
        return snot(a)
    return ~a


def _fl(f):
    def g(x):
        r = f(x)
        if isinstance(r, SNum):
            return r.real()
        return float(r)

    return g


UF = {
    "add": lambda a, b: a + b,
    "subtract": lambda a, b: a - b,
    "multiply": lambda a, b: a * b,
    "divide": _div,
    "true_divide": _div,
    "floor_divide": lambda a, b: a // b,
    "remainder": lambda a, b: a % b,
    "mod": lambda a, b: a % b,
    "negative": lambda a: -a,
    "positive": lambda a: a,
    "absolute": lambda a: abs(a),
    "fabs": lambda a: abs(a),
    "power": _power,
    "square": lambda a: a * a,
    "sqrt": core.sym_sqrt,
    "cbrt": core.sym_cbrt,
    "reciprocal": lambda a: 1.0 / a,
    "sin": core.sym_sin,
    "cos": core.sym_cos,
    "tan": core.sym_tan,
    "arctan2": core.sym_arctan2,
    "arccos": core.sym_arccos,
    "arcsin": core.sym_arcsin,
    "arctan": _atan,
    "hypot": lambda a, b: core.sym_sqrt(a * a + b * b),
    "less": lambda a, b: a < b,
    "less_equal": lambda a, b: a <= b,
    "greater": lambda a, b: a > b,
    "greater_equal": lambda a, b: a >= b,
    "equal": _eq,
    "not_equal": _ne,
    "logical_and": lambda a, b: sand(_tb(a), _tb(b)),
    "logical_or": lambda a, b: sor(_tb(a), _tb(b)),
    "logical_not": lambda a: snot(_tb(a)),
    "logical_xor": lambda a, b: _bitxor(_tb(a), _tb(b)),
    "bitwise_and": _bitand,
    "bitwise_or": _bitor,
    "bitwise_xor": _bitxor,
    "invert": _invert,
    "maximum": core.sym_max,
    "minimum": core.sym_min,
    "fmax": core.sym_max,
    "fmin": core.sym_min,
    "sign": core.sym_sign,
    "floor": _fl(core.sym_floor),
    "ceil": _fl(core.sym_ceil),
    "rint": _fl(core.sym_round),
    "trunc": _fl(core.sym_trunc),
    "isfinite": _fin,
    "isnan": _isnan,
    "isinf": _isinf,
    "conjugate": lambda a: a,
    "deg2rad": lambda a: a * (math.pi / 180.0),
    "radians": lambda a: a * (math.pi / 180.0),
    "rad2deg": lambda a: a * (180.0 / math.pi),
    "degrees": lambda a: a * (180.0 / math.pi),
    "left_shift": lambda a, b: a << b,
    "right_shift": lambda a, b: a >> b,
}
_BOOL_UF = {
    "less",
    "less_equal",
    "greater",
    "greater_equal",
    "equal",
    "not_equal",
    "logical_and",
    "logical_or",
    "logical_not",
    "logical_xor",
    "isfinite",
    "isnan",
    "isinf",
}
_IDENT = {"add": 0, "multiply": 1, "logical_or": False, "logical_and": True, "bitwise_or": False, "bitwise_and": True}


def _tb(x):
    """truth value of an element as SBool/bool"""
    if isinstance(x, (SBool, bool, rnp.bool_)):
        return x
    if isinstance(x, SNum):
        return core._mkbool(x.t != 0)
    return bool(x)


_PF = {}


def _pf(name, nin):
    k = (name, nin)
    if k not in _PF:
        _PF[k] = rnp.frompyfunc(UF[name], nin, 1)
    return _PF[k]


def _result_ldt(ufunc, inputs):
    name = ufunc.__name__
    if name in _BOOL_UF:
        return rnp.dtype("bool")
    try:
        with rnp.errstate(all="ignore"):
            return ufunc(*[_dummy(i) for i in inputs]).dtype
    except Exception:
        return None


def _reduce(pf, arr, axis=0, keepdims=False, initial=None, **kw):
    """reduce with a (non-reorderable) frompyfunc ufunc over any axis spec"""
    arr = arr if isinstance(arr, _ND) else _obj_array(arr)
    if arr.ndim == 0:
        return arr[()]
    extra = {} if initial is None else {"initial": initial}
    if axis is None:
        r = pf.reduce(arr.reshape(-1), axis=0, **extra)
        if keepdims:
            o = rnp.empty((1,) * arr.ndim, dtype=object)
            o[...] = r
            return o
        return r
    if isinstance(axis, (tuple, list)):
        axes = sorted([a % arr.ndim for a in axis], reverse=True)
        r = arr
        for k, a in enumerate(axes):
            r = pf.reduce(r, axis=a, keepdims=keepdims, **(extra if k == 0 else {}))
            if not isinstance(r, _ND):
                return r
        return r
    return pf.reduce(arr, axis=axis, keepdims=keepdims, **extra)


def _matmul(a, b):
    a = to_sarr(a) if not isinstance(a, SArr) else a
    b = to_sarr(b) if not isinstance(b, SArr) else b
    pa, pb = _plain(a), _plain(b)
    if pa.ndim <= 2 and pb.ndim <= 2:
        return wrap(rnp.dot(pa, pb))
    # stacked matrices
    if pa.ndim == 1 or pb.ndim == 1:
        raise Unsupported("matmul stack with vector")
    bshape = rnp.broadcast_shapes(pa.shape[:-2], pb.shape[:-2])
    A = rnp.broadcast_to(pa, bshape + pa.shape[-2:])
    B = rnp.broadcast_to(pb, bshape + pb.shape[-2:])
    out = rnp.empty(bshape + (pa.shape[-2], pb.shape[-1]), dtype=object)
    for idx in rnp.ndindex(bshape):
        out[idx] = rnp.dot(A[idx], B[idx])
    return wrap(out)


class SArr(_ND):
    ldt = None

    def __array_finalize__(self, obj):
        self.ldt = getattr(obj, "ldt", None)

    @property
    def dtype(self):
        if self.ldt is not None:
            return self.ldt
        return _ND.dtype.__get__(self)

    # -- ufuncs -----------------------------------------------------------------
    def __array_ufunc__(self, ufunc, method, *inputs, **kwargs):
        name = ufunc.__name__
        for x in inputs:
            if _is_larr(x):
                return x.__array_ufunc__(ufunc, method, *inputs, **kwargs)
        if name == "matmul" and method == "__call__":
            r = _matmul(*inputs)
            out = kwargs.get("out")
            if out:
                out[0][...] = r
                return out[0]
            return r
        if name not in UF:
            raise Unsupported("ufunc %s" % name)
        out = kwargs.pop("out", None)
        kwargs.pop("dtype", None)
        kwargs.pop("casting", None)
        where = kwargs.pop("where", True)
        if where is not True:
            raise Unsupported("ufunc where=")
        pin = []
        for x in inputs:
            if isinstance(x, SArr):
                pin.append(x.view(_ND))
            elif isinstance(x, _ND) and x.dtype != object:
                pin.append(_obj_array(x))
            elif isinstance(x, (list, tuple)):
                pin.append(_obj_array(x))
            elif isinstance(x, rnp.generic):
                pin.append(x.item())
            elif isinstance(x, (SNum, SBool, SBV)):
                pin.append(_obj_array(x))
            else:
                pin.append(x)
        pf = _pf(name, ufunc.nin)
        if method == "__call__":
            res = pf(*pin)
            ldt = _result_ldt(ufunc, inputs)
        elif method == "reduce":
            if "initial" not in kwargs and name in _IDENT:
                kwargs["initial"] = _IDENT[name]
            kwargs.pop("where", None)
            res = _reduce(pf, pin[0], **kwargs)
            ldt = rnp.dtype("bool") if name in _BOOL_UF else _ldt_of(inputs[0])
            if name == "add" and ldt is not None and ldt.kind == "b":
                ldt = rnp.dtype("int64")
        elif method == "accumulate":
            res = pf.accumulate(*pin, **kwargs)
            ldt = _ldt_of(inputs[0])
        elif method == "outer":
            res = pf.outer(*pin, **kwargs)
            ldt = _result_ldt(ufunc, inputs)
        elif method == "at":
            a, idx, *rest = pin
            idx = _concrete_index(idx)
            if rest:
                b = rnp.broadcast_to(rest[0], a[idx].shape) if not rnp.isscalar(rest[0]) else rest[0]
            it = rnp.ndindex(rnp.asarray(idx).shape) if not isinstance(idx, tuple) else None
            if it is None:
                raise Unsupported("ufunc.at with tuple index")
            ia = rnp.asarray(idx)
            for k in it:
                if rest:
                    bv = b[k] if isinstance(b, _ND) else b
                    a[ia[k]] = UF[name](a[ia[k]], bv)
                else:
                    a[ia[k]] = UF[name](a[ia[k]])
            return None
        else:
            raise Unsupported("ufunc method %s" % method)
        if isinstance(res, _ND):
            res = wrap(res, ldt)
        else:
            res = _cast_res(res, ldt)
        if out is not None:
            o = out[0] if isinstance(out, tuple) else out
            if isinstance(o, SArr):
                o.view(_ND)[...] = _plain(res) if isinstance(res, _ND) else res
            else:
                o[...] = res  # may fork / fail loudly if symbolic into a real array
            return o
        return res

    # -- functions --------------------------------------------------------------
    def __array_function__(self, func, types, args, kwargs):
        for x in args:
            if _is_larr(x):
                return x.__array_function__(func, types, args, kwargs)
            if isinstance(x, (list, tuple)):
                for y in x:
                    if _is_larr(y):
                        return y.__array_function__(func, types, args, kwargs)
        h = HANDLED.get(func)
        if h is not None:
            return h(*args, **kwargs)
        res = func._implementation(*args, **kwargs) if hasattr(func, "_implementation") else super().__array_function__(func, types, args, kwargs)
        return _rewrap(res)

    # -- methods ----------------------------------------------------------------
    def astype(self, dtype, order="K", casting="unsafe", subok=True, copy=True):
        return to_sarr(self, dtype=dtype)

    def copy(self, order="C"):
        r = self.view(_ND).copy().view(SArr)
        r.ldt = self.ldt
        return r

    def __deepcopy__(self, memo):
        return self.copy()

    def view(self, *a, **k):
        if a and a[0] is _ND and len(a) == 1 and not k:
            return _ND.view(self, _ND)
        if (a and a[0] is SArr) or not a:
            return _ND.view(self, *a, **k)
        if a and isinstance(a[0], type) and issubclass(a[0], _ND):
            return _ND.view(self, *a, **k)
        if a and isinstance(a[0], rnp.dtype) and a[0].kind == "V" and self.ndim == 2 and self.ldt is not None and a[0].itemsize == self.ldt.itemsize * self.shape[1]:
            # structured/void view of an integer row: one element per row, equal iff all equal
            p = _ND.view(self, _ND)
            out = rnp.empty((p.shape[0], 1), dtype=object)
            for i in range(p.shape[0]):
                out[i, 0] = SVoid(list(p[i]))
            r = out.view(SArr)
            r.ldt = rnp.dtype(object)
            return r
        raise Unsupported("dtype view of a symbolic array")

    def __getitem__(self, key):
        key = _prep_key(self, key)
        if isinstance(key, _Gather):
            return key.get(self)
        return _ND.__getitem__(self, key)

    def __setitem__(self, key, value):
        key = _prep_key(self, key)
        if isinstance(key, _Gather):
            return key.set(self, value)
        if isinstance(value, SArr):
            value = value.view(_ND)
        elif isinstance(value, _ND) and value.dtype != object:
            value = _obj_array(value)
        elif isinstance(value, (list, tuple)):
            value = _obj_array(value)
        elif isinstance(value, rnp.generic):
            value = value.item()
        if self.ldt is not None and self.ldt.kind != "O":
            value = _cast_val(value, self.ldt)
        _ND.__setitem__(self, key, value)

    def round(self, decimals=0, out=None):
        return _round(self, decimals)

    def clip(self, min=None, max=None, out=None, **kw):
        return _clip(self, min, max)

    def nonzero(self):
        return tuple(to_sarr(i) for i in _concrete_bool(self).nonzero())

    def argsort(self, axis=-1, kind=None, order=None, **kw):
        return to_sarr(_argsort(self, axis=axis))

    def sort(self, axis=-1, kind=None, order=None, **kw):
        self.view(_ND)[...] = _plain(_sort(self.copy(), axis=axis))

    def argmax(self, axis=None, out=None, **kw):
        return _argext(self, axis, True)

    def argmin(self, axis=None, out=None, **kw):
        return _argext(self, axis, False)

    def mean(self, axis=None, dtype=None, out=None, keepdims=False, **kw):
        s = self.sum(axis=axis, keepdims=keepdims)
        n = self.size if axis is None else rnp.prod([self.shape[a] for a in (axis if isinstance(axis, tuple) else (axis,))])
        return s / float(n)

    def tolist(self):
        return self.view(_ND).tolist()

    def dot(self, b, out=None):
        return _dot(self, b)

    def ptp(self, axis=None, **kw):
        return self.max(axis=axis) - self.min(axis=axis)

    def tobytes(self, *a, **k):
        # content of a symbolic array as bytes: an injective image of its term list, so
        # a content hash over it changes exactly when a term changes (syntactically)
        core.ctx().trusted.add("tobytes of a symbolic array: injective encoding of its element terms (content hashes are functions of the terms)")
        parts = [str(self.ldt), str(self.shape)]
        for e in self.view(_ND).flat:
            parts.append(_canon_elem(e))
        return ("\x00sym:" + "|".join(parts)).encode("utf-8")

    def __repr__(self):
        return "SArr(%s, ldt=%s)" % (self.view(_ND).tolist(), self.ldt)

    __str__ = __repr__

    def __float__(self):
        if self.size == 1:
            e = self.view(_ND).flat[0]
            if is_sym(e):
                raise Unsupported("float() of a symbolic array")
            return float(e)
        raise TypeError("only size-1 arrays")


def _cast_val(value, dt):
    if isinstance(value, _ND):
        out = rnp.empty(value.shape, dtype=object)
        for idx in rnp.ndindex(value.shape):
            out[idx] = core.cast_scalar(value[idx], dt)
        return out
    return core.cast_scalar(value, dt)


def _cast_res(res, ldt):
    return res


def _rewrap(res):
    if isinstance(res, SArr):
        if res.ldt is None:
            res.ldt = _infer_ldt_from_elems(res.view(_ND))
        return res
    if isinstance(res, _ND) and res.dtype == object:
        return wrap(res)
    if isinstance(res, tuple):
        return tuple(_rewrap(r) for r in res)
    if isinstance(res, list):
        return [_rewrap(r) for r in res]
    return res


# ----------------------------------------------------------------------------- indexing


def _concrete_bool(a):
    """SArr of (possibly symbolic) bools -> real bool ndarray, forking on symbols"""
    p = _plain(a)
    out = rnp.empty(p.shape, dtype=bool)
    for idx in rnp.ndindex(p.shape):
        out[idx] = bool(_tb(p[idx]))
    return out


def _concrete_index(a):
    """index array that must be concrete"""
    if isinstance(a, SArr):
        p = a.view(_ND)
        if any(is_sym(e) for e in p.flat):
            raise Unsupported("symbolic index where a concrete one is needed")
        kind = a.ldt.kind if a.ldt is not None else "i"
        return rnp.array(p.tolist(), dtype=bool if kind == "b" else rnp.int64).reshape(p.shape)
    return a


class _Gather:
    """indexing of axis 0 (plus trailing basic indices) by a symbolic integer array"""

    def __init__(self, idx, rest):
        self.idx = idx  # plain object ndarray of ints (some symbolic)
        self.rest = rest

    def _select(self, arr, i):
        n = arr.shape[0]
        if not isinstance(i, SNum):
            return arr[int(i)]
        inb = sand(i >= -n, i < n)
        if not bool(inb):
            raise core.modelled(IndexError("index out of bounds (symbolic)"))
        res = arr[n - 1]
        for k in range(n - 2, -1, -1):
            cond = sor(i == k, i == k - n)
            if isinstance(res, _ND):
                res = wrap(rnp.frompyfunc(lambda a, b, c=cond: ite(c, a, b), 2, 1)(_plain(arr[k]), _plain(res)))
            else:
                res = ite(cond, arr[k], res)
        return res

    def get(self, arr):
        p = arr.view(_ND)
        if p.shape[0] == 0:
            raise core.modelled(IndexError("gather from empty axis"))
        out_shape = self.idx.shape
        first = None
        out = None
        for pos in rnp.ndindex(out_shape):
            v = self._select(p, self.idx[pos])
            if isinstance(v, _ND):
                v = v.view(_ND)
            if out is None:
                tail = v.shape if isinstance(v, _ND) else ()
                out = rnp.empty(out_shape + tail, dtype=object)
            out[pos] = v
        if out is None:
            out = rnp.empty(out_shape + p.shape[1:], dtype=object)
        r = wrap(out, arr.ldt)
        if self.rest:
            r = r[(Ellipsis,) + tuple(self.rest)] if False else r[tuple([slice(None)] * len(out_shape) + list(self.rest))]
        return r

    def set(self, arr, value):
        p = arr.view(_ND)
        if self.rest:
            raise Unsupported("scatter with trailing index")
        n = p.shape[0]
        if isinstance(value, SArr):
            value = value.view(_ND)
        value = rnp.broadcast_to(_obj_array(value) if not isinstance(value, _ND) or value.dtype != object else value, self.idx.shape + p.shape[1:])
        for pos in rnp.ndindex(self.idx.shape):
            i = self.idx[pos]
            if not isinstance(i, SNum):
                p[int(i)] = value[pos]
                continue
            inb = sand(i >= -n, i < n)
            if not bool(inb):
                raise core.modelled(IndexError("index out of bounds (symbolic)"))
            for k in range(n):
                cond = sor(i == k, i == k - n)
                if p.ndim == 1:
                    p[k] = ite(cond, value[pos], p[k])
                else:
                    p[k] = rnp.frompyfunc(lambda a, b, c=cond: ite(c, a, b), 2, 1)(_plain(value[pos]), _plain(p[k]))


def _prep_key(arr, key):
    """normalise an index: symbolic masks are concretised (fork), symbolic int arrays
    become a _Gather; SArr keys with concrete content become real index arrays"""
    if isinstance(key, SNum):
        v = z3.simplify(key.t)
        if z3.is_int_value(v):
            return v.as_long()
        idx = rnp.empty((), dtype=object)
        idx[()] = key
        return _Gather(idx, [])
    if isinstance(key, SBool):
        return bool(key)
    if isinstance(key, SArr):
        return _prep_arr_key(key)
    if isinstance(key, list) and _has_sym(key):
        return _prep_arr_key(to_sarr(key))
    if isinstance(key, tuple):
        if not any(isinstance(k, (SArr, SNum, SBool)) or (isinstance(k, list) and _has_sym(k)) for k in key):
            return key
        new = []
        for k in key:
            if isinstance(k, (SArr, SNum, SBool)) or (isinstance(k, list) and _has_sym(k)):
                k = _prep_key(arr, k)
            new.append(k)
        gs = [i for i, k in enumerate(new) if isinstance(k, _Gather)]
        if not gs:
            return tuple(new)
        if gs == [0] and all(isinstance(k, (slice, int, rnp.integer)) for k in new[1:]):
            return _Gather(new[0].idx, new[1:])
        raise Unsupported("symbolic fancy index in position %s" % gs)
    return key


def _prep_arr_key(key):
    p = key.view(_ND)
    kind = key.ldt.kind if key.ldt is not None else _infer_ldt_from_elems(p).kind
    if kind == "b":
        return _concrete_bool(key)
    if not any(is_sym(e) for e in p.flat):
        return rnp.array(p.tolist(), dtype=rnp.int64).reshape(p.shape)
    return _Gather(p, [])


# ----------------------------------------------------------------------------- functions


def _round(a, decimals=0):
    if not isinstance(a, (SArr, SNum)):
        return rnp.round(a, decimals)
    if decimals == 0:
        f = _fl(core.sym_round)
    else:
        sc = 10**decimals

        def f(x, sc=sc):
            if not is_sym(x):
                return round(x, decimals)
            return core.sym_round(x * sc).real() / sc

    if isinstance(a, SNum):
        return f(a)
    if a.ldt is not None and a.ldt.kind in "iu" and decimals >= 0:
        return a.copy()
    return wrap(rnp.frompyfunc(f, 1, 1)(_plain(a)), rnp.float64)


def _clip(a, lo, hi, out=None, **kw):
    def f(x):
        if lo is not None:
            x = core.sym_max(x, lo)
        if hi is not None:
            x = core.sym_min(x, hi)
        return x

    if isinstance(a, SArr):
        if isinstance(lo, _ND) or isinstance(hi, _ND):
            r = a
            if lo is not None:
                r = shim.maximum(r, lo)
            if hi is not None:
                r = shim.minimum(r, hi)
            return r
        return wrap(rnp.frompyfunc(f, 1, 1)(_plain(a)), a.ldt)
    if is_sym(a) or is_sym(lo) or is_sym(hi):
        return f(a)
    return rnp.clip(a, lo, hi)


def _argext(a, axis, is_max):
    a = to_sarr(a) if not isinstance(a, SArr) else a
    p = _plain(a)
    if axis is None:
        p = p.reshape(-1)
        axis = 0
    p = rnp.moveaxis(p, axis, 0)
    out = rnp.empty(p.shape[1:], dtype=object)
    for idx in rnp.ndindex(p.shape[1:]):
        best = 0
        # first index attaining the extremum (numpy semantics)
        bi = 0
        bv = p[(0,) + idx]
        for k in range(1, p.shape[0]):
            v = p[(k,) + idx]
            better = (v > bv) if is_max else (v < bv)
            bi = ite(better, k, bi)
            bv = ite(better, v, bv)
        out[idx] = bi
    if out.ndim == 0:
        return out[()]
    return wrap(out, rnp.int64)


def _dot(a, b, out=None):
    pa = _plain(a) if isinstance(a, SArr) else (_obj_array(a) if _has_sym(a) or True else a)
    pb = _plain(b) if isinstance(b, SArr) else _obj_array(b)
    r = rnp.dot(pa, pb)
    if isinstance(r, _ND):
        return wrap(r)
    return r


def _where(cond, *xy):
    if not xy:
        return tuple(to_sarr(i) for i in _concrete_bool(to_sarr(cond)).nonzero())
    x, y = xy
    c = _plain(to_sarr(cond)) if not (isinstance(cond, _ND) and cond.dtype != object) else cond
    px = _plain(x) if isinstance(x, SArr) else (x if isinstance(x, _ND) and x.dtype != object else (_obj_array(x) if isinstance(x, (list, tuple, _ND)) else x))
    py = _plain(y) if isinstance(y, SArr) else (y if isinstance(y, _ND) and y.dtype != object else (_obj_array(y) if isinstance(y, (list, tuple, _ND)) else y))
    r = rnp.frompyfunc(lambda cc, a, b: ite(_tb(cc), a, b), 3, 1)(c, px, py)
    if isinstance(r, _ND):
        return wrap(r)
    return r


def _isclose(a, b, rtol=1e-05, atol=1e-08, equal_nan=False):
    d = shim.abs(shim.subtract(a, b))
    return shim.less_equal(d, shim.add(atol, shim.multiply(rtol, shim.abs(b))))


def _allclose(a, b, rtol=1e-05, atol=1e-08, equal_nan=False):
    return _all(_isclose(a, b, rtol, atol))


def _any(a, axis=None, out=None, keepdims=False, **kw):
    if isinstance(a, (SBool, SNum)):
        return _tb(a)
    a = to_sarr(a) if not isinstance(a, _ND) else a
    if not isinstance(a, SArr):
        return rnp.any(a, axis=axis, keepdims=keepdims)
    return rnp.logical_or.reduce(a, axis=axis, keepdims=keepdims)


def _all(a, axis=None, out=None, keepdims=False, **kw):
    if isinstance(a, (SBool, SNum)):
        return _tb(a)
    if isinstance(a, (bool, rnp.bool_)):
        return bool(a)
    a = to_sarr(a) if not isinstance(a, _ND) else a
    if not isinstance(a, SArr):
        return rnp.all(a, axis=axis, keepdims=keepdims)
    return rnp.logical_and.reduce(a, axis=axis, keepdims=keepdims)


def _det_plain(m):
    n = m.shape[0]
    if n == 1:
        return m[0, 0]
    if n == 2:
        return m[0, 0] * m[1, 1] - m[0, 1] * m[1, 0]
    tot = 0
    for j in range(n):
        e = m[0, j]
        if not is_sym(e) and e == 0:
            continue
        minor = rnp.delete(rnp.delete(m, 0, axis=0), j, axis=1)
        term = e * _det_plain(minor)
        tot = tot + term if j % 2 == 0 else tot - term
    return tot


def _det(a):
    a = to_sarr(a)
    p = _plain(a)
    if p.ndim == 2:
        return _det_plain(p)
    out = rnp.empty(p.shape[:-2], dtype=object)
    for idx in rnp.ndindex(p.shape[:-2]):
        out[idx] = _det_plain(p[idx])
    return wrap(out, rnp.float64)


def _canon_elem(e):
    """canonical text of one element (simplified term, or the float value)"""
    if is_sym(e):
        t = z3.simplify(e.t)
        if z3.is_rational_value(t):
            return repr(float(t.as_fraction()))
        if z3.is_int_value(t):
            return repr(float(t.as_long()))
        return t.sexpr()
    if isinstance(e, (bool, rnp.bool_)):
        return repr(bool(e))
    if isinstance(e, (int, float, rnp.integer, rnp.floating)):
        return repr(float(e))
    return repr(e)


def _inv(a):
    """assumed contract of numpy.linalg.inv: for det != 0 the result X has A.X = X.A = I"""
    a = to_sarr(a)
    p = _plain(a)
    if p.ndim != 2 or p.shape[0] != p.shape[1]:
        raise Unsupported("inv of stack")
    if not _contains_sym_elems(a):
        return rnp.linalg.inv(rnp.array(p.tolist(), dtype=float))
    c = core.ctx()
    c.trusted.add("numpy.linalg.inv: A nonsingular => A.X = X.A = I (assumed contract)")
    n = p.shape[0]
    # inv is a function: the same argument terms give the same result symbols
    mkey = ("inv",) + tuple(_canon_elem(e) for e in p.flat)
    if mkey in c.memo:
        return wrap(c.memo[mkey].copy(), rnp.float64)
    X = rnp.empty((n, n), dtype=object)
    affine = all((not is_sym(p[n - 1, j])) and p[n - 1, j] == (1 if j == n - 1 else 0) for j in range(n))
    for i in range(n):
        for j in range(n):
            if affine and i == n - 1:
                X[i, j] = 1.0 if j == n - 1 else 0.0
            else:
                X[i, j] = SNum(c.fresh(z3.RealSort(), "inv"))
    d = _det_plain(p)
    AX = rnp.dot(p, X)
    XA = rnp.dot(X, p)
    eqs = []
    for i in range(n):
        for j in range(n):
            tgt = 1 if i == j else 0
            for M in (AX, XA):
                e = M[i, j] == tgt
                if e is True:
                    continue
                eqs.append(core.tobool(e))
    if not c.memo.get("opaque_inverse"):
        c.axiom(z3.Implies(core.tobool(d != 0), z3.And(*eqs)))
    c.memo[mkey] = X.copy()
    return wrap(X, rnp.float64)


def _norm(x, ord=None, axis=None, keepdims=False):
    if ord not in (None, 2, "fro"):
        raise Unsupported("norm ord=%r" % (ord,))
    x = to_sarr(x)
    sq = x * x
    if ord == 2 and axis is None and x.ndim > 1:
        raise Unsupported("matrix 2-norm")
    s = sq.sum(axis=axis, keepdims=keepdims)
    return shim.sqrt(s)


def _cross(a, b, axisa=-1, axisb=-1, axisc=-1, axis=None):
    a = to_sarr(a)
    b = to_sarr(b)
    if axis is not None:
        axisa = axisb = axisc = axis
    a = rnp.moveaxis(a, axisa, -1)
    b = rnp.moveaxis(b, axisb, -1)
    if a.shape[-1] == 2 and b.shape[-1] == 2:
        return a[..., 0] * b[..., 1] - a[..., 1] * b[..., 0]
    if a.shape[-1] != 3 or b.shape[-1] != 3:
        raise Unsupported("cross of mixed 2/3 vectors")
    shape = rnp.broadcast_shapes(a.shape, b.shape)
    out = rnp.empty(shape, dtype=object).view(SArr)
    out.ldt = rnp.dtype("float64") if (a.ldt is None or b.ldt is None or a.ldt.kind == "f" or b.ldt.kind == "f") else a.ldt
    out[..., 0] = a[..., 1] * b[..., 2] - a[..., 2] * b[..., 1]
    out[..., 1] = a[..., 2] * b[..., 0] - a[..., 0] * b[..., 2]
    out[..., 2] = a[..., 0] * b[..., 1] - a[..., 1] * b[..., 0]
    return rnp.moveaxis(out, -1, axisc)


def _sign(a):
    return shim.__getattr__("sign")(a)


def _diag(v, k=0):
    v = to_sarr(v)
    return wrap(rnp.diag(_plain(v), k), v.ldt)


def _trace(a, offset=0, axis1=0, axis2=1, **kw):
    a = to_sarr(a)
    d = rnp.diagonal(_plain(a), offset, axis1, axis2)
    return wrap(d, a.ldt).sum(axis=-1)


def _outer(a, b, out=None):
    a = to_sarr(a).reshape(-1)
    b = to_sarr(b).reshape(-1)
    return a[:, None] * b[None, :]


def _einsum(subs, *ops, **kw):
    ops = [_plain(to_sarr(o)) for o in ops]
    r = rnp.einsum(subs, *ops, optimize=False) if False else _einsum_obj(subs, ops)
    return wrap(r) if isinstance(r, _ND) else r


def _einsum_obj(subs, ops):
    subs = subs.replace(" ", "")
    if "->" in subs:
        ins, out = subs.split("->")
    else:
        ins = subs
        letters = "".join(sorted(set(c for c in ins if c.isalpha())))
        out = "".join(c for c in letters if ins.count(c) == 1)
    ins = ins.split(",")
    if any("." in s for s in ins):
        raise Unsupported("einsum ellipsis")
    dims = {}
    for s, o in zip(ins, ops):
        for c, d in zip(s, o.shape):
            dims[c] = d
    summed = [c for c in dims if c not in out]
    res = rnp.empty([dims[c] for c in out], dtype=object)
    for oidx in rnp.ndindex(*[dims[c] for c in out]):
        env = dict(zip(out, oidx))
        tot = 0
        for sidx in itertools.product(*[range(dims[c]) for c in summed]):
            env.update(zip(summed, sidx))
            term = 1
            for s, o in zip(ins, ops):
                term = term * o[tuple(env[c] for c in s)]
            tot = tot + term
        res[oidx] = tot
    return res


def _argsort(a, axis=-1, kind=None, order=None, **kw):
    a = to_sarr(a)
    p = _plain(a)
    if p.ndim != 1:
        if axis in (-1, p.ndim - 1):
            out = rnp.empty(p.shape, dtype=rnp.int64)
            for idx in rnp.ndindex(p.shape[:-1]):
                out[idx] = _argsort(wrap(p[idx], a.ldt))
            return out
        raise Unsupported("argsort axis")
    # stable insertion by explicit comparisons (forks on symbolic comparisons)
    order_ = []
    for i in range(p.shape[0]):
        pos = len(order_)
        while pos > 0 and bool(_tb(p[i] < p[order_[pos - 1]])):
            pos -= 1
        order_.insert(pos, i)
    return rnp.array(order_, dtype=rnp.int64)


def _sort(a, axis=-1, **kw):
    a = to_sarr(a)
    idx = _argsort(a, axis=axis)
    return rnp.take_along_axis(a, idx, axis=axis) if a.ndim > 1 else a[idx]


def _unique(ar, return_index=False, return_inverse=False, return_counts=False, axis=None, **kw):
    if axis is not None:
        raise Unsupported("unique axis")
    a = to_sarr(ar).reshape(-1)
    order = _argsort(a)
    s = a[order]
    n = s.shape[0]
    flag = rnp.ones(n, dtype=bool)
    ps = _plain(s)
    for i in range(1, n):
        flag[i] = bool(_tb(ps[i] != ps[i - 1]))
    res = [s[flag]]
    if return_index:
        res.append(order[flag])
    if return_inverse:
        grp = rnp.cumsum(flag) - 1
        inv = rnp.empty(n, dtype=rnp.int64)
        inv[order] = grp
        res.append(inv)
    if return_counts:
        pos = rnp.concatenate([rnp.nonzero(flag)[0], [n]])
        res.append(rnp.diff(pos))
    return res[0] if len(res) == 1 else tuple(res)


def _ptp(a, axis=None, **kw):
    a = to_sarr(a)
    return a.max(axis=axis) - a.min(axis=axis)


def _mean(a, axis=None, **kw):
    return to_sarr(a).mean(axis=axis, **{k: v for k, v in kw.items() if k == "keepdims"})


def _count_nonzero(a, axis=None, **kw):
    a = to_sarr(a)
    nz = rnp.frompyfunc(lambda x: ite(_tb(x), 1, 0), 1, 1)(_plain(a))
    return wrap(nz, rnp.int64).sum(axis=axis) if isinstance(nz, _ND) else nz


def _array_equal(a, b, **kw):
    a = to_sarr(a)
    b = to_sarr(b)
    if a.shape != b.shape:
        return False
    return _all(shim.equal(a, b))


def _nonzero(a):
    return tuple(to_sarr(i) for i in _concrete_bool(to_sarr(a)).nonzero())


def _flatnonzero(a):
    return to_sarr(_concrete_bool(to_sarr(a).reshape(-1)).nonzero()[0])


def _abs(a):
    return shim.__getattr__("absolute")(a)


def _isscalar(x):
    return isinstance(x, (SNum, SBool, SBV)) or rnp.isscalar(x)


def _bincount(x, weights=None, minlength=0):
    if isinstance(x, SArr) and _contains_sym_elems(x) and weights is None:
        # length = max(x)+1 is decided by forking (needs an upper bound from the path)
        p = _plain(x)
        top = None
        for k in range(0, 65):
            if bool(sand(*[_tb(e <= k) for e in p.flat])):
                top = k
                break
        if top is None:
            raise Unsupported("bincount of unbounded symbolic integers")
        if not bool(sand(*[_tb(e >= 0) for e in p.flat])):
            raise core.modelled(ValueError("'list' argument must have no negative elements"))
        n = max(top + 1, int(minlength))
        out = rnp.empty(n, dtype=object)
        for k in range(n):
            out[k] = functools.reduce(lambda a, b: a + b, [ite(e == k, 1, 0) for e in p.flat], 0)
        return wrap(out, rnp.int64)
    x = _concrete_index(to_sarr(x)) if isinstance(x, SArr) else x
    if weights is None or not _holds_symbols(weights):
        return from_real(rnp.bincount(to_real(x), weights=to_real(weights), minlength=minlength))
    w = _plain(to_sarr(weights))
    n = max(int(x.max()) + 1 if len(x) else 0, minlength)
    out = rnp.empty(n, dtype=object)
    out[:] = 0.0
    for i, k in enumerate(x):
        out[k] = out[k] + w[i]
    return wrap(out, rnp.float64)


def _repeat(a, repeats, axis=None):
    """numpy.repeat with (possibly symbolic) counts: the counts are needed as Python ints,
    so symbolic ones are case split (complete when the path condition bounds them)"""
    a = to_sarr(a)
    p = _plain(a)
    if isinstance(repeats, (SNum, int, rnp.integer)):
        cnt = [int(repeats.__index__() if isinstance(repeats, SNum) else repeats)]
    else:
        r = _plain(to_sarr(repeats)).reshape(-1)
        cnt = [int(e.__index__()) if isinstance(e, SNum) else int(e) for e in r]
    if any(c < 0 for c in cnt):
        raise core.modelled(ValueError("repeats may not contain negative values."))
    if axis is None:
        p = p.reshape(-1)
        axis = 0
    n = p.shape[axis]
    if len(cnt) == 1:
        cnt = cnt * n
    if len(cnt) != n:
        raise core.modelled(ValueError("operands could not be broadcast together with shape (%d,) (%d,)" % (n, len(cnt))))
    idx = [i for i in range(n) for _ in range(cnt[i])]
    out = rnp.take(p, rnp.array(idx, dtype=rnp.intp), axis=axis) if idx else rnp.take(p, rnp.array([], dtype=rnp.intp), axis=axis)
    return wrap(out.astype(object), a.ldt)


def _take(a, indices, axis=None):
    """numpy.take with concrete indices along one axis of a (possibly symbolic) array"""
    a = to_sarr(a)
    idx = _concrete_index(indices) if isinstance(indices, SArr) else rnp.asarray(indices)
    p = _plain(a)
    r = rnp.take(p, rnp.asarray(idx, dtype=rnp.intp), axis=axis)
    return wrap(r, a.ldt) if isinstance(r, _ND) else r


def _strides_of(dims):
    st = []
    acc = 1
    for d in reversed(list(dims)):
        st.append(acc)
        acc *= int(d)
    return list(reversed(st)), acc


def _ravel_multi_index(multi_index, dims, mode="raise", order="C"):
    """numpy.ravel_multi_index, C order, mode='raise': definitional semantics"""
    if mode != "raise" or order != "C":
        raise Unsupported("ravel_multi_index mode/order")
    dims = [int(d) for d in dims]
    cols = [_plain(to_sarr(m)) for m in (multi_index if isinstance(multi_index, (tuple, list)) else list(to_sarr(multi_index)))]
    if len(cols) != len(dims):
        raise core.modelled(ValueError("parameter multi_index must be a sequence of length %d" % len(dims)))
    st, _ = _strides_of(dims)
    shape = rnp.broadcast_shapes(*[c.shape for c in cols])
    cols = [rnp.broadcast_to(c, shape) for c in cols]
    out = rnp.empty(shape, dtype=object)
    for pos in rnp.ndindex(shape):
        tot = 0
        for c, d, k in zip(cols, dims, st):
            i = c[pos]
            if not bool(sand(i >= 0, i < d)):
                raise core.modelled(ValueError("invalid entry in coordinates array"))
            tot = tot + i * k
        out[pos] = tot
    return wrap(out, rnp.int64) if shape != () else out[()]


def _unravel_index(indices, shape, order="C"):
    """numpy.unravel_index, C order: definitional semantics (tuple of arrays)"""
    if order != "C":
        raise Unsupported("unravel_index order")
    dims = [int(d) for d in shape]
    st, total = _strides_of(dims)
    p = _plain(to_sarr(indices))
    outs = [rnp.empty(p.shape, dtype=object) for _ in dims]
    for pos in rnp.ndindex(p.shape):
        i = p[pos]
        if not bool(sand(i >= 0, i < total)):
            raise core.modelled(ValueError("index is out of bounds for array with size %d" % total))
        for o, d, k in zip(outs, dims, st):
            o[pos] = (i // k) % d
    return tuple(wrap(o, rnp.int64) for o in outs)


def _cumsum(a, axis=None):
    a = to_sarr(a)
    p = _plain(a)
    if axis is None:
        p = p.reshape(-1)
        axis = 0
    out = p.copy()
    idx = [slice(None)] * p.ndim
    prev = [slice(None)] * p.ndim
    for i in range(1, p.shape[axis]):
        idx[axis] = i
        prev[axis] = i - 1
        out[tuple(idx)] = out[tuple(prev)] + p[tuple(idx)]
    ldt = a.ldt
    if ldt is not None and ldt.kind == "b":
        ldt = rnp.dtype("int64")
    return wrap(out, ldt)


def _lexsort(keys, axis=-1):
    keys = [to_sarr(k) for k in keys]
    n = keys[0].shape[0]
    order_ = []

    def lt(i, j):
        for k in reversed(keys):
            pk = _plain(k)
            if bool(_tb(pk[i] < pk[j])):
                return True
            if bool(_tb(pk[j] < pk[i])):
                return False
        return False

    for i in range(n):
        pos = len(order_)
        while pos > 0 and lt(i, order_[pos - 1]):
            pos -= 1
        order_.insert(pos, i)
    return rnp.array(order_, dtype=rnp.int64)


HANDLED = {
    rnp.where: _where,
    rnp.isclose: _isclose,
    rnp.allclose: _allclose,
    rnp.any: _any,
    rnp.all: _all,
    rnp.linalg.det: _det,
    rnp.linalg.inv: _inv,
    rnp.linalg.norm: _norm,
    rnp.cross: _cross,
    rnp.round: _round,
    rnp.around: _round,
    rnp.clip: _clip,
    rnp.dot: _dot,
    rnp.diag: _diag,
    rnp.trace: _trace,
    rnp.outer: _outer,
    rnp.einsum: _einsum,
    rnp.argsort: _argsort,
    rnp.sort: _sort,
    rnp.unique: _unique,
    rnp.ptp: _ptp,
    rnp.mean: _mean,
    rnp.argmax: lambda a, axis=None, **k: _argext(a, axis, True),
    rnp.argmin: lambda a, axis=None, **k: _argext(a, axis, False),
    rnp.count_nonzero: _count_nonzero,
    rnp.array_equal: _array_equal,
    rnp.nonzero: _nonzero,
    rnp.flatnonzero: _flatnonzero,
    rnp.bincount: _bincount,
    rnp.lexsort: _lexsort,
    rnp.take: lambda a, indices, axis=None, out=None, mode="raise": _take(a, indices, axis),
    rnp.repeat: lambda a, repeats, axis=None: _repeat(a, repeats, axis),
    rnp.ravel_multi_index: lambda multi_index, dims, mode="raise", order="C": _ravel_multi_index(multi_index, dims, mode, order),
    rnp.unravel_index: lambda indices, shape, order="C": _unravel_index(indices, shape, order),
    rnp.cumsum: lambda a, axis=None, dtype=None, out=None: _cumsum(a, axis),
}


# ----------------------------------------------------------------------------- the shim module


class _Random:
    """np.random inside a symbolic run: havoc (fresh unconstrained values in [0,1))"""

    def __getattr__(self, name):
        return getattr(rnp.random, name)

    def _fresh(self, shape):
        c = core.ctx()
        q = c.memo.get("rand_queue")
        if q:
            a = q[0]
            shp = (shape,) if isinstance(shape, (int, rnp.integer)) else (tuple(shape) if shape is not None else ())
            if tuple(a.shape) == tuple(shp):
                q.pop(0)
                return a.copy() if isinstance(a, _ND) else a
        c.trusted.add("numpy.random: modelled as havoc (every value in range)")
        if shape is None or shape == ():
            v = c.fresh(z3.RealSort(), "rand")
            c.axiom(z3.And(v >= 0, v < 1))
            return SNum(v)
        if isinstance(shape, (int, rnp.integer)):
            shape = (int(shape),)
        out = rnp.empty(tuple(shape), dtype=object)
        for idx in rnp.ndindex(out.shape):
            v = c.fresh(z3.RealSort(), "rand")
            c.axiom(z3.And(v >= 0, v < 1))
            out[idx] = SNum(v)
        return wrap(out, rnp.float64)

    def random(self, size=None):
        if not core.active():
            return rnp.random.random(size)
        return self._fresh(size)

    random_sample = random

    def rand(self, *shape):
        if not core.active():
            return rnp.random.rand(*shape)
        return self._fresh(shape if shape else None)

    def uniform(self, low=0.0, high=1.0, size=None):
        if not core.active():
            return rnp.random.uniform(low, high, size)
        return low + (high - low) * self._fresh(size)


class _Linalg:
    def __getattr__(self, name):
        return getattr(rnp.linalg, name)

    def norm(self, x, ord=None, axis=None, keepdims=False):
        if _has_sym(x):
            return _norm(x, ord, axis, keepdims)
        return rnp.linalg.norm(x, ord, axis, keepdims)

    def det(self, a):
        if _has_sym(a):
            return _det(a)
        return rnp.linalg.det(a)

    def inv(self, a):
        if _has_sym(a):
            return _inv(a)
        return rnp.linalg.inv(a)

    def _unsup(name):
        def f(self, *a, **k):
            if any(_has_sym(x) for x in a):
                h = STUBS.get("numpy.linalg." + name)
                if h is not None:
                    return h(*a, **k)
                raise Unsupported("numpy.linalg.%s on symbolic input (no stub)" % name)
            return getattr(rnp.linalg, name)(*a, **k)

        return f

    svd = _unsup("svd")
    eig = _unsup("eig")
    eigh = _unsup("eigh")
    eigvals = _unsup("eigvals")
    eigvalsh = _unsup("eigvalsh")
    lstsq = _unsup("lstsq")
    solve = _unsup("solve")
    qr = _unsup("qr")
    pinv = _unsup("pinv")
    matrix_rank = _unsup("matrix_rank")
    def multi_dot(self, arrays, out=None):
        if any(_has_sym(x) for x in arrays):
            return functools.reduce(lambda a, b: _dot(a, b), arrays)
        return rnp.linalg.multi_dot(arrays)


STUBS = {}  # contract-provided stubs for external numerics, by dotted name


def _ldt_from(dtype, default="float64"):
    return rnp.dtype(dtype if dtype is not None else default)


def _zero_of(dt):
    return False if dt.kind == "b" else (0 if dt.kind in "iu" else 0.0)


def _one_of(dt):
    return True if dt.kind == "b" else (1 if dt.kind in "iu" else 1.0)


class Shim(types.ModuleType):
    """module object standing in for `numpy` inside mirrored modules"""

    def __init__(self):
        super().__init__("numpy")
        self.random = _Random()
        self.linalg = _Linalg()
        self.__path__ = []  # looks like a package

    # everything not overridden is real numpy (ufuncs get a scalar-aware wrapper)
    def __getattr__(self, name):
        real = getattr(rnp, name)
        if isinstance(real, rnp.ufunc) and name in UF or (isinstance(real, rnp.ufunc) and real.__name__ in UF):
            w = _UfuncWrapper(real)
            setattr(self, name, w)
            return w
        h = HANDLED.get(real) if callable(real) and not isinstance(real, type) else None
        if h is not None:
            w = _FuncWrapper(real, h)
            setattr(self, name, w)
            return w
        if callable(real) and not isinstance(real, type) and not isinstance(real, rnp.ufunc) and (type(real).__name__ in ("function", "builtin_function_or_method", "_ArrayFunctionDispatcher")):
            w = _GenericWrapper(real)
            setattr(self, name, w)
            return w
        return real

    # ---- creation
    def _mk(self, shape, dtype, fill):
        dt = _ldt_from(dtype)

        if isinstance(shape, (int, rnp.integer, SNum)):
            shape = (shape,)
        symd = [i for i, d in enumerate(shape) if isinstance(d, SNum) and not z3.is_int_value(z3.simplify(d.t))]
        if symd:
            if len(symd) > 1:
                raise Unsupported("array with two symbolic dimensions")
            from . import larr

            N = shape[symd[0]].t
            rest = tuple(int(d) for i, d in enumerate(shape) if i != symd[0])
            row = rnp.empty(rest, dtype=object)
            row[...] = fill(dt)
            return larr.LArr(N, larr.index_for(N), wrap(row, dt), symd[0], dt)
        shape = tuple(int(s) for s in shape)
        out = rnp.empty(shape, dtype=object)
        out[...] = fill(dt)
        return wrap(out, dt)

    def zeros(self, shape, dtype=None, order="C", **kw):
        if not core.active() and not _has_sym(shape):
            return rnp.zeros(shape, dtype=dtype)
        return self._mk(shape, dtype, _zero_of)

    def empty(self, shape, dtype=None, order="C", **kw):
        if not core.active() and not _has_sym(shape):
            return rnp.empty(shape, dtype=dtype)
        return self._mk(shape, dtype, _zero_of)

    def ones(self, shape, dtype=None, order="C", **kw):
        if not core.active() and not _has_sym(shape):
            return rnp.ones(shape, dtype=dtype)
        return self._mk(shape, dtype, _one_of)

    def full(self, shape, fill_value, dtype=None, **kw):
        if not core.active() and not _has_sym(fill_value):
            return rnp.full(shape, fill_value, dtype=dtype)
        r = self._mk(shape, dtype if dtype is not None else (rnp.asarray(fill_value).dtype if not is_sym(fill_value) else None), _zero_of)
        r[...] = fill_value
        return r

    def eye(self, N, M=None, k=0, dtype=None, **kw):
        if not core.active():
            return rnp.eye(N, M, k, dtype=dtype if dtype is not None else float)
        return to_sarr(rnp.eye(N, M, k, dtype=dtype if dtype is not None else float))

    def identity(self, n, dtype=None, **kw):
        return self.eye(n, dtype=dtype)

    def zeros_like(self, a, dtype=None, **kw):
        if isinstance(a, SArr) or core.active():
            a = to_sarr(a) if not isinstance(a, _ND) else a
            return self._mk(a.shape, dtype if dtype is not None else a.dtype, _zero_of)
        return rnp.zeros_like(a, dtype=dtype)

    def ones_like(self, a, dtype=None, **kw):
        if isinstance(a, SArr) or core.active():
            a = to_sarr(a) if not isinstance(a, _ND) else a
            return self._mk(a.shape, dtype if dtype is not None else a.dtype, _one_of)
        return rnp.ones_like(a, dtype=dtype)

    def empty_like(self, a, dtype=None, **kw):
        return self.zeros_like(a, dtype=dtype)

    def full_like(self, a, fill_value, dtype=None, **kw):
        r = self.zeros_like(a, dtype=dtype)
        r[...] = fill_value
        return r

    # ---- coercion
    def array(self, a, dtype=None, copy=True, order="K", subok=False, ndmin=0, **kw):
        if _is_larr(a):
            r = a.astype(dtype) if dtype is not None else a
            return r.copy() if copy else r
        if _has_sym(a):
            if copy is False and not isinstance(a, SArr):
                raise ValueError("Unable to avoid copy while creating an array as requested.")
            r = to_sarr(a, dtype=dtype)
            if copy and r is a:
                r = r.copy()
            elif copy and isinstance(a, SArr) and dtype is None:
                r = r.copy()
            while r.ndim < ndmin:
                r = r[None]
            return r
        r = rnp.array(a, dtype=dtype, copy=copy, order=order, subok=subok, ndmin=ndmin)
        return from_real(r) if core.active() else r

    def asarray(self, a, dtype=None, order=None, **kw):
        if _is_larr(a):
            return a.astype(dtype) if (dtype is not None and rnp.dtype(dtype) != a.ldt) else a
        if _has_sym(a):
            if isinstance(a, SArr) and (dtype is None or rnp.dtype(dtype) == a.ldt):
                return a
            return to_sarr(a, dtype=dtype)
        r = rnp.asarray(a, dtype=dtype, order=order)
        return from_real(r) if core.active() else r

    def asanyarray(self, a, dtype=None, order=None, **kw):
        if _has_sym(a):
            return self.asarray(a, dtype=dtype)
        r = rnp.asanyarray(a, dtype=dtype, order=order)
        return from_real(r) if core.active() else r

    def ascontiguousarray(self, a, dtype=None, **kw):
        if _has_sym(a):
            return self.asarray(a, dtype=dtype)
        r = rnp.ascontiguousarray(a, dtype=dtype)
        return from_real(r) if core.active() else r

    def require(self, a, dtype=None, requirements=None, **kw):
        if _has_sym(a):
            return self.asarray(a, dtype=dtype)
        return rnp.require(a, dtype=dtype, requirements=requirements)

    def copy(self, a, **kw):
        if _is_larr(a):
            return a.copy()
        if _has_sym(a):
            return to_sarr(a).copy()
        return rnp.copy(a, **kw)

    # ---- joins on lists possibly holding symbols (no array arg to dispatch on)
    def _join(name):
        def f(self, seq, *a, **k):
            real = getattr(rnp, name)
            if isinstance(seq, (list, tuple)) and any(_is_larr(s) for s in seq):
                return real(seq, *a, **k)
            if isinstance(seq, (list, tuple)) and any(_has_sym(s) for s in seq):
                # the logical dtype of the result follows numpy's promotion of the operands
                ldts = [_ldt_of(s) if isinstance(s, (SArr, _ND, rnp.generic)) else None for s in seq]
                ldt = None
                if ldts and all(d is not None and rnp.dtype(d).kind != "O" for d in ldts):
                    try:
                        ldt = rnp.result_type(*ldts)
                    except TypeError:
                        ldt = None
                seq = [_plain(to_sarr(s)) for s in seq]
                k.pop("dtype", None)
                return wrap(real(seq, *a, **k), ldt)
            r = real(to_real(seq) if isinstance(seq, (list, tuple)) else seq, *a, **k)
            return from_real(r) if core.active() else r

        return f

    concatenate = _join("concatenate")
    vstack = _join("vstack")
    hstack = _join("hstack")
    stack = _join("stack")
    column_stack = _join("column_stack")
    dstack = _join("dstack")
    row_stack = _join("vstack")

    def append(self, arr, values, axis=None):
        if _has_sym(arr) or _has_sym(values):
            a = _plain(to_sarr(arr))
            v = _plain(to_sarr(values))
            if axis is None:
                return wrap(rnp.concatenate([a.reshape(-1), v.reshape(-1)]))
            return wrap(rnp.concatenate([a, v], axis=axis))
        r = rnp.append(to_real(arr), to_real(values), axis=axis)
        return from_real(r) if core.active() else r

    def isscalar(self, x):
        return _isscalar(x)

    def abs(self, x, *a, **k):
        return self.__getattr__("absolute")(x, *a, **k)

    def sum(self, a, axis=None, **kw):
        if _is_larr(a):
            return getattr(a, "sum")(axis=axis)
        if isinstance(a, (list, tuple)) and _has_sym(a) or isinstance(a, SArr):
            kw.pop("dtype", None)
            return to_sarr(a).sum(axis=axis, **kw)
        return rnp.sum(a, axis=axis, **kw)

    def prod(self, a, axis=None, **kw):
        if _is_larr(a):
            return getattr(a, "prod")(axis=axis)
        if isinstance(a, (list, tuple)) and _has_sym(a) or isinstance(a, SArr):
            kw.pop("dtype", None)
            return to_sarr(a).prod(axis=axis, **kw)
        return rnp.prod(a, axis=axis, **kw)

    def max(self, a, axis=None, **kw):
        if _is_larr(a):
            return getattr(a, "max")(axis=axis)
        if _has_sym(a):
            return to_sarr(a).max(axis=axis, **kw)
        return rnp.max(a, axis=axis, **kw)

    def min(self, a, axis=None, **kw):
        if _is_larr(a):
            return getattr(a, "min")(axis=axis)
        if _has_sym(a):
            return to_sarr(a).min(axis=axis, **kw)
        return rnp.min(a, axis=axis, **kw)

    amax = max
    amin = min

    def arange(self, *args, **kw):
        if len(args) == 1 and isinstance(args[0], SNum) and not z3.is_int_value(z3.simplify(args[0].t)):
            # arange(N) with a symbolic length: element i is i
            from . import larr

            N = z3.simplify(args[0].t)
            i = larr.index_for(N)
            return larr.LArr(N, i, SNum(i), 0, rnp.int64)
        args = [int(a) if isinstance(a, SNum) and a.is_int else a for a in args]
        r = rnp.arange(*args, **kw)
        return from_real(r) if core.active() else r

    def tile(self, a, reps):
        if _is_larr(a) and isinstance(reps, tuple) and len(reps) == 2 and reps[1] == 1 and a.ndim == 1 and isinstance(reps[0], (int, rnp.integer)):
            # (N,) -> (k, N): k copies of the row along a new leading axis
            from . import larr

            e = _plain(a.row)[()]
            out = rnp.empty((int(reps[0]),), dtype=object)
            for k in range(int(reps[0])):
                out[k] = e
            return larr.LArr(a.N, a.idx, wrap(out, a.ldt), 1, a.ldt)
        if isinstance(reps, tuple) and len(reps) == 2 and isinstance(reps[0], SNum) and reps[1] == 1:
            from . import larr

            N = reps[0].t
            return larr.LArr(N, larr.index_for(N), to_sarr(a).reshape(-1), 0)
        if _has_sym(a):
            return wrap(rnp.tile(_plain(to_sarr(a)), reps), getattr(a, "ldt", None))
        r = rnp.tile(a, reps)
        return from_real(r) if core.active() else r

    def shape(self, a):
        if is_sym(a):
            return ()
        return rnp.shape(a)

    def ndim(self, a):
        if is_sym(a):
            return 0
        return rnp.ndim(a)


def _holds_symbols(x):
    if isinstance(x, (SNum, SBool, SBV)) or _is_larr(x):
        return True
    if isinstance(x, SArr):
        return any(is_sym(e) or isinstance(e, SVoid) for e in x.view(_ND).flat)
    if isinstance(x, (list, tuple)):
        return any(_holds_symbols(e) for e in x)
    if isinstance(x, dict):
        return any(_holds_symbols(e) for e in x.values())
    return False


def to_real(x):
    """SArr without symbolic content -> the typed numpy array it stands for"""
    if isinstance(x, SArr):
        dt = x.ldt if x.ldt is not None and x.ldt.kind != "O" else None
        p = x.view(_ND)
        try:
            return rnp.array(p.tolist(), dtype=dt).reshape(p.shape)
        except (ValueError, TypeError, OverflowError):
            return rnp.array(p.tolist()).reshape(p.shape)
    if isinstance(x, list):
        return [to_real(e) for e in x]
    if isinstance(x, tuple):
        return tuple(to_real(e) for e in x)
    return x


def from_real(r):
    """result of a real numpy call -> uniform SArr representation (inside a symbolic run)"""
    if isinstance(r, SArr):
        return r
    if isinstance(r, _ND):
        if r.dtype.kind in "biuf":
            return to_sarr(r)
        if r.dtype == object:
            return wrap(r)
        return r
    if isinstance(r, tuple):
        return tuple(from_real(e) for e in r)
    if isinstance(r, list):
        return [from_real(e) for e in r]
    return r


class _GenericWrapper:
    """a numpy function without a symbolic override: inside a symbolic run every array is an
    SArr; when no argument holds a symbol the real function runs on the typed arrays and
    the result is brought back; otherwise numpy's own object-dtype implementation is used
    (element operations go through the symbolic scalars; any bool() of a symbol forks)"""

    def __init__(self, real):
        self.real = real
        self.__name__ = getattr(real, "__name__", "f")
        self.__doc__ = getattr(real, "__doc__", None)

    def __call__(self, *args, **kw):
        if not core.active() and not any(_has_sym(a) for a in args):
            return self.real(*args, **kw)
        if any(_is_larr(a) for a in args) or (args and isinstance(args[0], (list, tuple)) and any(_is_larr(x) for x in args[0])):
            return self.real(*args, **kw)
        if not any(_holds_symbols(a) for a in args) and not any(_holds_symbols(v) for v in kw.values()):
            r = self.real(*[to_real(a) for a in args], **{k: to_real(v) for k, v in kw.items()})
            return from_real(r) if core.active() else r
        return _rewrap(self.real(*args, **kw))

    def __getattr__(self, name):
        return getattr(self.real, name)


class _UfuncWrapper:
    """numpy ufunc that also accepts bare symbolic scalars and lists holding symbols"""

    def __init__(self, real):
        self.real = real
        self.__name__ = real.__name__
        self.nin = real.nin

    def __call__(self, *args, **kw):
        ins = args[: self.real.nin]
        if any(_is_larr(x) for x in ins):
            return self.real(*args, **kw)
        if any(isinstance(x, (SNum, SBool, SBV)) for x in ins) and not any(isinstance(x, _ND) for x in ins) and not any(isinstance(x, (list, tuple)) for x in ins):
            return UF[self.real.__name__](*[x.item() if isinstance(x, rnp.generic) else x for x in ins])
        if any(_has_sym(x) for x in ins):
            conv = [x if isinstance(x, SArr) else (to_sarr(x) if isinstance(x, (list, tuple, SNum, SBool)) else x) for x in ins]
            if not any(isinstance(x, SArr) for x in conv):
                conv[0] = to_sarr(conv[0])
            return self.real(*conv, *args[self.real.nin :], **kw)
        out = kw.get("out")
        if out is not None and isinstance(out if not isinstance(out, tuple) else out[0], SArr):
            conv = [to_sarr(ins[0])] + list(ins[1:])
            return self.real(*conv, *args[self.real.nin :], **kw)
        return self.real(*args, **kw)

    def __getattr__(self, name):
        return getattr(self.real, name)

    def reduce(self, a, *args, **kw):
        if _has_sym(a) and not isinstance(a, SArr):
            a = to_sarr(a)
        return self.real.reduce(a, *args, **kw)

    def outer(self, a, b, **kw):
        if _has_sym(a) or _has_sym(b):
            a = to_sarr(a)
        return self.real.outer(a, b, **kw)

    def at(self, a, idx, *b):
        return self.real.at(a, idx, *b)


class _FuncWrapper:
    """numpy function with an override used when any argument holds symbols"""

    def __init__(self, real, handler):
        self.real = real
        self.handler = handler
        self.__name__ = getattr(real, "__name__", "f")

    def __call__(self, *args, **kw):
        if any(_is_larr(x) for x in args) or (args and isinstance(args[0], (list, tuple)) and any(_is_larr(x) for x in args[0])):
            return self.real(*args, **kw)
        if any(_holds_symbols(x) for x in args) or any(_holds_symbols(v) for v in kw.values()):
            return self.handler(*args, **kw)
        if any(_has_sym(x) for x in args) or any(_has_sym(v) for v in kw.values()) or core.active():
            r = self.real(*[to_real(a) for a in args], **{k: to_real(v) for k, v in kw.items()})
            return from_real(r) if core.active() else r
        return self.real(*args, **kw)

    def __getattr__(self, name):
        return getattr(self.real, name)


shim = Shim()


def _dummy_sbv(x):
    return rnp.ones((), dtype=rnp.int64 if x.signed else rnp.uint64)


def _scalar_array_ufunc(self, ufunc, method, *inputs, **kwargs):
    """a bare symbolic scalar met a numpy ufunc (np.float64 * sym, arr /= sym ...)"""
    if method == "__call__" and not any(isinstance(x, _ND) for x in inputs) and not kwargs.get("out"):
        if ufunc.__name__ not in UF:
            raise Unsupported("ufunc %s" % ufunc.__name__)
        return UF[ufunc.__name__](*[x.item() if isinstance(x, rnp.generic) else x for x in inputs])
    conv = [to_sarr(x) if (isinstance(x, _ND) and not isinstance(x, SArr)) else x for x in inputs]
    if not any(isinstance(x, SArr) for x in conv):
        conv = [to_sarr(x) if isinstance(x, (SNum, SBool, SBV)) else x for x in conv]
    first = next(x for x in conv if isinstance(x, SArr))
    return SArr.__array_ufunc__(first, ufunc, method, *conv, **kwargs)


def _array_fallback(seq, fn):
    a = _plain(to_sarr(seq))
    r = rnp.frompyfunc(fn, 1, 1)(a)
    return wrap(r) if isinstance(r, _ND) else r


core.ARRAY_FALLBACK = _array_fallback
SNum.__array_ufunc__ = _scalar_array_ufunc
SBV.__array_ufunc__ = _scalar_array_ufunc
SBool.__array_ufunc__ = _scalar_array_ufunc
