"""./check <Cxx> [--tier quick|thorough] [--replay file] [--only substr] [--jobs N]"""
from __future__ import annotations

import argparse
import hashlib
import importlib
import json
import multiprocessing as mp
import os
import subprocess
import sys
import time
import traceback

VERIF = os.path.dirname(os.path.dirname(os.path.abspath(__file__)))


def _load_findings(prop):
    p = os.path.join(VERIF, "known_findings.json")
    if not os.path.exists(p):
        return []
    data = json.load(open(p))
    return [f for f in data.get("findings", []) if f.get("property") == prop]


def _worker(args):
    kind, idx, tier, open_ids, want_sample = args
    from pyvc import engine

    try:
        if kind == "contract":
            c = engine.CONTRACTS[idx]
            return ("contract", idx, engine.run_contract(c, tier=tier, findings=set(open_ids), want_sample=want_sample))
        if kind == "protocol":
            pr = engine.PROTOCOLS[idx]
            t0 = time.time()
            seed = int(os.environ.get("VERIF_SEED", "0") or 0)
            r = pr.fn(tier, seed, set(open_ids))
            r["id"] = pr.id
            r["wall_s"] = time.time() - t0
            return ("protocol", idx, r)
        b = engine.BOUNDED[idx]
        t0 = time.time()
        seed = int(os.environ.get("VERIF_SEED", "0") or 0)
        r = b.fn(tier, seed)
        r.setdefault("failures", [])
        r["id"] = b.id
        r["name"] = b.name
        r["note"] = b.note
        r["wall_s"] = time.time() - t0
        return ("bounded", idx, r)
    except Exception as e:
        return (kind + "-crash", idx, {"error": "%s: %s" % (type(e).__name__, e), "trace": traceback.format_exc()[-3000:]})


def _job_id(job):
    from pyvc import engine

    k, i = job[0], job[1]
    return engine.CONTRACTS[i].id if k == "contract" else (engine.BOUNDED[i].id if k == "bounded" else engine.PROTOCOLS[i].id)


def _child(conn, job):
    try:
        import resource

        lim = int(float(os.environ.get("VERIF_MEM_GB", "10")) * 2**30)
        soft, hard = resource.getrlimit(resource.RLIMIT_AS)
        resource.setrlimit(resource.RLIMIT_AS, (lim if hard == resource.RLIM_INFINITY else min(lim, hard), hard))
    except Exception:  # noqa: BLE001
        pass
    try:
        r = _worker(job)
    except MemoryError:
        r = (job[0] + "-crash", job[1], {"error": "%s: MemoryError under the %s GiB per-job limit" % (_job_id(job), os.environ.get("VERIF_MEM_GB", "10")), "trace": ""})
    except BaseException as e:  # noqa: BLE001
        r = (job[0] + "-crash", job[1], {"error": "%s: %s: %s" % (_job_id(job), type(e).__name__, e), "trace": traceback.format_exc()[-3000:]})
    try:
        conn.send(r)
    except Exception as e:  # noqa: BLE001
        conn.send((job[0] + "-crash", job[1], {"error": "%s: result could not be sent: %s" % (_job_id(job), e), "trace": ""}))
    finally:
        conn.close()


def _run_jobs(ctx, jobs, nproc, deadline):
    from multiprocessing.connection import wait

    pending = list(jobs)
    running = {}
    results = []
    while pending or running:
        while pending and len(running) < nproc:
            job = pending.pop(0)
            parent, child = ctx.Pipe(duplex=False)
            p = ctx.Process(target=_child, args=(child, job))
            p.start()
            child.close()
            running[parent] = (p, job)
        ready = wait(list(running), timeout=1.0)
        for conn in ready:
            p, job = running.pop(conn)
            try:
                results.append(conn.recv())
            except (EOFError, OSError):
                p.join(5)
                results.append((job[0] + "-crash", job[1], {"error": "%s: worker process died without a result (exit code %s: killed, e.g. out of memory)" % (_job_id(job), p.exitcode), "trace": ""}))
            conn.close()
            p.join(30)
        if time.time() > deadline:
            missing = [_job_id(job) for _p, job in running.values()] + [_job_id(job) for job in pending]
            for p, _job in running.values():
                p.terminate()
            results.append(("deadline-crash", -1, {"error": "jobs did not finish before the deadline: %s" % ", ".join(missing[:8]), "trace": ""}))
            break
    return results


def main(argv=None):
    ap = argparse.ArgumentParser()
    ap.add_argument("prop")
    ap.add_argument("--tier", default=os.environ.get("VERIF_TIER", "quick"))
    ap.add_argument("--replay")
    ap.add_argument("--only")
    ap.add_argument("--jobs", type=int, default=int(os.environ.get("VERIF_JOBS", "16")))
    ap.add_argument("--no-evidence", action="store_true")
    a = ap.parse_args(argv)
    prop = a.prop
    tier = a.tier if a.tier in ("quick", "thorough") else "quick"
    seed = int(os.environ.get("VERIF_SEED", "0") or 0)
    t0 = time.time()
    os.makedirs(os.path.join(VERIF, "scratch"), exist_ok=True)
    os.makedirs(os.path.join(VERIF, "evidence"), exist_ok=True)
    os.makedirs(os.path.join(VERIF, "replay"), exist_ok=True)
    sys.path.insert(0, VERIF)
    if os.environ.get("VERIF_REPO"):
        sys.path.insert(0, os.environ["VERIF_REPO"])  # replay imports the same tree the VCs came from
    import logging

    logging.getLogger("trimesh").setLevel(logging.CRITICAL)  # the library logs tracebacks of handled errors
    from pyvc import engine, mirror

    try:
        importlib.import_module("contracts.%s" % prop)
    except Exception:
        traceback.print_exc()
        print("CHECKER-ERROR property=%s cannot load contracts" % prop)
        return 3

    findings = _load_findings(prop)
    open_ids = [f["id"] for f in findings if f.get("status") == "open"]

    if a.replay:
        return _replay(prop, a.replay, set(open_ids))

    contracts = [(i, c) for i, c in enumerate(engine.CONTRACTS) if c.prop == prop and (tier == "thorough" or c.tier == "quick")]
    bounded = [(i, b) for i, b in enumerate(engine.BOUNDED) if b.prop == prop and (tier == "thorough" or b.tier == "quick")]
    if a.only:
        contracts = [(i, c) for i, c in contracts if a.only in c.id]
        bounded = [(i, b) for i, b in bounded if a.only in b.id]
    protocols = [(i, p) for i, p in enumerate(engine.PROTOCOLS) if p.prop == prop and (tier == "thorough" or p.tier == "quick")]
    if a.only:
        protocols = [(i, p) for i, p in protocols if a.only in p.id]
    jobs = [("contract", i, tier, open_ids, k < 3) for k, (i, c) in enumerate(contracts)] + [("bounded", i, tier, open_ids, False) for i, b in bounded] + [("protocol", i, tier, open_ids, False) for i, p in protocols]
    results = []
    if jobs:
        ctx = mp.get_context("fork")
        # one forked process per job (at most --jobs at a time): a job that dies (out of memory,
        # signal) or does not come back by the deadline is reported as a checker error (exit 3),
        # never as "held", and cannot take the other jobs or the check itself down with it.
        # mirror the package once in the parent: the forked jobs inherit the compiled mirror
        # (copy on write) instead of re-reading and re-compiling the source per job
        if any(k == "contract" for k, *_ in jobs) and not os.environ.get("VERIF_NO_PRELOAD"):
            try:
                mirror.load(mirror.PKG)
            except Exception:  # noqa: BLE001 - a job will report the real error
                pass
        deadline = time.time() + float(os.environ.get("VERIF_DEADLINE_S", "5400" if tier == "quick" else "28800"))
        results = _run_jobs(ctx, jobs, min(a.jobs, len(jobs)), deadline)

    # ------------------------------------------------------------------ aggregate
    exit_code = 0
    lines = []
    n_obl = n_dis = 0
    n_bshape_obl = n_bshape_dis = 0
    functions = {}
    trusted = set()
    samples = []
    undecided = []
    violations = []
    crashes = []
    solver_s = 0.0
    backends = {}
    per_contract = []
    bounded_out = []
    for kind, idx, r in sorted(results, key=lambda t: (t[0], t[1])):
        if kind.endswith("-crash"):
            crashes.append(r)
            continue
        if kind == "contract":
            c = engine.CONTRACTS[idx]
            per_contract.append(
                {
                    "contract": r["id"],
                    "kind": r["kind"],
                    "status": r["status"],
                    "paths": r["paths"],
                    "feasible_paths": r.get("feasible_paths", 0),
                    "pruned": r["pruned"],
                    "functions": r["functions"],
                    "clauses": [{"clause": o["clause"], "paths": o["paths"], "discharged": o["discharged"], "backend": o["backend"], "solver_s": round(o["solver_s"], 3), "status": o["status"]} for o in r["obligations"]],
                    "wall_s": round(r.get("wall_s", 0), 2),
                    "note": r.get("note", ""),
                    "exceptions": r.get("exceptions", [])[:3],
                }
            )
            for o in r["obligations"]:
                solver_s += o["solver_s"]
                for b in o["backend"]:
                    backends[b] = backends.get(b, 0) + 1
                if r["kind"] == "proof":
                    n_obl += 1
                    n_dis += 1 if (o["status"] == "discharged" and o["discharged"] == o["paths"]) else 0
                else:
                    n_bshape_obl += 1
                    n_bshape_dis += 1 if (o["status"] == "discharged" and o["discharged"] == o["paths"]) else 0
            for f in r["functions"]:
                functions.setdefault(f, {"sha256_module": None})
            for m, s in r.get("sha256", {}).items():
                for f in r["functions"]:
                    if f.startswith(m + "."):
                        functions[f]["sha256_module"] = s
            trusted |= set(r["trusted"])
            if r.get("sample") and len(samples) < 2:
                samples.append(r["sample"])
            if r["status"] == "vacuous":
                crashes.append({"error": "vacuous contract (no satisfiable path): %s" % r["id"]})
            undecided += r["undecided"]
            violations += [dict(v, contract=r["id"]) for v in r["violations"]]
        elif kind == "protocol":
            known_obl = set()
            for f in findings:
                if f.get("status") == "open":
                    known_obl |= set(f.get("obligations", []))
            pc = {"contract": r["id"], "kind": "protocol", "status": "ok", "paths": 0, "feasible_paths": 0, "pruned": 0, "functions": r.get("functions", []), "clauses": [], "wall_s": round(r.get("wall_s", 0), 2), "note": engine.PROTOCOLS[idx].note, "exceptions": []}
            for o in r.get("obligations", []):
                if o["id"] in known_obl and o["status"] == "violated":
                    pc["clauses"].append({"clause": o["id"], "status": "known-finding", "backend": [o.get("backend", "")], "paths": 1, "discharged": 0, "solver_s": 0})
                    continue
                n_obl += 1
                pc["clauses"].append({"clause": o["id"], "status": o["status"], "backend": [o.get("backend", "")], "paths": 1, "discharged": 1 if o["status"] == "discharged" else 0, "solver_s": 0})
                backends[o.get("backend", "protocol")] = backends.get(o.get("backend", "protocol"), 0) + 1
                if o["status"] == "discharged":
                    n_dis += 1
                    if len(samples) < 3 and o.get("detail"):
                        samples.append({"obligation": o["id"], "result": "discharged", "backend": o.get("backend"), "detail": str(o.get("detail"))[:1500]})
                elif o["status"] == "violated":
                    pc["status"] = "violated"
                    violations.append({"obligation": o["id"], "replayed": bool(o.get("replayed")), "witness": o.get("witness"), "solver_output": o.get("detail"), "contract": r["id"]})
                else:
                    pc["status"] = "undecided" if pc["status"] == "ok" else pc["status"]
                    undecided.append({"obligation": o["id"], "reason": str(o.get("detail"))[:300]})
            for f in r.get("functions", []):
                functions.setdefault(f, {"sha256_module": None})
            trusted |= set(r.get("trusted", []))
            for e in r.get("errors", []):
                crashes.append({"error": e})
            per_contract.append(pc)
        else:
            bounded_out.append(r)
            known_obl = set()
            for kf in findings:
                if kf.get("status") == "open":
                    known_obl |= set(kf.get("obligations", []))
            known_here = []
            for f in list(r.get("failures", [])):
                oid = r["id"] + (":" + str(f.get("what"))[:160] if isinstance(f, dict) and f.get("what") else "")
                if oid in known_obl:
                    # a recorded finding, identified by its specific cell: not a new violation
                    known_here.append(oid)
                    r["failures"].remove(f)
            r["known_findings_hit"] = known_here
            for f in r.get("failures", [])[:400]:
                violations.append({"obligation": r["id"] + (":" + str(f.get("what"))[:160] if isinstance(f, dict) and f.get("what") else ""), "bounded": True, "replayed": True, "witness": f, "contract": r["id"]})

    # ------------------------------------------------------------------ known findings
    kf_out = []
    for f in findings:
        ent = {"id": f["id"], "status": f.get("status")}
        w = f.get("witness")
        if w:
            wenv = dict(os.environ)
            if os.environ.get("VERIF_REPO"):
                wenv["PYTHONPATH"] = os.environ["VERIF_REPO"] + os.pathsep + wenv.get("PYTHONPATH", "")
            p = subprocess.run([sys.executable, os.path.join(VERIF, w)] + list(f.get("witness_args", [])), capture_output=True, text=True, cwd=VERIF, timeout=600, env=wenv)
            ent["witness_exit"] = p.returncode
            ent["witness_out"] = (p.stdout + p.stderr).strip()[-400:]
            if f.get("status") == "open":
                if p.returncode == 1:
                    lines.append("KNOWN-FINDING: property=%s %s" % (prop, f["what"]))
                    ent["reproduces"] = True
                elif p.returncode == 0:
                    ent["reproduces"] = False
                else:
                    crashes.append({"error": "known-finding witness %s crashed: %s" % (w, ent["witness_out"])})
            elif f.get("status") == "fixed":
                ent["reproduces"] = p.returncode == 1
                if p.returncode == 1:
                    # a fixed entry suppresses nothing: the defect is back
                    violations.append({"obligation": "%s/regression/%s" % (prop, f["id"]), "replayed": True, "witness": {"program": w, "output": ent["witness_out"]}, "contract": f["id"]})
        kf_out.append(ent)

    # ------------------------------------------------------------------ report
    # one report per obligation (the first replayed witness, else the first)
    byob = {}
    for v in violations:
        k = v["obligation"]
        if k not in byob or (v.get("replayed") and not byob[k].get("replayed")):
            v["occurrences"] = byob.get(k, {}).get("occurrences", 0) + 1
            byob[k] = v
        else:
            byob[k]["occurrences"] = byob[k].get("occurrences", 1) + 1
    violations = list(byob.values())
    for v in violations:
        h = hashlib.sha1(json.dumps(v, sort_keys=True, default=str).encode()).hexdigest()[:10]
        path = os.path.join("replay", "%s-%s.json" % (prop, h))
        json.dump({"property": prop, **v}, open(os.path.join(VERIF, path), "w"), indent=1, default=str)
        tail = "" if v.get("replayed") else " no-failing-input-found"
        lines.append("VIOLATION property=%s replay=%s%s" % (prop, os.path.join(VERIF, path), tail))
        lines.append("  obligation=%s" % v["obligation"])
        if v.get("exception"):
            lines.append("  exception=%s" % v["exception"])
        exit_code = 1
    for u in undecided:
        lines.append("UNDECIDED property=%s obligation=%s reason=%s" % (prop, u["obligation"], u["reason"][:300]))
        if u.get("where"):
            lines.append("  at %s" % u["where"][:600])
    if exit_code == 0 and undecided:
        exit_code = 2
    for c in crashes:
        lines.append("CHECKER-ERROR property=%s %s" % (prop, c.get("error")))
        if c.get("trace"):
            lines.append(c["trace"])
        if exit_code == 0 or exit_code == 2:
            exit_code = 3
    if n_obl + n_bshape_obl + len(bounded_out) == 0 and not a.only:
        lines.append("CHECKER-ERROR property=%s zero obligations generated" % prop)
        exit_code = 3

    wall = time.time() - t0
    meta = getattr(sys.modules.get("contracts.%s" % prop), "META", {})
    level = "proof" if (n_obl > 0 and meta.get("level", "proof") == "proof") else "other"
    bounded_evals = sum(int(b.get("cases", 0)) for b in bounded_out)
    cov = {
        "obligations": n_obl,
        "discharged": n_dis,
        "checker_cmd": "./check %s --tier %s" % (prop, tier),
        "trusted_base": sorted(trusted | set(meta.get("trusted_base", []))),
        "obligation_unit": "one (contract, clause) pair; discharged means unsat of the negation on every feasible path",
        "bounded_shape_obligations": {"count": n_bshape_obl, "discharged": n_bshape_dis, "note": "complete over all real/integer values for a fixed small array shape (M3); not counted in obligations/discharged"},
        "functions_under_contract": functions,
        "contracts": per_contract,
        "backends": backends,
        "solver_s": round(solver_s, 2),
        "samples": samples or [{"note": "no proof obligation sample in this run"}],
        "bounded": [
            {"id": b["id"], "cases": b.get("cases", 0), "distinct_nontrivial": b.get("distinct", b.get("cases", 0)), "exhaustive": bool(b.get("exhaustive", False)), "bound": b.get("bound", ""), "failures": len(b.get("failures", [])), "known_findings_hit": b.get("known_findings_hit", []), "wall_s": round(b.get("wall_s", 0), 2), "sample": b.get("sample")}
            for b in bounded_out
        ],
        "known_findings": kf_out,
        "undecided": undecided[:20],
        "explanation": meta.get("explanation", "") or ("this run discharged %d obligations that hold for all sizes / fixed-size objects (counted under obligations), %d bounded-shape obligations (symbolic execution of the real source, complete over ALL real/integer values for a stated small array shape; counted separately, never as proved for all sizes) and ran %d bounded contract evaluations on the really imported classes (%d cases)" % (n_obl, n_bshape_obl, len(bounded_out), bounded_evals)),
        "evaluations": max(1, bounded_evals + sum(c["paths"] for c in per_contract)),
        "distinct_nontrivial": max(2, sum(int(b.get("distinct", b.get("cases", 0))) for b in bounded_out) + sum(c["feasible_paths"] for c in per_contract)),
        "rule": "evaluations = symbolic paths explored + bounded cases run; distinct_nontrivial = satisfiable symbolic paths + distinct bounded cases",
        "rewrites": mirror.rewrites_applied and {k: v for k, v in mirror.rewrites_applied.items()} or {"all modules": ["float(x)/int(x) calls routed through symbol-aware wrappers"]},
    }
    ev = {
        "property_id": prop,
        "tier": tier,
        "seed": seed,
        "level": level,
        "coverage": cov,
        "assumptions": meta.get("assumptions", []),
        "wall_s": round(wall, 2),
        "violations": len(violations),
    }
    if not a.no_evidence and not a.only:
        json.dump(ev, open(os.path.join(VERIF, "evidence", "%s.json" % prop), "w"), indent=1, default=str)
    for l in lines:
        print(l)
    print("%s tier=%s obligations=%d discharged=%d bounded-shape=%d/%d bounded-runs=%d undecided=%d violations=%d wall=%.1fs exit=%d" % (prop, tier, n_obl, n_dis, n_bshape_dis, n_bshape_obl, len(bounded_out), len(undecided), len(violations), wall, exit_code))
    return exit_code


def _replay(prop, path, open_ids):
    from pyvc import engine

    data = json.load(open(path))
    cid = data.get("contract")
    w = data.get("witness") or {}
    if w.get("program"):
        p = subprocess.run([sys.executable, os.path.join(VERIF, w["program"])], cwd=VERIF)
        print("replay of finding witness: exit", p.returncode)
        return 1 if p.returncode == 1 else 0
    for c in engine.CONTRACTS:
        if c.id == cid:
            rr = engine.replay_concrete(c, w.get("inputs", {}), open_ids)
            print(json.dumps(rr, indent=1, default=str))
            if rr["status"] in ("fail", "exception"):
                print("VIOLATION property=%s replay=%s" % (prop, path))
                return 1
            return 0
    for b in engine.BOUNDED:
        if b.id == cid:
            print("bounded failure recorded:", json.dumps(w, default=str)[:2000])
            return 1
    print("no such contract", cid)
    return 3


if __name__ == "__main__":
    sys.exit(main())
