"""
pyvc.engine — contracts (sidecar), obligation generation and discharge, replay on the real
code, bounded stand-ins, evidence.

A contract is a Python function `def _(h)` registered with @contract(property, target).
It declares symbolic inputs (h.real/h.reals/...), states `requires` (h.assume), calls the
*mirrored real function(s)* (h.fn(qualname)) and states named `ensures` clauses (h.check).
The same text is run twice:
  * symbolically — every feasible path, every clause becomes an obligation
        requires ∧ path-condition ∧ axioms ⇒ clause          (checked as unsat of the negation)
  * concretely — inputs taken from a solver model, h.fn returns the function of the really
    imported `trimesh`, clauses are evaluated in floating point: counterexample replay.
"""
from __future__ import annotations

import hashlib
import json
import math
import os
import subprocess
import sys
import tempfile
import time
import traceback
from fractions import Fraction

import numpy as rnp
import z3

from . import core, mirror, symnp
from .core import SBool, SNum, is_sym

VERIF = os.path.dirname(os.path.dirname(os.path.abspath(__file__)))

CONTRACTS = []  # list of Contract
BOUNDED = []  # list of Bounded
PROTOCOLS = []  # list of Protocol (representation-invariant / effect checks)


class Protocol:
    """a check that generates its own named obligations (invariant preservation per
    operation, effect inclusion per function, route tables ...).  fn(tier, seed, open_ids)
    returns {"obligations": [{"id", "status": discharged|violated|undecided, "backend",
    "detail", "witness", "replayed"}], "trusted": [...], "functions": [...]}"""

    def __init__(self, prop, name, fn, tier="quick", note=""):
        self.prop, self.name, self.fn, self.tier, self.note = prop, name, fn, tier, note

    @property
    def id(self):
        return "%s/protocol/%s" % (self.prop, self.name)


def protocol(prop, name=None, **kw):
    def deco(fn):
        PROTOCOLS.append(Protocol(prop, name or fn.__name__, fn, **kw))
        return fn

    return deco


class ReplayInvalid(Exception):
    pass


class ContractError(Exception):
    pass


class Ghost:
    """a stand-in `self`: only the attributes the method under contract may read; anything
    else raises AttributeError (=> the obligation fails loudly, a frame violation)"""

    def __init__(self, **kw):
        self.__dict__.update(kw)

    def __repr__(self):
        return "Ghost(%s)" % ", ".join(sorted(self.__dict__))


class Contract:
    def __init__(self, prop, target, fn, name=None, tier="quick", raises=(), timeout=None, max_paths=4096, kind="proof", note="", budget=None):
        self.budget = budget
        self.prop = prop
        self.target = target  # qualified name of the function primarily under contract
        self.fn = fn
        self.name = name or fn.__name__
        self.tier = tier
        self.raises = tuple(raises)
        self.timeout = timeout
        self.max_paths = max_paths
        self.kind = kind  # "proof" (all sizes / fixed-size objects) or "bounded-shape" (M3)
        self.note = note

    @property
    def id(self):
        return "%s/%s/%s" % (self.prop, self.target, self.name)


def contract(prop, target, **kw):
    def deco(fn):
        CONTRACTS.append(Contract(prop, target, fn, **kw))
        return fn

    return deco


class Bounded:
    def __init__(self, prop, name, fn, tier="quick", note=""):
        self.prop, self.name, self.fn, self.tier, self.note = prop, name, fn, tier, note

    @property
    def id(self):
        return "%s/bounded/%s" % (self.prop, self.name)


def bounded(prop, name=None, **kw):
    def deco(fn):
        BOUNDED.append(Bounded(prop, name or fn.__name__, fn, **kw))
        return fn

    return deco


# ----------------------------------------------------------------------------- harness handle


def _tol_close(a, b, rtol, atol):
    a = float(a)
    b = float(b)
    if math.isnan(a) or math.isnan(b):
        return False
    return abs(a - b) <= atol + rtol * max(abs(a), abs(b))


class H:
    """harness handle; mode 'sym' or 'concrete'"""

    def __init__(self, contract, mode, model=None, findings=None):
        self.contract = contract
        self.mode = mode
        self.model = model or {}
        self.results = []  # concrete mode: (name, bool)
        self.functions = set()
        self.findings_open = findings or set()
        self.rtol = 1e-7
        self.atol = 1e-9
        self.used_inputs = {}
        self._undo = []

    # ---- inputs
    def _input(self, name, sort):
        if self.mode == "sym":
            c = core.ctx()
            v = z3.Const(name, sort)
            c.inputs[name] = v
            return v
        if name not in self.model:
            raise ReplayInvalid("model has no value for %s" % name)
        return self.model[name]

    def real(self, name):
        v = self._input(name, z3.RealSort())
        return SNum(v) if self.mode == "sym" else float(v)

    def int(self, name):
        v = self._input(name, z3.IntSort())
        return SNum(v) if self.mode == "sym" else int(v)

    def bool(self, name):
        v = self._input(name, z3.BoolSort())
        return SBool(v) if self.mode == "sym" else bool(v)

    def _arr(self, name, shape, scalar, dtype):
        if isinstance(shape, int):
            shape = (shape,)
        out = rnp.empty(shape, dtype=object)
        for idx in rnp.ndindex(*shape):
            out[idx] = scalar("%s_%s" % (name, "_".join(map(str, idx))))
        if self.mode == "sym":
            return symnp.wrap(out, dtype)
        return rnp.array(out.tolist(), dtype=dtype).reshape(shape)

    def bv64(self, name):
        """an int64 with machine (wrap-around) semantics"""
        v = self._input(name, z3.BitVecSort(64))
        return core.SBV(v, True) if self.mode == "sym" else int(v)

    def bv64s(self, name, shape):
        return self._arr(name, shape, self.bv64, rnp.int64)

    def stub(self, qualname, fn):
        """modular call substitution: inside this (symbolic) run the mirrored function
        `qualname` is replaced by `fn` (its contract); the body is verified separately.
        No effect on concrete replay, which always runs the real code."""
        if self.mode != "sym":
            return
        modname, _, attr = qualname.rpartition(".")
        mod = mirror.load(modname)
        c = core.ctx()
        c.trusted.add("modular: %s replaced by its contract" % qualname)
        undo = c.memo.setdefault("stub_undo", [])
        undo.append((mod, attr, getattr(mod, attr)))
        setattr(mod, attr, fn)

    def reals(self, name, shape):
        return self._arr(name, shape, self.real, rnp.float64)

    def ints(self, name, shape):
        return self._arr(name, shape, self.int, rnp.int64)

    def bools(self, name, shape):
        return self._arr(name, shape, self.bool, rnp.bool_)

    # ---- symbolic-length inputs (unbounded mode)
    def length(self, name):
        """a symbolic array length (>= 0); concrete on replay"""
        if self.mode == "sym":
            from . import larr

            return SNum(larr.sym_length(name))
        return int(self.model[name])

    def _larr(self, name, N, rest, kind, dtype):
        if isinstance(rest, int):
            rest = (rest,)
        if self.mode == "sym":
            from . import larr

            return larr.make_input(name, N.t, tuple(rest), kind)
        vals = self.model.get(name)
        if vals is None:
            raise ReplayInvalid("model has no array %s" % name)
        return rnp.array(vals, dtype=dtype).reshape((int(N),) + tuple(rest))

    def lreals(self, name, N, rest=()):
        return self._larr(name, N, rest, "real", rnp.float64)

    def lints(self, name, N, rest=()):
        return self._larr(name, N, rest, "int", rnp.int64)

    def lbools(self, name, N, rest=()):
        return self._larr(name, N, rest, "bool", rnp.bool_)

    def forall(self, N, fn):
        """fn(i) for every row index i < N: the generic (skolem) row symbolically, every
        row on replay"""
        if self.mode == "sym":
            from . import larr

            return self.all(fn(SNum(larr.index_for(N.t))))
        return all(bool(self.all(fn(i))) for i in range(int(N)))

    def map_rows(self, A, fn, N, rest):
        """the array whose i-th row is fn(A[i]) (spec-side helper, both modes)"""
        if self.mode == "sym":
            from . import larr

            return larr.LArr(A.N, A.idx, symnp.to_sarr(fn(A.row)), 0, rnp.float64)
        n = int(N)
        return rnp.array([fn(A[i]) for i in range(n)], dtype=float).reshape((n,) + tuple(rest))

    def random_queue(self, arr):
        """values the next numpy.random.random(shape) call inside the function returns: makes
        the internal randomness an (arbitrary) named input of the contract"""
        if self.mode == "sym":
            core.ctx().memo.setdefault("rand_queue", []).append(arr)
        else:
            real = rnp.random.random
            q = [rnp.asarray(arr, dtype=float)]

            def fake(size=None):
                if q and (size is None or tuple(rnp.atleast_1d(size)) == q[0].shape or size == q[0].shape):
                    return q.pop(0).copy()
                return real(size)

            rnp.random.random = fake
            self._undo.append(lambda: setattr(rnp.random, "random", real))

    def const(self, x):
        """a concrete array as the function would receive it"""
        return x

    # ---- requires / ensures
    def assume(self, cond, name=None):
        cond = self.all(cond)
        if self.mode == "sym":
            if cond is True:
                return
            if cond is False:
                raise core.Infeasible()
            core.ctx().assume(core.tobool(cond))
            if name:
                core.ctx().memo.setdefault("named_facts", {})[name] = core.tobool(cond)
        else:
            if not cond:
                raise ReplayInvalid("precondition false on replay")

    def check(self, name, cond, lemma=False, using=None):
        """named ensures clause.  lemma=True: once stated (and separately discharged, like
        every clause) it may be used by the clauses that follow (cut rule).
        using=[names]: try first with ONLY the named earlier facts (lemma clauses and named
        assumptions, which must already be on the path condition) - a subset of the real
        hypotheses, so `unsat` from the subset is sound; the full fact set is the fall-back."""
        cond = self.all(cond)
        if self.mode == "sym":
            c = core.ctx()
            t = core.tobool(cond)
            named = c.memo.setdefault("named_facts", {})
            focus = None
            if using is not None:
                focus = []
                have = {f.get_id() for f in c.pc}
                for u in using:
                    if u not in named or named[u].get_id() not in have:
                        raise ContractError("check %r: `using` names %r which is not a fact on this path" % (name, u))
                    focus.append(named[u])
            c.obligations.append((name, t, len(c.pc), focus))
            if lemma:
                c.pc.append(t)
                named[name] = t
        else:
            self.results.append((name, bool(cond)))

    def finding(self, fid):
        """True when known_findings.json lists `fid` as open: the contract then restricts
        itself to the complement of the finding's region"""
        return fid in self.findings_open

    # ---- functions
    def fn(self, qualname):
        self.functions.add(qualname)
        if self.mode == "sym":
            return mirror.get(qualname)
        return mirror.get_real(qualname)

    def method(self, qualname):
        """the plain function behind a method / property / cached property of a repository
        class (mirrored or real), to be called on a ghost `self`: modular verification of
        the method body against the contracts of what it reads from self"""
        obj = self.fn(qualname)
        if isinstance(obj, property):
            obj = obj.fget
        seen = 0
        while hasattr(obj, "__wrapped__") and seen < 5:
            obj = obj.__wrapped__
            seen += 1
        return obj

    def module(self, modname):
        if self.mode == "sym":
            return mirror.load(modname)
        import importlib

        return importlib.import_module(modname)

    @property
    def np(self):
        return symnp.shim if self.mode == "sym" else rnp

    # ---- dual-use predicates
    def all(self, x):
        if isinstance(x, (list, tuple)):
            xs = [self.all(e) for e in x]
            if self.mode == "sym":
                return core.sand(*xs) if xs else True
            return all(xs)
        if isinstance(x, rnp.ndarray):
            if self.mode == "sym":
                return symnp._all(x)
            return bool(rnp.all(x))
        return x

    def any(self, x):
        if isinstance(x, (list, tuple)):
            xs = [self.all(e) for e in x]
            if self.mode == "sym":
                return core.sor(*xs) if xs else False
            return any(xs)
        if isinstance(x, rnp.ndarray):
            if self.mode == "sym":
                return symnp._any(x)
            return bool(rnp.any(x))
        return x

    def not_(self, x):
        x = self.all(x)
        return core.snot(x) if self.mode == "sym" else (not x)

    def implies(self, a, b):
        a = self.all(a)
        b = self.all(b)
        if self.mode == "sym":
            return core.simplies(a, b)
        return (not a) or b

    def ite(self, c, a, b):
        if self.mode == "sym":
            return core.ite(c, a, b)
        return a if c else b

    def eq(self, a, b, rtol=None, atol=None):
        """real-number equality: exact symbolically, tolerant on float replay"""
        if self.mode == "sym":
            if isinstance(a, (rnp.ndarray, list, tuple)) or isinstance(b, (rnp.ndarray, list, tuple)):
                A = symnp.to_sarr(a)
                B = symnp.to_sarr(b)
                if A.shape != B.shape:
                    try:
                        rnp.broadcast_shapes(A.shape, B.shape)
                    except ValueError:
                        return False
                return symnp._all(symnp.shim.equal(A, B))
            r = a == b
            return r
        rtol = self.rtol if rtol is None else rtol
        atol = self.atol if atol is None else atol
        A = rnp.asarray(a, dtype=float)
        B = rnp.asarray(b, dtype=float)
        try:
            A, B = rnp.broadcast_arrays(A, B)
        except ValueError:
            return False
        return all(_tol_close(x, y, rtol, atol) for x, y in zip(A.flat, B.flat))

    def exact(self, a, b):
        """equality of integers / indices / booleans: exact in both modes"""
        if self.mode == "sym":
            return self.eq(a, b)
        return bool(rnp.array_equal(rnp.asarray(a), rnp.asarray(b)))

    def le(self, a, b, slack=None):
        if self.mode == "sym":
            if isinstance(a, rnp.ndarray) or isinstance(b, rnp.ndarray):
                return symnp._all(symnp.shim.less_equal(symnp.to_sarr(a), symnp.to_sarr(b)))
            return SNum.lift(a) <= b if (is_sym(a) or is_sym(b)) else a <= b
        s = (self.atol + self.rtol * float(rnp.max(rnp.abs(b))) if slack is None else slack) if rnp.size(b) else 0
        return bool(rnp.all(rnp.asarray(a, dtype=float) <= rnp.asarray(b, dtype=float) + s))

    def lt(self, a, b):
        if self.mode == "sym":
            if isinstance(a, rnp.ndarray) or isinstance(b, rnp.ndarray):
                return symnp._all(symnp.shim.less(symnp.to_sarr(a), symnp.to_sarr(b)))
            return SNum.lift(a) < b if (is_sym(a) or is_sym(b)) else a < b
        return bool(rnp.all(rnp.asarray(a, dtype=float) < rnp.asarray(b, dtype=float)))

    def sqrt(self, x):
        return core.sym_sqrt(x) if self.mode == "sym" else math.sqrt(x)

    def abs(self, x):
        return abs(x)

    def opaque_inverse(self):
        """numpy.linalg.inv as a bare uninterpreted function of its argument (no A.X=I
        axioms): enough when code and spec invert the same matrices; keeps queries linear"""
        if self.mode == "sym":
            core.ctx().memo["opaque_inverse"] = True

    def trust(self, text):
        if self.mode == "sym":
            core.ctx().trusted.add(text)

    def fresh_real(self, hint="g"):
        """ghost / witness variable (existential on the assumption side)"""
        if self.mode == "sym":
            return SNum(core.ctx().fresh(z3.RealSort(), hint))
        raise ReplayInvalid("ghost variable has no concrete value")


# ----------------------------------------------------------------------------- discharge


def _conjuncts(g):
    if z3.is_and(g):
        out = []
        for a in g.children():
            out += _conjuncts(a)
        return out
    return [g]


def _solve_z3_one(facts, goal, timeout_ms):
    s = z3.Solver()
    s.add(*facts)
    s.add(z3.Not(goal))
    t0 = time.time()
    r = core.guarded_check(s, timeout_ms)
    dt = time.time() - t0
    return s, str(r), dt


def _linear_abstraction(terms, som=True, rich=True):
    """replace every product of two non-numeral factors by a fresh real (the same product
    term always by the same variable).  An over-approximation: if the abstracted query is
    unsat so is the original one.  Returns (new terms, number of products replaced)."""
    cache = {}
    fresh = {}

    def is_num(t):
        return z3.is_rational_value(t) or z3.is_int_value(t) or z3.is_algebraic_value(t)

    def walk(t):
        k = t.get_id()
        if k in cache:
            return cache[k]
        if z3.is_quantifier(t) or z3.is_var(t):
            cache[k] = t
            return t
        ch = [walk(c) for c in t.children()]
        r = t
        if ch:
            if z3.is_app_of(t, z3.Z3_OP_MUL):
                nums = [c for c in ch if is_num(c)]
                rest = [c for c in ch if not is_num(c)]
                if len(rest) >= 2:
                    rest = sorted(rest, key=lambda e: e.get_id())
                    key = tuple(e.get_id() for e in rest)
                    if key not in fresh:
                        srt = z3.RealSort() if any(e.sort() == z3.RealSort() for e in rest) else rest[0].sort()
                        fresh[key] = (z3.Const("mono!%d" % len(fresh), srt), rest)
                    r = fresh[key][0]
                    for n in nums:
                        r = n * r
                else:
                    r = t.decl()(*ch)
            elif z3.is_app_of(t, z3.Z3_OP_DIV) and not is_num(ch[1]):
                key = ("div", ch[0].get_id(), ch[1].get_id())
                if key not in fresh:
                    fresh[key] = (z3.Const("quot!%d" % len(fresh), t.sort()), ch)
                r = fresh[key][0]
            else:
                try:
                    r = t.decl()(*ch)
                except z3.Z3Exception:
                    r = t
        cache[k] = r
        return r

    # sums of monomials first, so that (a - b) * c and a * c - b * c share their monomials
    pre = []
    for t in terms:
        try:
            pre.append(z3.simplify(t, som=True, mul_to_power=False, hoist_mul=False) if som else t)
        except z3.Z3Exception:
            pre.append(t)
    out = [walk(t) for t in pre]
    # valid facts about real products keep the abstraction useful: sign rules (binary)
    extra = []

    def sign_rules(a, b, v):
        extra.append(z3.Implies(z3.Or(a == 0, b == 0), v == 0))
        extra.append(z3.Implies(z3.Or(z3.And(a > 0, b > 0), z3.And(a < 0, b < 0)), v > 0))
        extra.append(z3.Implies(z3.Or(z3.And(a > 0, b < 0), z3.And(a < 0, b > 0)), v < 0))

    aux = [0]
    for key, (v, rest) in list(fresh.items()):
        if key and key[0] == "div":
            # q = a / b with b != 0: q * b = a (the product q*b is one more monomial)
            a, b = rest
            if rich and all(e.sort() == z3.RealSort() for e in (a, b, v)):
                m = z3.Const("quotmono!%d" % aux[0], z3.RealSort())
                aux[0] += 1
                extra.append(z3.Implies(b != 0, m == a))
                sign_rules(v, b, m)
            continue
        if not all(e.sort() in (z3.RealSort(), z3.IntSort()) for e in rest):
            continue
        if len(rest) == 2:
            sign_rules(rest[0], rest[1], v)
        elif rich and 3 <= len(rest) <= 5:
            # n-ary monomial: prefix products f1*f2, (f1*f2)*f3, ... each with the binary sign
            # rules; the real prefix products satisfy them, so the abstraction stays sound
            prev = rest[0]
            for k in range(1, len(rest)):
                if k == len(rest) - 1:
                    cur = v
                else:
                    pk = tuple(e.get_id() for e in rest[: k + 1])
                    cur = fresh[pk][0] if pk in fresh else z3.Const("prefix!%d" % aux[0], z3.RealSort())
                    aux[0] += 1
                sign_rules(prev, rest[k], cur)
                prev = cur
    return out[:-1] + extra + out[-1:], len(fresh)


# ----------------------------------------------------------------------------- algebraic back end (sympy)


class _NoAlg(Exception):
    pass


def _z3_to_sympy(t, syms):
    import sympy as sp

    if z3.is_rational_value(t):
        f = t.as_fraction()
        return sp.Rational(f.numerator, f.denominator)
    if z3.is_int_value(t):
        return sp.Integer(t.as_long())
    if z3.is_algebraic_value(t):
        raise _NoAlg("algebraic numeral")
    if z3.is_const(t) or (z3.is_app(t) and t.decl().kind() == z3.Z3_OP_UNINTERPRETED):
        if t.sort() not in (z3.RealSort(), z3.IntSort()):
            raise _NoAlg("non-arithmetic atom")
        k = t.sexpr()
        if k not in syms:
            syms[k] = (sp.Symbol("x%d" % len(syms), real=True), t)
        return syms[k][0]
    if not z3.is_app(t):
        raise _NoAlg("not an application")
    k = t.decl().kind()
    ch = t.children()
    if k == z3.Z3_OP_ADD:
        return sp.Add(*[_z3_to_sympy(c, syms) for c in ch])
    if k == z3.Z3_OP_MUL:
        return sp.Mul(*[_z3_to_sympy(c, syms) for c in ch])
    if k == z3.Z3_OP_SUB:
        r = _z3_to_sympy(ch[0], syms)
        for c in ch[1:]:
            r = r - _z3_to_sympy(c, syms)
        return r
    if k == z3.Z3_OP_UMINUS:
        return -_z3_to_sympy(ch[0], syms)
    if k == z3.Z3_OP_DIV:
        return _z3_to_sympy(ch[0], syms) / _z3_to_sympy(ch[1], syms)
    if k == z3.Z3_OP_TO_REAL:
        return _z3_to_sympy(ch[0], syms)
    if k == z3.Z3_OP_POWER and z3.is_int_value(z3.simplify(ch[1])):
        return _z3_to_sympy(ch[0], syms) ** z3.simplify(ch[1]).as_long()
    raise _NoAlg("operator %s" % t.decl().name())


def _collect_equalities(facts, timeout_ms=1500):
    """polynomial equalities that hold under the facts: top-level conjuncts and consequents
    of implications whose antecedent the facts imply (sqrt / reciprocal definitions)"""
    eqs = []
    pending = []

    def visit(f, depth=0):
        if z3.is_and(f):
            for c in f.children():
                visit(c, depth)
        elif z3.is_eq(f) and f.arg(0).sort() in (z3.RealSort(), z3.IntSort()):
            eqs.append(f)
        elif z3.is_implies(f) and depth < 2:
            pending.append((f.arg(0), f.arg(1)))

    for f in facts:
        visit(f)
    for ante, cons in pending:
        s = z3.Solver()
        s.add(*facts)
        s.add(z3.Not(ante))
        if core.guarded_check(s, timeout_ms) == z3.unsat:
            visit(cons, 2)
    return eqs


def _denominators(t, acc):
    if z3.is_app(t):
        if t.decl().kind() == z3.Z3_OP_DIV:
            acc.append(t.arg(1))
        for c in t.children():
            _denominators(c, acc)


def _solve_algebraic(facts, goal, timeout_s=40):
    """decide an equality between rational expressions by reduction modulo the polynomial
    equalities among the facts (sqrt definitions ...): sound when every denominator is
    non-zero under the facts, which is checked with z3.  Returns True (proved) or None."""
    if not (z3.is_eq(goal) and goal.arg(0).sort() in (z3.RealSort(), z3.IntSort())):
        return None
    import signal

    import sympy as sp

    def _alarm(*a):
        raise _NoAlg("timeout")

    old = signal.signal(signal.SIGALRM, _alarm)
    signal.alarm(int(timeout_s))
    try:
        syms = {}
        expr = sp.together(_z3_to_sympy(goal.arg(0), syms) - _z3_to_sympy(goal.arg(1), syms))
        num, den = sp.fraction(expr)
        gens = []
        dens = []
        _denominators(goal, dens)
        for e in _collect_equalities(facts):
            try:
                pe = sp.together(_z3_to_sympy(e.arg(0), syms) - _z3_to_sympy(e.arg(1), syms))
            except _NoAlg:
                continue
            pn, pd = sp.fraction(pe)
            if pn != 0:
                gens.append(sp.expand(pn))
                _denominators(e, dens)
        num = sp.expand(num)
        if num == 0:
            ok = True
        elif not gens:
            ok = False
        else:
            variables = sorted({v for g_ in gens + [num] for v in g_.free_symbols}, key=lambda v: v.name, reverse=True)
            try:
                G = sp.groebner(gens, *variables, order="grevlex")
                _, rem = G.reduce(num)
            except Exception:
                _, rem = sp.reduced(num, gens, *variables, order="grevlex")
            ok = sp.expand(rem) == 0
        if not ok:
            return None
        # every denominator must be non-zero under the facts
        for d in dens:
            s = z3.Solver()
            s.add(*facts)
            s.add(d == 0)
            if core.guarded_check(s, 3000) != z3.unsat:
                return None
        return True
    except (_NoAlg, RecursionError, MemoryError):
        return None
    except Exception:
        return None
    finally:
        signal.alarm(0)
        signal.signal(signal.SIGALRM, old)


def _abstraction_for_feasibility(terms, som=False):
    out, n = _linear_abstraction(list(terms) + [z3.BoolVal(True)], som=som)
    return out[:-1], n


core.LINEAR_ABSTRACTION = _abstraction_for_feasibility


def _deep_feasibility(terms, timeout_ms):
    """second opinion for branch feasibility: cvc5 on the dumped query, then z3's nlsat"""
    s = z3.Solver()
    s.add(*terms)
    smt = s.to_smt2()
    r, _dt = _solve_cvc5(smt, timeout_ms)
    if r in ("sat", "unsat"):
        return r
    try:
        t = z3.TryFor(z3.Then("simplify", "purify-arith", "propagate-values", "solve-eqs", "qfnra-nlsat"), int(timeout_ms))
        s2 = t.solver()
        s2.add(*terms)
        r2 = str(s2.check())
        return r2 if r2 in ("sat", "unsat") else "unknown"
    except z3.Z3Exception:
        return "unknown"


core.DEEP_CHECK = _deep_feasibility


def _solve_portfolio(facts, g, timeout_ms):
    """one goal: linear abstraction (z3, short) -> z3 (short) -> cvc5 -> z3 (full) -> z3
    nlsat pipeline.  returns (solver_with_query, result, seconds, backend)"""
    tot = 0.0
    try:
        ab, nprod = _linear_abstraction(list(facts) + [g])
    except Exception:
        ab, nprod = None, 0
    if nprod:
        s0, r0, dt0 = _solve_z3_one(ab[:-1], ab[-1], min(5000, timeout_ms))
        tot += dt0
        if r0 == "unsat":
            # report the ORIGINAL query (for samples); the verdict came from its abstraction
            s = z3.Solver()
            s.add(*facts)
            s.add(z3.Not(g))
            return s, "unsat", tot, "z3-linear-abstraction"
    s, r, dt = _solve_z3_one(facts, g, max(1000, min(8000, timeout_ms // 4)))
    tot += dt
    if r in ("sat", "unsat"):
        return s, r, tot, "z3"
    t0 = time.time()
    if _solve_algebraic(facts, g) is True:
        return s, "unsat", tot + time.time() - t0, "sympy-groebner"
    tot += time.time() - t0
    r3, dt3 = _solve_cvc5(s.to_smt2(), timeout_ms)
    tot += dt3
    if r3 == "unsat":
        return s, "unsat", tot, "cvc5"
    s1, r1, dt1 = _solve_z3_one(facts, g, timeout_ms)
    tot += dt1
    if r1 in ("sat", "unsat"):
        return s1, r1, tot, "z3"
    s2, r2, dt2 = _solve_z3_alt(facts, g, timeout_ms)
    tot += dt2
    if r2 in ("sat", "unsat"):
        return s2, r2, tot, "z3-nlsat"
    return s, "unknown", tot, "none"


def _solve_z3(facts, goal, timeout_ms):
    """a conjunction is discharged conjunct by conjunct (each query stays small); the
    first conjunct that is not unsat decides the result"""
    parts = _conjuncts(z3.simplify(goal)) if not z3.is_false(goal) else [goal]
    tot = 0.0
    last = None
    backends = set()
    for g in parts:
        s, r, dt, be = _solve_portfolio(facts, g, timeout_ms)
        tot += dt
        last = s
        backends.add(be)
        if r != "unsat":
            return s, r, tot, backends
    return last, "unsat", tot, backends


def _solve_z3_alt(facts, goal, timeout_ms):
    """second z3 attempt: nlsat tactic pipeline (often decides what the default leaves unknown)"""
    try:
        g = z3.Goal()
        g.add(*facts)
        g.add(z3.Not(goal))
        t = z3.TryFor(z3.Then("simplify", "purify-arith", "propagate-values", "solve-eqs", "qfnra-nlsat"), int(timeout_ms))
        s = t.solver()
        s.add(*facts)
        s.add(z3.Not(goal))
        t0 = time.time()
        r = core.guarded_check(s, timeout_ms)
        return s, str(r), time.time() - t0
    except z3.Z3Exception:
        return None, "unknown", 0.0


def _solve_cvc5(smt2, timeout_ms):
    exe = "/usr/bin/cvc5"
    if not os.path.exists(exe):
        return "unknown", 0.0
    with tempfile.NamedTemporaryFile("w", suffix=".smt2", dir=os.path.join(VERIF, "scratch"), delete=False) as f:
        f.write(smt2)
        path = f.name
    t0 = time.time()
    try:
        out = subprocess.run([exe, "--tlimit=%d" % int(timeout_ms), "--nl-cov", path], capture_output=True, text=True, timeout=timeout_ms / 1000 + 10)
        res = out.stdout.strip().splitlines()[0] if out.stdout.strip() else "unknown"
        if res not in ("sat", "unsat"):
            out = subprocess.run([exe, "--tlimit=%d" % int(timeout_ms), path], capture_output=True, text=True, timeout=timeout_ms / 1000 + 10)
            res = out.stdout.strip().splitlines()[0] if out.stdout.strip() else "unknown"
    except Exception:
        res = "unknown"
    finally:
        try:
            os.unlink(path)
        except OSError:
            pass
    return (res if res in ("sat", "unsat") else "unknown"), time.time() - t0


def _mv_float(model, t):
    mv = model.eval(t, model_completion=True)
    if z3.is_rational_value(mv):
        return float(mv.as_fraction())
    if z3.is_algebraic_value(mv):
        return float(mv.approx(30).as_fraction())
    if z3.is_int_value(mv):
        return float(mv.as_long())
    return None


def _angles_from_trig(model, ctx_, vals):
    """input angles are tied to the model only through their (sin, cos) pair: rebuild the
    angle value with atan2 so that the replay sees the counterexample the solver found"""
    reg = ctx_.memo.get("trig", {})
    for ent in reg.values():
        base = ent["base"]
        if not (z3.is_const(base) and base.decl().name() in vals):
            continue
        pairs = ent["pairs"]
        if not pairs:
            continue
        q = min(pairs)
        sv, cv = _mv_float(model, pairs[q][0]), _mv_float(model, pairs[q][1])
        if sv is None or cv is None:
            continue
        vals[base.decl().name()] = math.atan2(sv, cv) / float(q)
    return vals


def _larr_values(model, ctx_, vals):
    for name, (f, N, rest, kind) in ctx_.memo.get("larr_inputs", {}).items():
        n = model.eval(N, model_completion=True)
        n = n.as_long() if z3.is_int_value(n) else 0
        if n > 64:
            vals[name] = None
            continue
        out = rnp.zeros((n,) + tuple(rest), dtype=object)
        for k in rnp.ndindex(*out.shape):
            mv = model.eval(f(*[z3.IntVal(int(i)) for i in k]), model_completion=True)
            if z3.is_true(mv) or z3.is_false(mv):
                out[k] = z3.is_true(mv)
            elif z3.is_int_value(mv):
                out[k] = mv.as_long()
            else:
                out[k] = _mv_float(model, mv)
        vals[name] = out.tolist()
    return vals


def _model_values(model, inputs):
    vals = {}
    for name, v in inputs.items():
        mv = model.eval(v, model_completion=True)
        if z3.is_int_value(mv):
            vals[name] = mv.as_long()
        elif z3.is_rational_value(mv):
            fr = mv.as_fraction()
            vals[name] = float(fr)
        elif z3.is_algebraic_value(mv):
            vals[name] = float(mv.approx(30).as_fraction())
        elif z3.is_true(mv):
            vals[name] = True
        elif z3.is_false(mv):
            vals[name] = False
        elif z3.is_bv_value(mv):
            vals[name] = mv.as_signed_long()
        else:
            vals[name] = str(mv)
    return vals


def replay_concrete(contract, model_vals, findings=None):
    """run the contract text against the really imported trimesh with concrete inputs.
    returns dict(status=..., failed=[clause names], detail=str)"""
    h = H(contract, "concrete", model=model_vals, findings=findings)
    try:
        with rnp.errstate(all="ignore"):
            contract.fn(h)
    except ReplayInvalid as e:
        return {"status": "invalid", "detail": str(e), "failed": []}
    except contract.raises as e:
        return {"status": "ok-raises", "detail": repr(e), "failed": []}
    except Exception as e:
        return {"status": "exception", "detail": "%s: %s" % (type(e).__name__, e), "failed": ["no-unexpected-exception"], "exc_type": type(e).__name__}
    finally:
        for u in h._undo:
            u()
    failed = [n for n, ok in h.results if not ok]
    return {"status": "fail" if failed else "pass", "failed": failed, "detail": ""}


def _sample_witness(contract, ctx_, clause, findings, tries=40):
    import random

    rnd = random.Random(int(os.environ.get("VERIF_SEED", "0") or 0) + 7)
    larrs = ctx_.memo.get("larr_inputs", {})
    lengths = {str(N) for (_, N, _, _) in larrs.values()}
    for t in range(tries):
        vals = {}
        scale = [1.0, 3.0, 0.25, 10.0][t % 4]
        for name, v in ctx_.inputs.items():
            if name in lengths:
                vals[name] = 1 + (t % 3)
            elif v.sort() == z3.IntSort():
                vals[name] = rnd.randint(-3, 3)
            elif v.sort() == z3.BoolSort():
                vals[name] = rnd.random() < 0.5
            else:
                vals[name] = round(rnd.uniform(-scale, scale), 3)
        for name, (f, N, rest, kind) in larrs.items():
            n = vals.get(str(N), 1)
            shape = (n,) + tuple(rest)
            if kind == "real":
                arr = [round(rnd.uniform(-scale, scale), 3) for _ in range(int(rnp.prod(shape, dtype=int)))]
            elif kind == "int":
                arr = [rnd.randint(0, 3) for _ in range(int(rnp.prod(shape, dtype=int)))]
            else:
                arr = [rnd.random() < 0.5 for _ in range(int(rnp.prod(shape, dtype=int)))]
            vals[name] = rnp.array(arr, dtype=object).reshape(shape).tolist()
        rr = replay_concrete(contract, vals, findings)
        if rr["status"] in ("fail", "exception") and (clause in rr["failed"]):
            return {"inputs": vals, "replay": rr, "found_by": "sampling after the solver model did not replay"}
    return None


def _bounds_for(inputs, k):
    """magnitude bounds used when asking for further models (keeps replay away from the
    real/float gap)"""
    cs = []
    lo, hi = z3.Q(1, 2 ** (4 + 2 * k)), z3.RealVal(2 ** (4 + 2 * k))
    for v in inputs.values():
        if v.sort() == z3.RealSort():
            cs.append(z3.Or(v == 0, z3.And(z3.If(v >= 0, v, -v) >= lo, z3.If(v >= 0, v, -v) <= hi)))
    return cs


def time_scale():
    """>= 1: how much wall-clock solver timeouts are stretched. Read from the CURRENT load
    average on every call (a run that starts together with many others sees the load only after
    a while); VERIF_TIME_SCALE overrides."""
    return core._time_scale()


def run_contract(contract, tier="quick", findings=None, want_sample=False):
    """explore + discharge one contract; returns a JSON-able result dict"""
    t_start = time.time()
    # solver timeouts are wall-clock: when the machine is oversubscribed (other checks, test
    # suites) the same query needs proportionally longer, so that verdicts do not flip to
    # "undecided" under load. The scale is fixed once per run from the load average.
    scale = time_scale()
    tmo = int((contract.timeout or (20000 if tier == "quick" else 120000)) * scale)
    # the budget is CPU time of this job's process (one process per job): contention from other
    # processes does not eat it. Wall clock is only a distant fall-back (the cli deadline).
    budget_s = contract.budget or (240 if tier == "quick" else 1800)
    cpu_start = time.process_time()
    res = {
        "id": contract.id,
        "prop": contract.prop,
        "target": contract.target,
        "kind": contract.kind,
        "note": contract.note,
        "obligations": [],
        "paths": 0,
        "pruned": 0,
        "status": "ok",
        "trusted": [],
        "functions": [],
        "violations": [],
        "undecided": [],
        "sample": None,
    }
    h = H(contract, "sym", findings=findings)
    try:
        paths, pruned = core.explore(lambda: contract.fn(h), max_paths=contract.max_paths)
    except (core.Unsupported, core.PathLimit, RecursionError) as e:
        res["status"] = "undecided"
        res["undecided"].append({"obligation": contract.id, "reason": "%s: %s" % (type(e).__name__, e), "where": _short_tb()})
        res["wall_s"] = time.time() - t_start
        return res
    except Exception as e:  # harness/shim crash: undecided, with the trace
        res["status"] = "undecided"
        res["undecided"].append({"obligation": contract.id, "reason": "harness error %s: %s" % (type(e).__name__, e), "where": _short_tb()})
        res["wall_s"] = time.time() - t_start
        return res
    res["paths"] = len(paths)
    res["pruned"] = pruned + sum(p.ctx.pruned for p in paths)
    res["functions"] = sorted(h.functions)
    res["sha256"] = {m: s for m, s in mirror.source_sha.items() if any(f.startswith(m + ".") for f in h.functions)}
    trusted = set()
    agg = {}  # clause -> dict
    feasible_paths = 0
    for pi, p in enumerate(paths):
        c = p.ctx
        trusted |= c.trusted
        # cover / vacuity: the path's facts must be satisfiable
        s = z3.Solver()
        s.add(*c.facts())
        cover = str(core.guarded_check(s, 5000))
        if cover == "unsat":
            continue
        feasible_paths += 1
        obls = list(c.obligations)
        if p.exc is not None:
            if isinstance(p.exc, contract.raises):
                # allowed exceptional exit: clauses checked before the raise still count
                pass
            else:
                obls.append(("no-unexpected-exception", z3.BoolVal(False), len(c.pc), None))
                tbs = traceback.extract_tb(p.exc.__traceback__)
                loc = " <- ".join("%s:%d" % (f.filename.rsplit("/", 1)[-1], f.lineno) for f in reversed(tbs[-3:]))
                res.setdefault("exceptions", []).append("%s: %s @ %s" % (type(p.exc).__name__, str(p.exc)[:200], loc))
        for name, goal, npc, *rest_ in obls:
            focus = rest_[0] if rest_ else None
            if time.process_time() - cpu_start > budget_s:
                res["undecided"].append({"obligation": contract.id + "/" + name, "reason": "contract budget of %ds CPU exhausted" % budget_s})
                a = agg.setdefault(name, {"clause": name, "paths": 0, "discharged": 0, "backend": set(), "solver_s": 0.0, "status": "discharged"})
                a["paths"] += 1
                a["status"] = "undecided"
                continue
            facts = c.pc[:npc] + c.axioms
            a = agg.setdefault(name, {"clause": name, "paths": 0, "discharged": 0, "backend": set(), "solver_s": 0.0, "status": "discharged"})
            a["paths"] += 1
            r = None
            if focus is not None:
                # hypotheses restricted to the named facts (sound: a subset of the facts)
                solver, r, dt, bes = _solve_z3(list(focus), goal, min(tmo, 20000))
                a["solver_s"] += dt
                if r != "unsat":
                    r = None
            if r is None:
                solver, r, dt, bes = _solve_z3(facts, goal, tmo)
                a["solver_s"] += dt
            backend = "+".join(sorted(bes))
            if want_sample and res["sample"] is None and r == "unsat":
                smt = solver.to_smt2()
                res["sample"] = {"obligation": contract.id + "/" + name, "path": pi, "result": "unsat", "backend": backend, "smt2": smt if len(smt) < 6000 else smt[:6000] + "\n; ... truncated"}
            if r == "unsat":
                a["discharged"] += 1
                a["backend"] |= bes
                continue
            if r == "unknown":
                # the solver neither proved nor refuted: look for a concrete failing input of
                # this clause on the REAL code; only a replayed failure makes it a violation
                sw = _sample_witness(contract, c, name, findings, tries=24)
                if sw is not None:
                    a["status"] = "violated"
                    res["violations"].append({"obligation": contract.id + "/" + name, "path": pi, "solver": "unknown; failing input found by sampling and replayed on the real code", "replayed": True, "witness": sw, "models_tried": 0, "solver_output": "solver unknown/timeout (%d ms)" % tmo})
                    continue
                a["status"] = "undecided" if a["status"] == "discharged" else a["status"]
                res["undecided"].append({"obligation": contract.id + "/" + name, "reason": "solver unknown/timeout (%d ms) on path %d" % (tmo, pi)})
                continue
            # sat: counterexample -> replay on the real code
            a["status"] = "violated"
            viol = {"obligation": contract.id + "/" + name, "path": pi, "solver": backend}
            if name == "no-unexpected-exception":
                viol["exception"] = res.get("exceptions", [""])[-1]
            tried = []
            replayed = None
            try:
                model = solver.model()
            except z3.Z3Exception:
                model = None
            k = 0
            while model is not None and k < 6:
                vals = _larr_values(model, c, _angles_from_trig(model, c, _model_values(model, c.inputs)))
                rr = replay_concrete(contract, vals, findings)
                tried.append({"inputs": vals, "replay": rr})
                if rr["status"] in ("fail", "exception") and (name in rr["failed"] or rr["failed"]):
                    replayed = tried[-1]
                    break
                # ask for another model, bounded magnitudes
                k += 1
                s3 = z3.Solver()
                s3.add(*facts)
                s3.add(z3.Not(goal))
                s3.add(*_bounds_for(c.inputs, k))
                if str(core.guarded_check(s3, tmo)) != "sat":
                    break
                model = s3.model()
            if replayed is None:
                # the solver's model may be tied to abstractions (opaque sums, witness rows,
                # trig pairs): search a concrete failing input for the same clause by sampling
                replayed = _sample_witness(contract, c, name, findings)
                if replayed is not None:
                    tried.append(replayed)
            viol["replayed"] = replayed is not None
            viol["witness"] = replayed or (tried[0] if tried else None)
            viol["models_tried"] = len(tried)
            try:
                viol["solver_output"] = str(solver.model())[:2000]
            except Exception:
                viol["solver_output"] = "sat (no model)"
            res["violations"].append(viol)
    if feasible_paths == 0:
        res["status"] = "vacuous"
    for a in agg.values():
        a["backend"] = sorted(a["backend"])
        res["obligations"].append(a)
    if res["violations"]:
        res["status"] = "violated"
    elif res["undecided"] and res["status"] == "ok":
        res["status"] = "undecided"
    res["trusted"] = sorted(trusted)
    res["feasible_paths"] = feasible_paths
    res["wall_s"] = time.time() - t_start
    return res


def _short_tb():
    tb = traceback.format_exc().strip().splitlines()
    return " | ".join(l.strip() for l in tb[-6:])


# ----------------------------------------------------------------------------- bounded stand-in from a contract


def contract_inputs(contract, findings=None):
    """names and sorts of the inputs a contract declares (probe by one symbolic run)"""
    h = H(contract, "sym", findings=findings)
    paths, _ = core.explore(lambda: contract.fn(h), max_paths=contract.max_paths)
    ins = {}
    for p in paths:
        for n, v in p.ctx.inputs.items():
            ins[n] = v.sort()
    return ins


def enumerate_contract(contract_id, domains, tier="quick", seed=0, limit=20000, findings=None, note=""):
    """evaluate a contract's own text on the REAL code for every assignment of its scalar
    inputs over small finite domains (exhaustive when the product fits `limit`, seeded
    sample otherwise).  Bounded: labelled as such, never counted as proved."""
    import itertools
    import random

    contract = next(c for c in CONTRACTS if c.id == contract_id)
    ins = contract_inputs(contract, findings)
    names = sorted(ins)
    doms = []
    for n in names:
        srt = ins[n]
        if srt == z3.IntSort():
            doms.append(domains.get("int", [0, 1, 2]))
        elif srt == z3.BoolSort():
            doms.append([False, True])
        elif srt == z3.RealSort():
            doms.append(domains.get("real", [0.0, 1.0, -1.5]))
        else:
            doms.append(domains.get("bv", [0, 1, -1, 2**62, -(2**62), 2**63 - 1, -(2**63)]))
    total = 1
    for d in doms:
        total *= len(d)
    exhaustive = total <= limit
    if exhaustive:
        it = itertools.product(*doms)
    else:
        rnd = random.Random(seed)
        it = (tuple(rnd.choice(d) for d in doms) for _ in range(limit))
    cases = 0
    seen = set()
    failures = []
    sample = None
    skipped = 0
    for combo in it:
        vals = dict(zip(names, combo))
        rr = replay_concrete(contract, vals, findings)
        if rr["status"] == "invalid":
            skipped += 1
            continue
        cases += 1
        seen.add(combo)
        if sample is None:
            sample = {"inputs": vals, "result": rr["status"]}
        if rr["status"] in ("fail", "exception") and len(failures) < 5:
            failures.append({"inputs": vals, "replay": rr, "contract": contract.id})
    return {
        "cases": cases,
        "distinct": len(seen),
        "exhaustive": exhaustive,
        "bound": "%s: all %d inputs over domains %s%s; %d assignments outside the precondition skipped" % (contract.id, len(names), {k: v for k, v in domains.items()}, "" if exhaustive else " (seeded sample of %d of %d)" % (limit, total), skipped),
        "failures": failures,
        "sample": sample,
    }


# ----------------------------------------------------------------------------- canary


def canary(contract, findings=None):
    """vacuity self-check: with the contract's own requires, `ensures False` must FAIL on
    at least one path (a contradictory precondition / axiom set would make it pass)."""
    h = H(contract, "sym", findings=findings)
    try:
        paths, _ = core.explore(lambda: contract.fn(h), max_paths=contract.max_paths)
    except Exception:
        return None
    for p in paths:
        s = z3.Solver()
        s.add(*p.ctx.facts())
        if str(core.guarded_check(s, 5000)) == "sat":
            return True
    return False
