"""
pyvc.larr — unbounded mode: arrays with a *symbolic* length.

An LArr of logical shape (.., N, ..) is represented by its generic row: an SArr `row`
(the logical shape with the symbolic axis removed) whose elements are terms in the skolem
row index `idx` (0 <= idx < N).  Row-local numpy operations act on the generic row, so a
clause proved about the generic row holds for every row and every N.  Reductions over
the symbolic axis become opaque sums / extrema with their defining axioms; gathers
substitute the index; boolean masks introduce filter maps.
Only row-local and re-indexing operations are supported: anything else raises
Unsupported (=> undecided, never a wrong verdict).
"""
from __future__ import annotations

import itertools
import random
from fractions import Fraction

import numpy as rnp
import z3

from . import core, symnp
from .core import SBool, SNum, Unsupported, is_sym
from .symnp import SArr, _plain, to_sarr, wrap

_ND = rnp.ndarray


def _subst_elem(e, idx, j):
    if isinstance(e, SNum):
        return SNum(z3.substitute(e.t, (idx, j)))
    if isinstance(e, SBool):
        return core._mkbool(z3.substitute(e.t, (idx, j)))
    return e


def _subst_row(row, idx, j):
    if isinstance(row, _ND):
        p = _plain(row) if isinstance(row, SArr) else row
        if p.dtype != object:
            return row
        out = rnp.empty(p.shape, dtype=object)
        for k in rnp.ndindex(p.shape):
            out[k] = _subst_elem(p[k], idx, j)
        return wrap(out, getattr(row, "ldt", None))
    return _subst_elem(row, idx, j)


def index_for(N):
    """the skolem row index associated with length term N (one per length)"""
    c = core.ctx()
    reg = c.memo.setdefault("lidx", {})
    k = N.get_id()
    if k not in reg:
        i = z3.Int("row!%d" % len(reg))
        reg[k] = (N, i)
        c.assume(z3.And(i >= 0, i < N))
    return reg[k][1]


def sym_length(name):
    c = core.ctx()
    N = z3.Int(name)
    c.inputs[name] = N
    c.assume(N >= 0)
    return N


class LArr:
    __array_priority__ = 10000.0
    __larr__ = True

    def __init__(self, N, idx, row, axis=0, ldt=None):
        self.N = N
        self.idx = idx
        if not isinstance(row, _ND):
            r = rnp.empty((), dtype=object)
            r[()] = row
            row = r
        if not isinstance(row, SArr):
            row = to_sarr(row)
        self.row = row
        self.axis = axis
        self.ldt = rnp.dtype(ldt) if ldt is not None else row.ldt

    # ---- shape protocol
    @property
    def ndim(self):
        return self.row.ndim + 1

    @property
    def shape(self):
        s = list(self.row.shape)
        s.insert(self.axis, SNum(self.N))
        return tuple(s)

    @property
    def dtype(self):
        return self.ldt

    @property
    def size(self):
        return SNum(self.N) * int(rnp.prod(self.row.shape, dtype=int))

    def __sym_len__(self):
        return self.shape[0]

    def __len__(self):
        raise Unsupported("len() of a symbolic-length array outside a mirrored module")

    def __iter__(self):
        raise Unsupported("iteration over a symbolic-length array")

    @property
    def posR(self):
        return self.ndim - 1 - self.axis

    def _new(self, row, axis=None, ldt=None):
        return LArr(self.N, self.idx, row, self.axis if axis is None else axis, ldt)

    def at(self, j):
        """the row at index term j"""
        if isinstance(j, SNum):
            j = j.t
        elif isinstance(j, (int, rnp.integer)):
            j = z3.IntVal(int(j))
        r = _subst_row(self.row, self.idx, j)
        if isinstance(r, _ND) and r.ndim == 0:
            return r[()]
        return r

    def rebase(self, N, idx):
        """same array expressed over another (equal-length) index"""
        if z3.eq(idx, self.idx):
            return self
        return LArr(N, idx, _subst_row(self.row, self.idx, idx), self.axis, self.ldt)

    @property
    def T(self):
        r = self.row.T if self.row.ndim > 1 else self.row
        return LArr(self.N, self.idx, r, self.ndim - 1 - self.axis, self.ldt)

    def transpose(self, *axes):
        if not axes or axes == (None,):
            return self.T
        raise Unsupported("transpose with axes on LArr")

    def copy(self, order="C"):
        return self._new(self.row.copy())

    def astype(self, dtype, **kw):
        return self._new(self.row.astype(dtype), ldt=dtype)

    def view(self, *a, **k):
        if a and a[0] is _ND:
            return self
        raise Unsupported("view of LArr")

    def __deepcopy__(self, memo):
        return self.copy()

    # ---- element-wise
    def __array_ufunc__(self, ufunc, method, *inputs, **kwargs):
        out = kwargs.pop("out", None)
        if method == "__call__":
            res = _elementwise(ufunc, inputs, kwargs)
            if out is not None:
                o = out[0] if isinstance(out, tuple) else out
                if isinstance(o, LArr):
                    o.row = res.rebase(o.N, o.idx).row if isinstance(res, LArr) else res
                    return o
                raise Unsupported("out= non-LArr")
            return res
        if method == "reduce":
            a = inputs[0]
            return _reduce(a, ufunc.__name__, kwargs.get("axis", 0), kwargs.get("keepdims", False))
        raise Unsupported("ufunc method %s on LArr" % method)

    def __array_function__(self, func, types, args, kwargs):
        h = LHANDLED.get(func)
        if h is None:
            raise Unsupported("numpy.%s on a symbolic-length array" % getattr(func, "__name__", func))
        return h(*args, **kwargs)

    def _bin(self, other, name, reflected=False):
        uf = getattr(rnp, name)
        ins = (other, self) if reflected else (self, other)
        return _elementwise(uf, ins, {})

    def __add__(self, o):
        return self._bin(o, "add")

    def __radd__(self, o):
        return self._bin(o, "add", True)

    def __sub__(self, o):
        return self._bin(o, "subtract")

    def __rsub__(self, o):
        return self._bin(o, "subtract", True)

    def __mul__(self, o):
        return self._bin(o, "multiply")

    def __rmul__(self, o):
        return self._bin(o, "multiply", True)

    def __truediv__(self, o):
        return self._bin(o, "true_divide")

    def __rtruediv__(self, o):
        return self._bin(o, "true_divide", True)

    def __floordiv__(self, o):
        return self._bin(o, "floor_divide")

    def __mod__(self, o):
        return self._bin(o, "remainder")

    def __pow__(self, o):
        return self._bin(o, "power")

    def __neg__(self):
        return _elementwise(rnp.negative, (self,), {})

    def __abs__(self):
        return _elementwise(rnp.absolute, (self,), {})

    def __lt__(self, o):
        return self._bin(o, "less")

    def __le__(self, o):
        return self._bin(o, "less_equal")

    def __gt__(self, o):
        return self._bin(o, "greater")

    def __ge__(self, o):
        return self._bin(o, "greater_equal")

    def __eq__(self, o):
        return self._bin(o, "equal")

    def __ne__(self, o):
        return self._bin(o, "not_equal")

    def __and__(self, o):
        return self._bin(o, "bitwise_and")

    def __or__(self, o):
        return self._bin(o, "bitwise_or")

    def __invert__(self):
        return _elementwise(rnp.invert, (self,), {})

    __hash__ = None

    def __iadd__(self, o):
        self.row = self._bin(o, "add").row
        return self

    def __isub__(self, o):
        self.row = self._bin(o, "subtract").row
        return self

    def __imul__(self, o):
        self.row = self._bin(o, "multiply").row
        return self

    def __itruediv__(self, o):
        self.row = self._bin(o, "true_divide").row
        return self

    # ---- reductions
    def sum(self, axis=None, keepdims=False, **kw):
        return _reduce(self, "add", axis, keepdims)

    def prod(self, axis=None, keepdims=False, **kw):
        return _reduce(self, "multiply", axis, keepdims)

    def max(self, axis=None, keepdims=False, **kw):
        return _reduce(self, "maximum", axis, keepdims)

    def min(self, axis=None, keepdims=False, **kw):
        return _reduce(self, "minimum", axis, keepdims)

    def any(self, axis=None, keepdims=False, **kw):
        return _reduce(self, "logical_or", axis, keepdims)

    def all(self, axis=None, keepdims=False, **kw):
        return _reduce(self, "logical_and", axis, keepdims)

    def ptp(self, axis=None, **kw):
        return self.max(axis=axis) - self.min(axis=axis)

    def mean(self, axis=None, **kw):
        if axis is None or _norm_axis(axis, self.ndim) == self.axis:
            raise Unsupported("mean over the symbolic axis")
        a = _norm_axis(axis, self.ndim)
        return self.sum(axis=axis) / float(self.shape[a])

    def dot(self, b):
        return _dot(self, b)

    def reshape(self, *shape, **kw):
        if len(shape) == 1 and isinstance(shape[0], (tuple, list)):
            shape = tuple(shape[0])
        return _reshape(self, shape)

    def squeeze(self, axis=None):
        if axis is None:
            if any(d == 1 for d in self.row.shape):
                raise Unsupported("squeeze of LArr with unit axes")
            return self
        raise Unsupported("squeeze(axis) on LArr")

    # ---- indexing
    def _norm_key(self, key):
        if not isinstance(key, tuple):
            key = (key,)
        if any(k is Ellipsis for k in key):
            i = next(n for n, k in enumerate(key) if k is Ellipsis)
            fill = self.ndim - (len([k for k in key if k is not None]) - 1)
            key = key[:i] + (slice(None),) * fill + key[i + 1 :]
        n_real = len([k for k in key if k is not None])
        key = key + (slice(None),) * (self.ndim - n_real)
        return key

    def __getitem__(self, key):
        if isinstance(key, LArr) and self.axis == 0:
            if key.ldt is not None and key.ldt.kind == "b":
                return lfilter(self, key)
            return gather(self, key)
        if isinstance(key, SArr) and self.axis == 0 and key.ldt is not None and key.ldt.kind in "iu":
            # gather of finitely many (symbolic) rows -> SArr
            p = _plain(key)
            out = None
            for pos in rnp.ndindex(p.shape):
                r = self.at(SNum.lift(p[pos]))
                r = _plain(r) if isinstance(r, _ND) else r
                if out is None:
                    out = rnp.empty(p.shape + (r.shape if isinstance(r, _ND) else ()), dtype=object)
                out[pos] = r
            return wrap(out, self.ldt)
        key = self._norm_key(key)
        # locate the key component acting on the symbolic axis
        rowkey = []
        pos = 0
        symk = None
        new_axis = 0
        out_dims_before = 0
        for k in key:
            if k is None:
                rowkey.append(None)
                out_dims_before += 1 if symk is None else 0
                continue
            if pos == self.axis:
                symk = k
                new_axis = out_dims_before
            else:
                rowkey.append(k)
                if symk is None and not isinstance(k, (int, rnp.integer, SNum)):
                    out_dims_before += 1
            pos += 1
        rk = tuple(rowkey)
        if isinstance(symk, slice) and symk == slice(None):
            r = self.row[rk] if rk else self.row
            return LArr(self.N, self.idx, r, new_axis, self.ldt)
        if isinstance(symk, (int, rnp.integer)):
            if int(symk) < 0:
                j = self.N + int(symk)
            else:
                j = z3.IntVal(int(symk))
            r = self.at(j)
            return r[rk] if rk and isinstance(r, _ND) else r
        if isinstance(symk, SNum):
            r = self.at(symk.t)
            return r[rk] if rk and isinstance(r, _ND) else r
        raise Unsupported("index %r on the symbolic axis" % (symk,))

    def __setitem__(self, key, value):
        if isinstance(key, LArr) and key.ldt is not None and key.ldt.kind == "b" and self.axis == 0 and key.axis == 0:
            # x[mask] = v  (v scalar or row-shaped constant)
            if isinstance(value, LArr):
                raise Unsupported("x[mask] = compressed array")
            m = key.rebase(self.N, self.idx)
            self.row = _elementwise_where(m, value, self).row
            return
        key = self._norm_key(key)
        rowkey = []
        pos = 0
        for k in key:
            if k is None:
                raise Unsupported("newaxis in assignment")
            if pos == self.axis:
                if not (isinstance(k, slice) and k == slice(None)):
                    raise Unsupported("assignment to part of the symbolic axis")
            else:
                rowkey.append(k)
            pos += 1
        rk = tuple(rowkey)
        if isinstance(value, LArr):
            v = value.rebase(self.N, self.idx)
            vr = v.row
            # the value's symbolic axis must line up with ours once rk is applied
            target = self.row[rk] if rk else self.row
            if isinstance(target, _ND) and isinstance(vr, _ND) and vr.ndim == target.ndim and v.axis != _axis_after_key(self.axis, key):
                raise Unsupported("assignment with misaligned symbolic axis")
            value = vr
        else:
            value = _drop_sym_axis(value, self.posR_after_key(key))
        if rk:
            self.row[rk] = value
        else:
            self.row[...] = value

    def posR_after_key(self, key):
        # position (from the right) of the symbolic axis in the indexed sub-array
        pos = 0
        after = 0
        seen = False
        for k in key:
            if pos == self.axis:
                seen = True
            elif seen and not isinstance(k, (int, rnp.integer, SNum)):
                after += 1
            pos += 1
        return after

    def __repr__(self):
        return "LArr(N=%s, axis=%d, row=%r)" % (self.N, self.axis, self.row)


def _axis_after_key(axis, key):
    pos = 0
    out = 0
    for k in key:
        if pos == axis:
            return out
        if not isinstance(k, (int, rnp.integer, SNum)):
            out += 1
        pos += 1
    return out


def _norm_axis(axis, ndim):
    if axis is None:
        return None
    axis = int(axis)
    return axis + ndim if axis < 0 else axis


def _drop_sym_axis(x, posR):
    """row view of a non-LArr operand whose logical shape is right-aligned with ours"""
    if isinstance(x, (list, tuple)):
        x = to_sarr(x) if symnp._has_sym(x) else rnp.asarray(x)
    if isinstance(x, _ND):
        if x.ndim > posR:
            if x.shape[x.ndim - 1 - posR] != 1:
                raise Unsupported("operand extends along the symbolic axis (shape %s)" % (x.shape,))
            return rnp.take(x, 0, axis=x.ndim - 1 - posR)
        return x
    return x


def _elementwise(ufunc, inputs, kwargs):
    ls = [x for x in inputs if isinstance(x, LArr)]
    base = ls[0]
    posR = base.posR
    rows = []
    ndim_res = 0
    for x in inputs:
        if isinstance(x, LArr):
            if not z3.eq(x.N, base.N):
                raise Unsupported("element-wise op on arrays of different symbolic lengths")
            if x.posR != posR:
                raise Unsupported("misaligned symbolic axes")
            x = x.rebase(base.N, base.idx)
            rows.append(x.row)
            ndim_res = max(ndim_res, x.ndim)
        else:
            r = _drop_sym_axis(x, posR)
            nd = x.ndim if isinstance(x, _ND) else (rnp.ndim(x) if not is_sym(x) else 0)
            ndim_res = max(ndim_res, nd)
            rows.append(r)
    # the rows must broadcast the way the logical arrays do: pad rows of LArr whose
    # symbolic axis is not leading so that the dims left of the axis stay left
    shaped = []
    for x, r in zip(inputs, rows):
        if isinstance(r, _ND) and r.ndim < ndim_res - 1 and posR > 0:
            # dims to the right of the axis: posR; left dims must align to the left part
            right = r.shape[r.ndim - posR :] if posR <= r.ndim else r.shape
            left = r.shape[: max(0, r.ndim - posR)]
            want_left = (ndim_res - 1) - posR
            r = r.reshape((1,) * (want_left - len(left)) + tuple(left) + tuple(right))
        shaped.append(r)
    conv = [s if isinstance(s, SArr) else (to_sarr(s) if isinstance(s, _ND) else s) for s in shaped]
    if not any(isinstance(s, SArr) for s in conv):
        conv[0] = to_sarr(conv[0])
    res = ufunc(*conv, **kwargs)
    if not isinstance(res, _ND):
        res = to_sarr(res)
    return LArr(base.N, base.idx, res, max(ndim_res, base.ndim) - 1 - posR)


def _elementwise_where(mask, a, b):
    f = rnp.frompyfunc(lambda c, x, y: core.ite(symnp._tb(c), x, y), 3, 1)
    base = mask
    posR = base.posR

    def rowof(x):
        if isinstance(x, LArr):
            return _plain(x.rebase(base.N, base.idx).row)
        r = _drop_sym_axis(x, posR)
        if isinstance(r, SArr):
            return _plain(r)
        if isinstance(r, _ND) and r.dtype != object:
            return symnp._obj_array(r)
        return r

    mrow = _plain(mask.row)
    ar, br = rowof(a), rowof(b)
    nd = max([x.ndim for x in (a, b, mask) if isinstance(x, LArr)])
    # mask of shape (N,) against rows with trailing dims: broadcast on the left
    if mrow.ndim < max(getattr(ar, "ndim", 0), getattr(br, "ndim", 0)) and mask.axis == 0:
        extra = max(getattr(ar, "ndim", 0), getattr(br, "ndim", 0)) - mrow.ndim
        mrow = mrow.reshape(mrow.shape + (1,) * extra)
    res = f(mrow, ar, br)
    if not isinstance(res, _ND):
        res = symnp._obj_array(res)
    ax = [x.axis for x in (a, b) if isinstance(x, LArr)]
    return LArr(base.N, base.idx, wrap(res), ax[0] if ax else mask.axis)


# ----------------------------------------------------------------------------- symbolic sums


def _poly_probe(t, env_cache):
    """evaluate term t at a fixed pseudo-random rational point of its free variables
    (uninterpreted applications are treated as variables)"""
    return None


def opaque_sum(N, idx, term):
    """Σ_{idx<N} term  as an opaque real with sum extensionality and scaling:
    two sums over the same length whose summands are provably proportional
    (t == c*u for every idx) share one constant."""
    c = core.ctx()
    sums = c.memo.setdefault("sums", [])
    t = z3.simplify(term)
    if z3.is_rational_value(t) and t.as_fraction() == 0:
        return SNum(z3.RealVal(0))
    for ent in sums:
        if not z3.eq(ent["N"], N):
            continue
        u = z3.substitute(ent["term"], (ent["idx"], idx))
        if z3.eq(z3.simplify(u), t):
            return SNum(ent["const"])
        ratio = proportional(t, u)
        if ratio is None:
            continue
        ent["merged"] = ent.get("merged", 0) + 1
        c.memo.setdefault("sum_lemmas", []).append("sum-extensionality: summand == %s * summand of %s as polynomials in the generic row" % (ratio, ent["const"]))
        return SNum(z3.simplify(ratio * ent["const"]))
    k = c.fresh(z3.RealSort(), "SUM")
    sums.append({"N": N, "idx": idx, "term": t, "const": k})
    c.trusted.add("Σ over the symbolic axis is an opaque total; only extensionality (equal summands for the generic row => equal sums) and scaling by a constant are used")
    return SNum(k)


class _NotPoly(Exception):
    pass


def poly_of(e):
    """exact polynomial normal form {monomial(tuple of (atom-id, power)) : Fraction} of a z3
    arithmetic term; uninterpreted constants/applications are atoms"""
    if z3.is_rational_value(e):
        f = e.as_fraction()
        return {(): f} if f != 0 else {}
    if z3.is_int_value(e):
        return {(): Fraction(e.as_long())} if e.as_long() != 0 else {}
    k = e.decl().kind() if z3.is_app(e) else None
    if k == z3.Z3_OP_UNINTERPRETED:
        return {((e.get_id(), 1),): Fraction(1)}
    if k == z3.Z3_OP_TO_REAL:
        return poly_of(e.arg(0))
    if k == z3.Z3_OP_ADD:
        out = {}
        for a in e.children():
            for m, c in poly_of(a).items():
                out[m] = out.get(m, 0) + c
        return {m: c for m, c in out.items() if c != 0}
    if k == z3.Z3_OP_SUB:
        ch = e.children()
        out = dict(poly_of(ch[0]))
        for a in ch[1:]:
            for m, c in poly_of(a).items():
                out[m] = out.get(m, 0) - c
        return {m: c for m, c in out.items() if c != 0}
    if k == z3.Z3_OP_UMINUS:
        return {m: -c for m, c in poly_of(e.arg(0)).items()}
    if k == z3.Z3_OP_MUL:
        out = {(): Fraction(1)}
        for a in e.children():
            pa = poly_of(a)
            nxt = {}
            for m1, c1 in out.items():
                for m2, c2 in pa.items():
                    d = dict(m1)
                    for v, pw in m2:
                        d[v] = d.get(v, 0) + pw
                    m = tuple(sorted(d.items()))
                    nxt[m] = nxt.get(m, 0) + c1 * c2
            out = {m: c for m, c in nxt.items() if c != 0}
        return out
    if k == z3.Z3_OP_DIV:
        d = poly_of(e.arg(1))
        if list(d.keys()) == [()]:
            return {m: c / d[()] for m, c in poly_of(e.arg(0)).items()}
        raise _NotPoly()
    if k == z3.Z3_OP_POWER and z3.is_rational_value(e.arg(1)) and e.arg(1).as_fraction().denominator == 1 and e.arg(1).as_fraction() >= 0:
        base = poly_of(e.arg(0))
        out = {(): Fraction(1)}
        for _ in range(int(e.arg(1).as_fraction())):
            nxt = {}
            for m1, c1 in out.items():
                for m2, c2 in base.items():
                    d = dict(m1)
                    for v, pw in m2:
                        d[v] = d.get(v, 0) + pw
                    m = tuple(sorted(d.items()))
                    nxt[m] = nxt.get(m, 0) + c1 * c2
            out = {m: c for m, c in nxt.items() if c != 0}
        return out
    raise _NotPoly()


def proportional(t, u):
    """exact test  t == c*u  as polynomials; returns c (z3 rational) or None"""
    try:
        pt, pu = poly_of(t), poly_of(u)
    except _NotPoly:
        return None
    if not pu or not pt or set(pt) != set(pu):
        return None
    m0 = next(iter(pu))
    c = pt[m0] / pu[m0]
    if all(pt[m] == c * pu[m] for m in pu):
        return z3.Q(c.numerator, c.denominator)
    return None


def _guess_ratio(t, u):
    """constant c with t == c*u, guessed by evaluating both at one random rational point"""
    vs = {}

    def collect(e):
        if z3.is_app(e):
            if e.num_args() == 0 and e.decl().kind() == z3.Z3_OP_UNINTERPRETED:
                vs[e.get_id()] = e
                return
            if e.decl().kind() == z3.Z3_OP_UNINTERPRETED:
                vs[e.get_id()] = e
                return
            for a in e.children():
                collect(a)

    collect(t)
    collect(u)
    rnd = random.Random(12345)
    subs = []
    for e in vs.values():
        if e.sort() == z3.RealSort():
            subs.append((e, z3.Q(rnd.randint(2, 97), rnd.randint(2, 89))))
        elif e.sort() == z3.IntSort():
            subs.append((e, z3.IntVal(rnd.randint(2, 50))))
    tv = z3.simplify(z3.substitute(t, *subs)) if subs else t
    uv = z3.simplify(z3.substitute(u, *subs)) if subs else u
    if not (z3.is_rational_value(tv) and z3.is_rational_value(uv)):
        return None
    a, b = tv.as_fraction(), uv.as_fraction()
    if b == 0:
        return None
    r = a / b
    return z3.Q(r.numerator, r.denominator)


def _extremum(N, idx, term, is_max, is_int):
    c = core.ctx()
    m = c.fresh(z3.IntSort() if is_int else z3.RealSort(), "MAX" if is_max else "MIN")
    w = c.fresh(z3.IntSort(), "wit")
    tw = z3.substitute(term, (idx, w))
    c.axiom(z3.Implies(N > 0, z3.And(w >= 0, w < N, m == tw, (m >= term) if is_max else (m <= term))))
    c.trusted.add("max/min over the symbolic axis: defined by `bounds every row` (instantiated at the generic row) and `attained at a witness row`; N > 0")
    return SNum(m)


def _quant_bool(N, idx, term, is_any):
    c = core.ctx()
    b = c.fresh(z3.BoolSort(), "ANY" if is_any else "ALL")
    w = c.fresh(z3.IntSort(), "wit")
    tw = z3.substitute(term, (idx, w))
    if is_any:
        c.axiom(z3.Implies(term, b))
        c.axiom(z3.Implies(b, z3.And(w >= 0, w < N, tw)))
    else:
        c.axiom(z3.Implies(b, term))
        c.axiom(z3.Implies(z3.Not(b), z3.And(w >= 0, w < N, z3.Not(tw))))
    c.trusted.add("any/all over the symbolic axis: defined by instantiation at the generic row and a witness row")
    return core._mkbool(b) if False else SBool(b)


def _reduce(a, name, axis, keepdims=False):
    if not isinstance(a, LArr):
        raise Unsupported("reduce on non-LArr")
    if keepdims:
        raise Unsupported("keepdims on LArr")
    if isinstance(axis, tuple):
        raise Unsupported("tuple axis on LArr")
    ax = _norm_axis(axis, a.ndim)
    pyred = {"add": "sum", "multiply": "prod", "maximum": "max", "minimum": "min", "logical_or": "any", "logical_and": "all"}[name]
    if ax is not None and ax != a.axis:
        r = getattr(a.row, pyred)(axis=ax if ax < a.axis else ax - 1)
        return LArr(a.N, a.idx, r, a.axis - 1 if ax < a.axis else a.axis)
    row = a.row
    if ax is None and row.ndim > 0:
        row = getattr(row, pyred)()  # all concrete axes first
        row = to_sarr(row) if not isinstance(row, _ND) else row
    p = _plain(row)
    out = rnp.empty(p.shape, dtype=object)
    for k in rnp.ndindex(p.shape):
        e = p[k]
        if name == "add":
            e = SNum.lift(e)
            if e.is_int:
                raise Unsupported("integer sum over the symbolic axis")
            out[k] = opaque_sum(a.N, a.idx, e.t)
        elif name in ("maximum", "minimum"):
            e = SNum.lift(e)
            out[k] = _extremum(a.N, a.idx, e.t, name == "maximum", e.is_int)
        elif name in ("logical_or", "logical_and"):
            out[k] = _quant_bool(a.N, a.idx, core.tobool(symnp._tb(e)), name == "logical_or")
        else:
            raise Unsupported("reduction %s over the symbolic axis" % name)
    if out.ndim == 0:
        return out[()]
    return wrap(out)


# ----------------------------------------------------------------------------- gather / filter / reshape


def gather(src, key):
    """src[key] with src of symbolic length (axis 0) and key an integer LArr"""
    kp = _plain(key.row)
    out = None
    for pos in rnp.ndindex(kp.shape):
        r = src.at(SNum.lift(kp[pos]))
        r = _plain(r) if isinstance(r, _ND) else r
        if out is None:
            out = rnp.empty(kp.shape + (r.shape if isinstance(r, _ND) else ()), dtype=object)
        out[pos] = r
    core.ctx().memo.setdefault("gather_bounds", []).append((key, src.N))
    return LArr(key.N, key.idx, wrap(out, src.ldt), key.axis, src.ldt)


def lfilter(src, mask):
    """src[mask]: a new symbolic length with a strictly monotone map onto the true rows"""
    c = core.ctx()
    if not z3.eq(mask.N, src.N):
        raise Unsupported("mask of a different length")
    m = mask.rebase(src.N, src.idx)
    mt = core.tobool(symnp._tb(_plain(m.row)[()]))
    # the same mask (same term over the same length) always yields the same filter map:
    # a[mask] and b[mask] are aligned row by row
    fkey = ("filter", z3.simplify(mt).sexpr(), src.N.sexpr(), src.idx.sexpr())
    if fkey in c.memo:
        N2, phi, psi, idx2 = c.memo[fkey]
        row = _subst_row(src.row, src.idx, phi(idx2))
        return LArr(N2, idx2, row, 0, src.ldt)
    k = len(c.memo.setdefault("filters", []))
    N2 = z3.Int("cnt!%d" % k)
    phi = z3.Function("phi!%d" % k, z3.IntSort(), z3.IntSort())
    psi = z3.Function("psi!%d" % k, z3.IntSort(), z3.IntSort())
    idx2 = index_for(N2)
    c.memo[fkey] = (N2, phi, psi, idx2)
    j = phi(idx2)
    c.axiom(z3.And(N2 >= 0, N2 <= src.N))
    c.axiom(z3.And(j >= 0, j < src.N, z3.substitute(mt, (src.idx, j)), psi(j) == idx2))
    # every true row of the source appears (instantiated at the generic source row)
    c.axiom(z3.Implies(mt, z3.And(psi(src.idx) >= 0, psi(src.idx) < N2, phi(psi(src.idx)) == src.idx)))
    a, b = z3.Ints("fa!%d fb!%d" % (k, k))
    c.axiom(z3.ForAll([a, b], z3.Implies(z3.And(0 <= a, a < b, b < N2), phi(a) < phi(b)), patterns=[z3.MultiPattern(phi(a), phi(b))]))
    c.memo["filters"].append({"N": src.N, "N2": N2, "phi": phi, "psi": psi, "mask": mt, "idx": src.idx})
    c.trusted.add("a[mask]: filter axioms (count, strictly increasing index map onto the true positions, inverse on true positions)")
    row = _subst_row(src.row, src.idx, j)
    return LArr(N2, idx2, row, 0, src.ldt)


def _reshape(a, shape):
    shape = tuple(shape)
    if a.axis != 0:
        raise Unsupported("reshape of LArr with non-leading symbolic axis")
    if len(shape) >= 1 and isinstance(shape[0], SNum) and z3.eq(z3.simplify(shape[0].t), z3.simplify(a.N)):
        return a._new(a.row.reshape(shape[1:]))
    if shape and shape[0] == -1 and all(isinstance(s, (int, rnp.integer)) for s in shape[1:]):
        tail = tuple(int(s) for s in shape[1:])
        if int(rnp.prod(tail, dtype=int)) == int(rnp.prod(a.row.shape, dtype=int)):
            return a._new(a.row.reshape(tail))
        total = int(rnp.prod(a.row.shape, dtype=int))
        tsz = int(rnp.prod(tail, dtype=int))
        if tsz > 0 and total % tsz == 0:
            # (N, total) -> (k*N, tail): new row j is the chunk j mod k of old row j div k
            k = total // tsz
            flat = _plain(a.row).reshape(-1)
            N2 = z3.simplify(a.N * k)
            j = index_for(N2)
            out = rnp.empty((tsz,), dtype=object)
            for c in range(tsz):
                e = None
                for r in range(k - 1, -1, -1):
                    cand = _subst_elem(flat[r * tsz + c], a.idx, j / k)
                    if e is None:
                        e = cand
                    else:
                        e = core.ite(core._mkbool(j % k == r), cand, e)
                out[c] = e
            return LArr(N2, j, wrap(out.reshape(tail), a.ldt), 0, a.ldt)
        raise Unsupported("reshape that merges the symbolic axis with a non-dividing factor")
    raise Unsupported("reshape %r of LArr" % (shape,))


def _lsort(a, axis=-1, **kw):
    """numpy.sort along a CONCRETE axis of a symbolic-length array (row-local)"""
    if not isinstance(a, LArr):
        raise Unsupported("sort")
    ax = axis if axis >= 0 else a.ndim + axis
    if ax == a.axis:
        raise Unsupported("sort along the symbolic axis")
    rax = ax - (1 if ax > a.axis else 0)
    return a._new(symnp._sort(a.row.copy(), axis=rax))


# ----------------------------------------------------------------------------- numpy functions on LArr


def _cross(a, b, axisa=-1, axisb=-1, axisc=-1, axis=None):
    if axis is not None or (axisa, axisb, axisc) != (-1, -1, -1):
        raise Unsupported("cross with axis on LArr")
    base = a if isinstance(a, LArr) else b

    def row(x):
        if isinstance(x, LArr):
            if x.posR == 0:
                raise Unsupported("cross along the symbolic axis")
            return x.rebase(base.N, base.idx).row
        return _drop_sym_axis(x, base.posR)

    r = symnp._cross(row(a), row(b))
    return LArr(base.N, base.idx, r, base.axis)


def _dot(a, b, out=None):
    if isinstance(a, LArr) and isinstance(b, LArr):
        raise Unsupported("dot of two symbolic-length arrays")
    if isinstance(b, LArr):
        # (p, q) . (q, N) -> (p, N)   |   (q,) . (q, N) -> (N,)
        if b.ndim == 2 and b.axis == 1:
            A = a if isinstance(a, _ND) else rnp.asarray(a)
            A = to_sarr(A) if not isinstance(A, SArr) else A
            r = symnp._dot(A, b.row)
            return LArr(b.N, b.idx, r, 1 if rnp.ndim(A) == 2 else 0)
        if b.ndim == 2 and b.axis == 0:
            raise Unsupported("dot contracting over the symbolic axis")
        raise Unsupported("dot with LArr rhs of ndim %d" % b.ndim)
    # a is LArr
    B = b if isinstance(b, _ND) else rnp.asarray(b)
    B = to_sarr(B) if not isinstance(B, SArr) else B
    if a.axis == a.ndim - 1 and a.ndim >= 2:
        raise Unsupported("dot contracting over the symbolic axis")
    if a.axis == 0:
        # (N, .., q) . (q,) or (q, r): numpy contracts the last axis of a with the
        # second-to-last (or only) axis of b
        r = symnp._dot(a.row, B)
        return LArr(a.N, a.idx, r if isinstance(r, _ND) else to_sarr(r), 0)
    raise Unsupported("dot with LArr lhs axis %d" % a.axis)


def _column_stack(tup):
    base = next(x for x in tup if isinstance(x, LArr))
    rows = []
    for x in tup:
        if not isinstance(x, LArr):
            raise Unsupported("column_stack of LArr with non-LArr")
        x = x.rebase(base.N, base.idx)
        if x.axis != 0:
            raise Unsupported("column_stack with non-leading symbolic axis")
        r = _plain(x.row)
        rows.append(r.reshape(-1) if r.ndim <= 1 else r)
    if any(r.ndim > 1 for r in rows):
        raise Unsupported("column_stack of >2-D LArr")
    return LArr(base.N, base.idx, wrap(rnp.concatenate(rows)), 0)


def _lwhere(cond, *xy):
    if not xy:
        raise Unsupported("np.where(mask) on a symbolic-length array (use a[mask])")
    x, y = xy
    if not isinstance(cond, LArr):
        base = next(v for v in (x, y) if isinstance(v, LArr))
        c = _drop_sym_axis(cond, base.posR)
        cond = LArr(base.N, base.idx, to_sarr(c), base.axis if rnp.ndim(c) == base.row.ndim else 0)
    return _elementwise_where(cond, x, y)


def _zeros_like(a, dtype=None, **kw):
    z = symnp.shim.zeros(a.row.shape, dtype=dtype if dtype is not None else a.ldt)
    return a._new(z, ldt=dtype if dtype is not None else a.ldt)


def _ones_like(a, dtype=None, **kw):
    z = symnp.shim.ones(a.row.shape, dtype=dtype if dtype is not None else a.ldt)
    return a._new(z, ldt=dtype if dtype is not None else a.ldt)


def _diff(a, n=1, axis=-1, **kw):
    ax = _norm_axis(axis, a.ndim)
    if ax == a.axis or n != 1:
        raise Unsupported("diff along the symbolic axis")
    r = rnp.diff(a.row, axis=ax if ax < a.axis else ax - 1)
    return a._new(symnp._rewrap(r))


def _clip(a, lo=None, hi=None, **kw):
    r = a
    if lo is not None:
        r = _elementwise(rnp.maximum, (r, lo), {})
    if hi is not None:
        r = _elementwise(rnp.minimum, (r, hi), {})
    return r


def _isclose(a, b, rtol=1e-05, atol=1e-08, equal_nan=False):
    d = abs(a - b)
    return d <= (atol + rtol * abs(b))


def _lnorm(x, ord=None, axis=None, keepdims=False):
    if ord not in (None, 2) or axis is None:
        raise Unsupported("norm of LArr without axis")
    return rnp.sqrt((x * x).sum(axis=axis))


LHANDLED = {
    rnp.cross: _cross,
    rnp.dot: _dot,
    rnp.column_stack: _column_stack,
    rnp.where: _lwhere,
    rnp.zeros_like: _zeros_like,
    rnp.ones_like: _ones_like,
    rnp.empty_like: _zeros_like,
    rnp.diff: _diff,
    rnp.clip: _clip,
    rnp.isclose: _isclose,
    rnp.linalg.norm: _lnorm,
    rnp.sum: lambda a, axis=None, **k: a.sum(axis=axis),
    rnp.prod: lambda a, axis=None, **k: a.prod(axis=axis),
    rnp.any: lambda a, axis=None, **k: a.any(axis=axis),
    rnp.all: lambda a, axis=None, **k: a.all(axis=axis),
    rnp.max: lambda a, axis=None, **k: a.max(axis=axis),
    rnp.min: lambda a, axis=None, **k: a.min(axis=axis),
    rnp.ptp: lambda a, axis=None, **k: a.ptp(axis=axis),
    rnp.mean: lambda a, axis=None, **k: a.mean(axis=axis),
    rnp.transpose: lambda a, axes=None: a.T if axes is None else a.transpose(axes),
    rnp.copy: lambda a, **k: a.copy(),
    rnp.reshape: lambda a, shape, **k: a.reshape(shape),
    rnp.shape: lambda a: a.shape,
    rnp.ndim: lambda a: a.ndim,
    rnp.abs: lambda a: abs(a),
    rnp.sort: _lsort,
}


def make_input(name, N, rest, kind="real"):
    """harness input: array (N, *rest) of unconstrained reals/ints/bools, as UF applications"""
    sort = {"real": z3.RealSort(), "int": z3.IntSort(), "bool": z3.BoolSort()}[kind]
    idx = index_for(N)
    f = z3.Function(name, *([z3.IntSort()] * (1 + len(rest))), sort)
    out = rnp.empty(rest, dtype=object)
    for k in rnp.ndindex(*rest):
        t = f(idx, *[z3.IntVal(i) for i in k])
        out[k] = SBool(t) if kind == "bool" else SNum(t)
    ldt = {"real": rnp.float64, "int": rnp.int64, "bool": rnp.bool_}[kind]
    c = core.ctx()
    c.memo.setdefault("larr_inputs", {})[name] = (f, N, rest, kind)
    return LArr(N, idx, wrap(out, ldt), 0, ldt)
