"""
pyvc.mirror — compile the *unmodified source text* of repository modules into mirror
modules whose `import numpy` resolves to the symbolic shim and whose `trimesh.*`
imports resolve to other mirrors.  Nothing in /repo is edited.
"""
from __future__ import annotations

import ast
import builtins
import hashlib
import importlib
import os
import sys
import types

import numpy as rnp

from . import core, symnp
from .core import SBool, SNum, is_sym

REPO = os.environ.get("VERIF_REPO", "/repo")
PKG = "trimesh"

_registry: dict[str, types.ModuleType] = {}
source_sha: dict[str, str] = {}
ast_hooks = {}  # modname -> callable(ast.Module) -> ast.Module  (loop cutting etc.)
rewrites_applied: dict[str, list] = {}
# modules served by the real import (externals / things not worth mirroring)
REAL_MODULES = {
    "trimesh.resources",
    "trimesh.version",
    "trimesh.typed",
    "trimesh.exceptions",
    "trimesh.schemas",
}


def _path_of(modname):
    rel = modname.split(".")
    base = os.path.join(REPO, *rel)
    if os.path.isdir(base) and os.path.exists(os.path.join(base, "__init__.py")):
        return os.path.join(base, "__init__.py"), True
    if os.path.exists(base + ".py"):
        return base + ".py", False
    return None, False


# ----------------------------------------------------------------------------- builtins


def _b_len(x):
    n = getattr(x, "__sym_len__", None)
    if n is not None:
        return n()
    return len(x)


def _b_float(x=0.0):
    if isinstance(x, SNum):
        return x.real()
    if isinstance(x, SBool):
        return x._num().real()
    if isinstance(x, symnp.SArr) and x.size == 1:
        return _b_float(x.view(rnp.ndarray).flat[0])
    return float(x)


def _b_int(x=0, *a):
    if isinstance(x, SNum):
        return core.sym_trunc(x)
    if isinstance(x, SBool):
        return x._num()
    if isinstance(x, symnp.SArr) and x.size == 1:
        return _b_int(x.view(rnp.ndarray).flat[0])
    return int(x, *a)


def _b_bool(x=False):
    return bool(x)


def _b_abs(x):
    return abs(x)


def _b_max(*a, **k):
    if len(a) == 1:
        seq = list(a[0])
    else:
        seq = list(a)
    if not any(is_sym(e) for e in seq):
        return max(*a, **k)
    if "key" in k:
        raise core.Unsupported("max(key=) on symbols")
    r = seq[0]
    for e in seq[1:]:
        r = core.sym_max(r, e)
    return r


def _b_min(*a, **k):
    if len(a) == 1:
        seq = list(a[0])
    else:
        seq = list(a)
    if not any(is_sym(e) for e in seq):
        return min(*a, **k)
    if "key" in k:
        raise core.Unsupported("min(key=) on symbols")
    r = seq[0]
    for e in seq[1:]:
        r = core.sym_min(r, e)
    return r


def _b_round(x, nd=None):
    if isinstance(x, SNum):
        if nd:
            sc = 10**nd
            return core.sym_round(x * sc).real() / sc
        return core.sym_round(x)
    return round(x, nd) if nd is not None else round(x)


def _b_isinstance(obj, cls):
    if isinstance(obj, SNum):
        tup = cls if isinstance(cls, tuple) else (cls,)
        for c in tup:
            if c in (float, rnp.floating, rnp.float64, rnp.number) and not obj.is_int:
                return True
            if c in (int, rnp.integer, rnp.int64, rnp.number) and obj.is_int:
                return True
        return isinstance(obj, cls)
    if isinstance(obj, SBool):
        tup = cls if isinstance(cls, tuple) else (cls,)
        if bool in tup or rnp.bool_ in tup:
            return True
    return isinstance(obj, cls)


def _make_builtins(importer):
    b = dict(vars(builtins))
    b["__import__"] = importer
    b["len"] = _b_len
    b["__pyvc_float__"] = _b_float
    b["__pyvc_int__"] = _b_int
    b["max"] = _b_max
    b["min"] = _b_min
    b["round"] = _b_round
    b["isinstance"] = _b_isinstance
    return b


class _CallRewriter(ast.NodeTransformer):
    """`float(x)` / `int(x)` *calls* are routed through symbol-aware wrappers (identical on
    concrete values); other uses of the names (dtype=float, isinstance(x, float)) are kept."""

    MAP = {"float": "__pyvc_float__", "int": "__pyvc_int__"}

    def visit_Call(self, node):
        self.generic_visit(node)
        if isinstance(node.func, ast.Name) and node.func.id in self.MAP:
            node.func = ast.copy_location(ast.Name(id=self.MAP[node.func.id], ctx=ast.Load()), node.func)
        return node


# ----------------------------------------------------------------------------- importer


class LazyPackage(types.ModuleType):
    """the top-level `trimesh` mirror: submodules load on attribute access"""

    def __getattr__(self, name):
        if name.startswith("__"):
            raise AttributeError(name)
        full = self.__name__ + "." + name
        p, _ = _path_of(full)
        if p is not None:
            m = load(full)
            return m
        # a re-exported name (trimesh.Trimesh, trimesh.load ...): find its home module
        real = importlib.import_module(self.__name__)
        obj = getattr(real, name)
        home = getattr(obj, "__module__", None)
        if home and home.startswith(PKG + ".") and _path_of(home)[0]:
            return getattr(load(home), name)
        return obj


def _resolve(name, globals_, level):
    if level == 0:
        return name
    pkg = globals_.get("__package__") or globals_["__name__"].rpartition(".")[0]
    parts = pkg.split(".")
    if level > 1:
        parts = parts[: -(level - 1)]
    base = ".".join(parts)
    return base + ("." + name if name else "")


def _importer(name, globals=None, locals=None, fromlist=(), level=0):
    absname = _resolve(name, globals or {}, level)
    if absname == "numpy" or absname.startswith("numpy."):
        if absname == "numpy":
            return symnp.shim
        # `import numpy.linalg` / `from numpy.linalg import x`
        sub = absname.split(".", 1)[1]
        if fromlist:
            return getattr(symnp.shim, sub) if hasattr(symnp.shim, sub) else importlib.import_module(absname)
        return symnp.shim
    if absname == PKG or absname.startswith(PKG + "."):
        if absname in REAL_MODULES or any(absname.startswith(r + ".") for r in REAL_MODULES):
            m = importlib.import_module(absname)
            return m if fromlist else importlib.import_module(PKG)
        m = load(absname)
        if fromlist:
            for f in fromlist:
                if f != "*" and not hasattr(m, f):
                    sub = absname + "." + f
                    if _path_of(sub)[0]:
                        setattr(m, f, load(sub))
            return m
        return load(PKG) if level == 0 else m
    return builtins.__import__(name, globals, locals, fromlist, level)


def load(modname):
    """mirror of repository module `modname` (cached per process)"""
    if modname in _registry:
        return _registry[modname]
    if modname == PKG:
        # the package __init__ is executed too, so that sub-modules are first imported in
        # the package's own canonical order (its import cycles rely on that order)
        m = LazyPackage(PKG)
        m.__path__ = [os.path.join(REPO, PKG)]
        m.__package__ = PKG
        m.__file__ = os.path.join(REPO, PKG, "__init__.py")
        _registry[PKG] = m
        src = open(m.__file__, "rb").read()
        source_sha[PKG] = hashlib.sha256(src).hexdigest()
        tree = _CallRewriter().visit(ast.parse(src.decode("utf-8"), filename=m.__file__))
        ast.fix_missing_locations(tree)
        m.__dict__["__builtins__"] = _make_builtins(_importer)
        try:
            exec(compile(tree, m.__file__, "exec"), m.__dict__)
        except BaseException:
            del _registry[PKG]
            raise
        return m
    if modname in REAL_MODULES:
        return importlib.import_module(modname)
    if PKG not in _registry:
        load(PKG)
        if modname in _registry:
            return _registry[modname]
    path, is_pkg = _path_of(modname)
    if path is None:
        raise ImportError("no repository module %s" % modname)
    src = open(path, "rb").read()
    source_sha[modname] = hashlib.sha256(src).hexdigest()
    tree = ast.parse(src.decode("utf-8"), filename=path)
    tree = _CallRewriter().visit(tree)
    ast.fix_missing_locations(tree)
    hook = ast_hooks.get(modname)
    if hook is not None:
        tree = hook(tree)
        ast.fix_missing_locations(tree)
    mod = types.ModuleType(modname)
    mod.__file__ = path
    mod.__package__ = modname if is_pkg else modname.rpartition(".")[0]
    if is_pkg:
        mod.__path__ = [os.path.dirname(path)]
    mod.__dict__["__builtins__"] = _make_builtins(_importer)
    mod.__mirror__ = True
    _registry[modname] = mod
    try:
        exec(compile(tree, path, "exec"), mod.__dict__)
    except BaseException:
        del _registry[modname]
        raise
    # make the parent package see it
    parent = modname.rpartition(".")[0]
    if parent and parent in _registry and parent != PKG:
        setattr(_registry[parent], modname.rpartition(".")[2], mod)
    return mod


def reset():
    _registry.clear()
    source_sha.clear()


def get(qualname):
    """'trimesh.transformations.rotation_matrix' -> mirrored object"""
    parts = qualname.split(".")
    for k in range(len(parts), 0, -1):
        modname = ".".join(parts[:k])
        if _path_of(modname)[0] is not None or modname == PKG:
            obj = load(modname)
            for p in parts[k:]:
                obj = getattr(obj, p)
            return obj
    raise ImportError(qualname)


def get_real(qualname):
    parts = qualname.split(".")
    for k in range(len(parts), 0, -1):
        try:
            obj = importlib.import_module(".".join(parts[:k]))
        except ImportError:
            continue
        for p in parts[k:]:
            obj = getattr(obj, p)
        return obj
    raise ImportError(qualname)
