"""
pyvc.core — symbolic scalars, path context and the exhaustive path explorer.

Floats are mathematical reals (float literals become their exact rational value),
Python ints are mathematical integers, bools are z3 Bools.  A symbolic Bool reaching
``__bool__`` asks the explorer, which re-executes the function under test along every
feasible decision sequence (DFS, feasibility by z3).
"""
from __future__ import annotations

import math
import os
import time
from fractions import Fraction

import numpy as _np
import z3

# ----------------------------------------------------------------------------- context


class Infeasible(Exception):
    """current path condition is unsatisfiable — abandon the path silently"""


class Unsupported(Exception):
    """the shim cannot model something: outcome is *undecided*, never a violation"""


class PathLimit(Exception):
    pass


def modelled(exc):
    """an exception the shim raises *on behalf of numpy/Python* (out-of-bounds index,
    NEP-50 overflow ...): it is an outcome of the code under test, not a tool limit"""
    exc._pyvc_modelled = True
    return exc


class Ctx:
    """state of one symbolic execution (one path)"""

    def __init__(self, forced=()):
        self.forced = list(forced)
        self.taken = []  # list of bool decisions (aligned with forced)
        self.pc = _Facts(self)  # z3 Bools assumed on this path (decisions + requires)
        self.axioms = _Facts(self)  # defining axioms of fresh symbols (sqrt, trig, stubs)
        self._solver = None  # incremental solver holding pc + axioms (feasibility checks)
        self.counter = 0
        self.alternatives = []  # decision prefixes still to explore
        self.trusted = set()  # assumption scan
        self.memo = {}  # term-id keyed caches (sqrt, trig pairs ...)
        self.inputs = {}  # name -> z3 const (declared harness inputs)
        self.obligations = []  # (name, z3 Bool goal, extra info)
        self.pruned = 0
        self.feas_time = 0.0
        self.notes = []

    def fresh(self, sort, hint="v"):
        self.counter += 1
        return z3.Const("%s!%d" % (hint, self.counter), sort)

    def assume(self, t):
        self.pc.append(t)

    def axiom(self, t):
        self.axioms.append(t)

    def facts(self):
        return self.pc + self.axioms


class _Facts(list):
    """list of facts that mirrors every append into the context's incremental solver"""

    def __init__(self, owner):
        super().__init__()
        self._owner = owner

    def append(self, t):
        super().append(t)
        sv = self._owner.__dict__.get("_solver")
        if sv is not None:
            sv.add(t)


def _solver_of(c):
    if c._solver is None:
        sv = z3.Solver()
        sv.add(*c.pc)
        sv.add(*c.axioms)
        c._solver = sv
    return c._solver


CUR: Ctx | None = None
ARRAY_FALLBACK = None  # set by symnp: (sequence, elementwise fn) -> SArr
FEAS_TIMEOUT_MS = 3000


def ctx() -> Ctx:
    if CUR is None:
        raise RuntimeError("no active symbolic context")
    return CUR


def active() -> bool:
    return CUR is not None


LINEAR_ABSTRACTION = None  # set by pyvc.engine: terms -> (abstracted terms, #products)


def _time_scale():
    """wall-clock stretch factor for solver timeouts: 1 on an idle machine, up to 6 when the
    run queue is several times the number of cores (our own <= 16 jobs count as normal)"""
    env = os.environ.get("VERIF_TIME_SCALE")
    if env:
        try:
            return max(1.0, float(env))
        except ValueError:
            pass
    try:
        load = os.getloadavg()[0]
        ncpu = os.cpu_count() or 1
    except OSError:
        return 1.0
    return min(6.0, max(1.0, 1.0 + (load - 0.5 * ncpu) / ncpu * 1.5))


def guarded_check(solver, timeout_ms, *assumptions):
    """solver.check() under z3's own timeout. (Interrupting the context from a timer thread was
    tried for the cases where z3 overruns its timeout inside non-linear arithmetic: it corrupts
    the incremental solver - 'unreachable' errors and segmentation faults - and was dropped;
    the per-job deadline of the cli is the safety net instead.)"""
    solver.set("timeout", int(timeout_ms))
    return solver.check(*assumptions)


DEEP_CHECK = None  # set by pyvc.engine: (terms, timeout_ms) -> "sat" | "unsat" | "unknown"
DEEP_BUDGET_S = 150.0  # per contract run: total time for second-opinion feasibility checks


def _stage(c: Ctx, extra, k):
    """one stage of the feasibility portfolio for pc + axioms + extra:
    0 incremental solver 400 ms, 1 fresh solver 1.5 s, 2 linear abstraction (refutes only),
    3 incremental solver 3 s.  Returns 'sat' | 'unsat' | 'unknown'."""
    sc = _time_scale()
    if k in (0, 3):
        if k == 3 and c.memo.get("feas_hard"):
            return "unknown"
        s = _solver_of(c)
        s.push()
        try:
            s.add(extra)
            r = guarded_check(s, (400 if k == 0 else FEAS_TIMEOUT_MS) * sc)
        finally:
            s.pop()
    elif k == 1:
        # a fresh, non-incremental solver uses z3's full strategy (nlsat for pure NRA) and
        # often answers at once where the warmed-up incremental one gives up
        s1 = z3.Solver()
        s1.add(*c.pc)
        s1.add(*c.axioms)
        s1.add(extra)
        r = guarded_check(s1, 1500 * sc)
    else:
        r = z3.unknown
        if LINEAR_ABSTRACTION is not None:
            # a contradiction that is already visible when every product is an opaque value
            # (sound over-approximation) is found without non-linear machinery
            try:
                ab, nprod = LINEAR_ABSTRACTION(list(c.pc) + list(c.axioms) + [extra], som=False, rich=False)
                if nprod:
                    s0 = z3.Solver()
                    s0.add(*ab)
                    if guarded_check(s0, 1500 * sc) == z3.unsat:
                        r = z3.unsat
            except Exception:
                pass
    return "sat" if r == z3.sat else ("unsat" if r == z3.unsat else "unknown")


def _feasible3(c: Ctx, extra, cheap=False):
    """'sat' | 'unsat' | 'unknown' for pc + axioms + extra, staged and cheap"""
    r = "unknown"
    for k in ((0,) if cheap else (0, 1, 2, 3)):
        r = _stage(c, extra, k)
        if r != "unknown":
            break
    return r


def _fork(c: Ctx, term):
    """feasibility of both sides of a branch, stage by stage: as soon as one side is refuted the
    other one holds on every feasible path and needs no further work"""
    nt = z3.Not(term)
    rt = rf = "unknown"
    for k in (0, 1, 2, 3):
        if rt == "unknown":
            rt = _stage(c, term, k)
        if rf == "unknown":
            rf = _stage(c, nt, k)
        if rt == "unsat" or rf == "unsat" or (rt == "sat" and rf == "sat"):
            break
    if rt != "unsat" and rf != "unsat":
        # a real fork: an `unknown` side that is in fact infeasible would make every later
        # decision on that path a hard unsatisfiable query - ask for a second opinion
        if rt == "unknown":
            rt = _second_opinion(c, term)
        if rf == "unknown":
            rf = _second_opinion(c, nt)
    return rt, rf


def _second_opinion(c: Ctx, extra):
    """an `unknown` branch that is really infeasible makes every later branch decision on
    that path a hard unsatisfiable query (seconds of time-outs each, and spurious paths): ask
    once more with a larger budget and another solver, within a per-run allowance"""
    if DEEP_CHECK is None:
        return "unknown"
    used = c.memo.get("deep_used", 0.0)
    if used > DEEP_BUDGET_S * _time_scale():
        c.memo["feas_hard"] = True
        return "unknown"
    t0 = time.time()
    try:
        r = DEEP_CHECK(list(c.pc) + list(c.axioms) + [extra], 12000 * _time_scale())
    except Exception:
        r = "unknown"
    c.memo["deep_used"] = used + (time.time() - t0)
    return r


def _feasible(c: Ctx, extra):
    r = _feasible3(c, extra)
    if r == "unknown":
        r = _second_opinion(c, extra)
    return r != "unsat"  # unknown => explore (sound: more paths, never fewer)


def decide(term) -> bool:
    """branch on a z3 Bool"""
    st = z3.simplify(term)
    if z3.is_true(st):
        return True
    if z3.is_false(st):
        return False
    # keep the term as written: the simplifier turns `x*y >= 0` into a case analysis on the
    # signs of the factors, which hides the product from later (linear) reasoning
    c = ctx()
    k = len(c.taken)
    if k < len(c.forced):
        d = c.forced[k]
    else:
        rt, rf = _fork(c, term)
        can_t, can_f = rt != "unsat", rf != "unsat"
        if can_t and can_f:
            c.alternatives.append([*c.taken, False])
            d = True
        elif can_t:
            d = True
            c.pruned += 1
        elif can_f:
            d = False
            c.pruned += 1
        else:
            raise Infeasible()
    c.taken.append(d)
    c.pc.append(term if d else z3.Not(term))
    return d


def concretize(term, limit=None):
    """a symbolic integer is needed as a Python int (list repetition, range(), an index):
    case split over its feasible values under the current path condition.  Complete when
    the path condition bounds the term to at most CONCRETIZE_LIMIT values; otherwise
    Unsupported (=> undecided), never a silent restriction."""
    c = ctx()
    limit = limit or CONCRETIZE_LIMIT
    for _ in range(limit + 1):
        s = z3.Solver()
        s.add(*c.pc)
        s.add(*c.axioms)
        r = guarded_check(s, FEAS_TIMEOUT_MS * _time_scale())
        if r == z3.unsat:
            raise Infeasible()
        if r != z3.sat:
            raise Unsupported("cannot enumerate the values of a symbolic index (solver unknown)")
        k = s.model().eval(term, model_completion=True)
        if not z3.is_int_value(k):
            raise Unsupported("symbolic index without an integer model value")
        if decide(term == k):
            return k.as_long()
    raise Unsupported("symbolic value used as a Python index has more than %d feasible values" % limit)


CONCRETIZE_LIMIT = 12


# ----------------------------------------------------------------------------- scalars

_REAL = z3.RealSort()
_INT = z3.IntSort()


def _ratval(x):
    if isinstance(x, Fraction):
        return z3.RealVal(str(x.numerator)) / z3.RealVal(str(x.denominator)) if x.denominator != 1 else z3.RealVal(str(x.numerator))
    if isinstance(x, bool):
        return z3.RealVal(int(x))
    if isinstance(x, (int, _np.integer)):
        return z3.RealVal(int(x))
    if isinstance(x, (float, _np.floating)):
        f = float(x)
        if math.isnan(f) or math.isinf(f):
            raise Unsupported("non-finite float literal %r" % f)
        fr = Fraction(f)
        return z3.Q(fr.numerator, fr.denominator)
    raise TypeError(type(x))


class SBool:
    __slots__ = ("t",)

    def __init__(self, t):
        self.t = t

    def __bool__(self):
        return decide(self.t)

    def __and__(self, o):
        return sand(self, o)

    __rand__ = __and__

    def __or__(self, o):
        return sor(self, o)

    __ror__ = __or__

    def __invert__(self):
        return snot(self)

    def __xor__(self, o):
        return SBool(z3.Xor(self.t, tobool(o)))

    __rxor__ = __xor__

    def __eq__(self, o):
        if isinstance(o, (SBool, bool, _np.bool_)):
            return _mkbool(self.t == tobool(o))
        return NotImplemented

    def __ne__(self, o):
        if isinstance(o, (SBool, bool, _np.bool_)):
            return _mkbool(self.t != tobool(o))
        return NotImplemented

    def __hash__(self):
        return id(self)

    # arithmetic on bools (True == 1), used by sum() of masks
    def _num(self):
        return SNum(z3.If(self.t, z3.IntVal(1), z3.IntVal(0)))

    def __add__(self, o):
        return self._num() + o

    __radd__ = __add__

    def __mul__(self, o):
        return self._num() * o

    __rmul__ = __mul__

    def __sub__(self, o):
        return self._num() - o

    def __rsub__(self, o):
        return o - self._num()

    def __repr__(self):
        return "SBool(%s)" % (str(self.t)[:80])


def _mkbool(t):
    st = z3.simplify(t)
    if z3.is_true(st):
        return True
    if z3.is_false(st):
        return False
    return SBool(t if KEEP_TERMS else st)


KEEP_TERMS = True


def tobool(x):
    if isinstance(x, SBool):
        return x.t
    if isinstance(x, (bool, _np.bool_)):
        return z3.BoolVal(bool(x))
    if isinstance(x, SNum):
        return x.t != 0
    if isinstance(x, (int, float, _np.number)):
        return z3.BoolVal(bool(x))
    if z3.is_expr(x):
        return x
    raise TypeError("tobool %r" % type(x))


def sand(*xs):
    if all(isinstance(x, (bool, _np.bool_)) for x in xs):
        return all(xs)
    return _mkbool(z3.And(*[tobool(x) for x in xs]))


def sor(*xs):
    if all(isinstance(x, (bool, _np.bool_)) for x in xs):
        return any(xs)
    return _mkbool(z3.Or(*[tobool(x) for x in xs]))


def snot(x):
    if isinstance(x, (bool, _np.bool_)):
        return not x
    return _mkbool(z3.Not(tobool(x)))


def simplies(a, b):
    return sor(snot(a), b)


class SNum:
    """symbolic real or integer"""

    __slots__ = ("t",)

    def __init__(self, t):
        self.t = t

    @property
    def is_int(self):
        return self.t.sort() == _INT

    # -- lifting
    @staticmethod
    def lift(x):
        if isinstance(x, SNum):
            return x
        if isinstance(x, SBool):
            return x._num()
        if isinstance(x, (bool, _np.bool_)):
            return SNum(z3.IntVal(int(x)))
        if isinstance(x, (int, _np.integer)):
            return SNum(z3.IntVal(int(x)))
        if isinstance(x, (float, _np.floating, Fraction)):
            return SNum(_ratval(x))
        if isinstance(x, _np.ndarray) and x.ndim == 0:
            return SNum.lift(x.item())
        raise TypeError("cannot lift %r" % type(x))

    @staticmethod
    def _co(a, b):
        """coerce two z3 arithmetic terms to a common sort"""
        if a.sort() == b.sort():
            return a, b
        if a.sort() == _INT:
            a = z3.ToReal(a)
        if b.sort() == _INT:
            b = z3.ToReal(b)
        return a, b

    def _bin(self, o, f):
        try:
            o = SNum.lift(o)
        except TypeError:
            if isinstance(o, (list, tuple, _np.ndarray)) and ARRAY_FALLBACK is not None:
                # behave like a numpy scalar: scalar (op) sequence -> array
                return ARRAY_FALLBACK(o, lambda e: self._bin(e, f))
            return NotImplemented
        a, b = SNum._co(self.t, o.t)
        return SNum(f(a, b))

    def _rbin(self, o, f):
        try:
            o = SNum.lift(o)
        except TypeError:
            if isinstance(o, (list, tuple, _np.ndarray)) and ARRAY_FALLBACK is not None:
                return ARRAY_FALLBACK(o, lambda e: self._rbin(e, f))
            return NotImplemented
        a, b = SNum._co(o.t, self.t)
        return SNum(f(a, b))

    def real(self):
        return SNum(z3.ToReal(self.t)) if self.is_int else self

    def __add__(self, o):
        return self._bin(o, lambda a, b: a + b)

    def __radd__(self, o):
        return self._rbin(o, lambda a, b: a + b)

    def __sub__(self, o):
        return self._bin(o, lambda a, b: a - b)

    def __rsub__(self, o):
        return self._rbin(o, lambda a, b: a - b)

    def __mul__(self, o):
        if isinstance(o, (list, tuple)) and self.is_int:
            return o * self.__index__()  # numpy integer scalars defer to sequence repetition
        return self._bin(o, lambda a, b: a * b)

    def __rmul__(self, o):
        if isinstance(o, (list, tuple)) and self.is_int:
            return o * self.__index__()
        return self._rbin(o, lambda a, b: a * b)

    @staticmethod
    def _div(a, b):
        if a.sort() == _INT:
            a = z3.ToReal(a)
        if b.sort() == _INT:
            b = z3.ToReal(b)
        return a / b

    def __truediv__(self, o):
        return self._bin(o, SNum._div)

    def __rtruediv__(self, o):
        return self._rbin(o, SNum._div)

    @staticmethod
    def _floordiv(a, b):
        if a.sort() == _INT and b.sort() == _INT:
            # python floor division; z3 div is euclidean (floor for b > 0)
            return z3.If(b > 0, a / b, (-a) / (-b))
        q = a / b
        return z3.ToReal(z3.ToInt(q))  # ToInt is floor in z3

    def __floordiv__(self, o):
        return self._bin(o, SNum._floordiv)

    def __rfloordiv__(self, o):
        return self._rbin(o, SNum._floordiv)

    @staticmethod
    def _mod(a, b):
        if a.sort() == _INT and b.sort() == _INT:
            # python: result has the sign of b; z3 mod is euclidean (>= 0)
            m = a % b
            return z3.If(b > 0, m, z3.If(m == 0, m, m + b))
        q = z3.ToReal(z3.ToInt(a / b))
        return a - q * b

    def __mod__(self, o):
        return self._bin(o, SNum._mod)

    def __rmod__(self, o):
        return self._rbin(o, SNum._mod)

    def __neg__(self):
        return SNum(-self.t)

    def __pos__(self):
        return self

    def __abs__(self):
        return SNum(z3.If(self.t >= 0, self.t, -self.t))

    def __pow__(self, k):
        if isinstance(k, SNum):
            kk = z3.simplify(k.t)
            if z3.is_int_value(kk):
                k = kk.as_long()
            elif z3.is_rational_value(kk):
                k = float(kk.as_fraction())
            else:
                raise Unsupported("symbolic exponent")
        if isinstance(k, (float, _np.floating)) and float(k).is_integer():
            k = int(k)
        if isinstance(k, (int, _np.integer)):
            k = int(k)
            if k < 0:
                return 1.0 / (self ** (-k))
            r = SNum.lift(1)
            for _ in range(k):
                r = r * self
            return r if k > 0 else (SNum(z3.RealVal(1)) if not self.is_int else SNum(z3.IntVal(1)))
        if k == 0.5:
            return sym_sqrt(self)
        raise Unsupported("power %r" % (k,))

    def __rpow__(self, base):
        raise Unsupported("symbolic exponent")

    def _cmp(self, o, f):
        try:
            o = SNum.lift(o)
        except TypeError:
            return NotImplemented
        a, b = SNum._co(self.t, o.t)
        return _mkbool(f(a, b))

    def __lt__(self, o):
        return self._cmp(o, lambda a, b: a < b)

    def __le__(self, o):
        return self._cmp(o, lambda a, b: a <= b)

    def __gt__(self, o):
        return self._cmp(o, lambda a, b: a > b)

    def __ge__(self, o):
        return self._cmp(o, lambda a, b: a >= b)

    def __eq__(self, o):
        if o is None or isinstance(o, str):
            return False
        return self._cmp(o, lambda a, b: a == b)

    def __ne__(self, o):
        if o is None or isinstance(o, str):
            return True
        return self._cmp(o, lambda a, b: a != b)

    def __hash__(self):
        return id(self)

    def __bool__(self):
        return decide(self.t != 0)

    def __float__(self):
        v = z3.simplify(self.t)
        if z3.is_rational_value(v):
            return float(v.as_fraction())
        raise Unsupported("float() of a symbolic value")

    def __int__(self):
        v = z3.simplify(self.t)
        if z3.is_int_value(v):
            return v.as_long()
        raise Unsupported("int() of a symbolic value")

    def __index__(self):
        v = z3.simplify(self.t)
        if z3.is_int_value(v):
            return v.as_long()
        if self.is_int:
            return concretize(self.t)
        raise Unsupported("symbolic value used as a Python index")

    def __round__(self, nd=None):
        if nd:
            raise Unsupported("round(x, n)")
        return sym_round(self)

    def __repr__(self):
        return "SNum(%s)" % (str(self.t)[:80])

    # numpy object-loop fallbacks (np.sqrt on a plain object array calls x.sqrt())
    def sqrt(self):
        return sym_sqrt(self)

    def sin(self):
        return sym_sin(self)

    def cos(self):
        return sym_cos(self)

    def conjugate(self):
        return self

    def item(self):
        return self

    def copy(self):
        return self

    # pretend-ndarray scalars
    shape = ()
    ndim = 0
    size = 1

    def astype(self, dt, **kw):
        return cast_scalar(self, dt)


def is_sym(x):
    return isinstance(x, (SNum, SBool))


def ite(c, a, b):
    """if-then-else on scalars (symbolic or concrete)"""
    if isinstance(c, (bool, _np.bool_)):
        return a if c else b
    ct = tobool(c)
    if isinstance(a, (SBool, bool, _np.bool_)) and isinstance(b, (SBool, bool, _np.bool_)):
        return _mkbool(z3.If(ct, tobool(a), tobool(b)))
    a = SNum.lift(a)
    b = SNum.lift(b)
    x, y = SNum._co(a.t, b.t)
    return SNum(z3.simplify(z3.If(ct, x, y)))


def cast_scalar(x, dt):
    """astype for one element; dt is a numpy dtype (or None)"""
    if dt is None:
        return x
    dt = _np.dtype(dt)
    if dt.kind == "O":
        return x
    if dt.kind == "f":
        if isinstance(x, SNum):
            return x.real()
        if isinstance(x, SBool):
            return x._num().real()
        return float(x)
    if dt.kind in "iu":
        if isinstance(x, SNum):
            if x.is_int:
                return x
            return sym_trunc(x)
        if isinstance(x, SBool):
            return x._num()
        return int(x)
    if dt.kind == "b":
        if isinstance(x, SNum):
            return _mkbool(x.t != 0)
        if isinstance(x, SBool):
            return x
        return bool(x)
    raise Unsupported("cast to %s" % dt)


# ----------------------------------------------------------------------------- functions


def _key(t):
    return t.get_id()


def sym_sqrt(x):
    if not isinstance(x, SNum):
        if isinstance(x, SBool):
            x = x._num()
        else:
            return math.sqrt(x) if x >= 0 else float("nan")
    c = ctx()
    t = z3.simplify(x.real().t)
    if z3.is_rational_value(t):
        f = t.as_fraction()
        # exact roots stay exact
        import math as _m

        n, d = f.numerator, f.denominator
        if n >= 0:
            rn, rd = _m.isqrt(n), _m.isqrt(d)
            if rn * rn == n and rd * rd == d:
                return SNum(_ratval(Fraction(rn, rd)))
    k = ("sqrt", _key(t))
    if k in c.memo:
        return SNum(c.memo[k][1])
    r = c.fresh(_REAL, "sqrt")
    c.memo[k] = (t, r)  # keep t alive (ids are only unique for live terms)
    c.axiom(z3.Implies(t >= 0, z3.And(r >= 0, r * r == t)))
    return SNum(r)


def sym_cbrt(x):
    if not isinstance(x, SNum):
        return math.copysign(abs(x) ** (1.0 / 3.0), x)
    c = ctx()
    t = z3.simplify(x.real().t)
    k = ("cbrt", _key(t))
    if k in c.memo:
        return SNum(c.memo[k][1])
    r = c.fresh(_REAL, "cbrt")
    c.memo[k] = (t, r)
    c.axiom(r * r * r == t)
    return SNum(r)


def _split_coeff(t):
    """t == q * base with q rational; returns (q, base)"""
    t = z3.simplify(t)
    if z3.is_app_of(t, z3.Z3_OP_UMINUS):
        q, b = _split_coeff(t.arg(0))
        return -q, b
    if z3.is_app_of(t, z3.Z3_OP_MUL) and t.num_args() == 2 and z3.is_rational_value(t.arg(0)):
        q, b = _split_coeff(t.arg(1))
        return t.arg(0).as_fraction() * q, b
    if z3.is_app_of(t, z3.Z3_OP_DIV) and z3.is_rational_value(t.arg(1)) and t.arg(1).as_fraction() != 0:
        q, b = _split_coeff(t.arg(0))
        return q / t.arg(1).as_fraction(), b
    return Fraction(1), t


def _trig_pair(t):
    """(sin, cos) z3 terms for angle term t, with Pythagoras and multiple-angle links"""
    c = ctx()
    t = z3.simplify(t)
    if z3.is_rational_value(t):
        f = float(t.as_fraction())
        return _ratval(math.sin(f)), _ratval(math.cos(f))
    q, base = _split_coeff(t)
    sign = 1
    if q < 0:
        q, sign = -q, -1
    reg = c.memo.setdefault("trig", {})
    bk = _key(base)
    ent = reg.setdefault(bk, {"base": base, "pairs": {}})
    pairs = ent["pairs"]
    if q not in pairs:
        s = c.fresh(_REAL, "sin")
        co = c.fresh(_REAL, "cos")
        c.axiom(s * s + co * co == 1)
        # link to half / double angle entries of the same base
        for q2, (s2, c2) in list(pairs.items()):
            if q2 * 2 == q:  # new = double of existing
                c.axiom(z3.And(s == 2 * s2 * c2, co == c2 * c2 - s2 * s2))
            elif q * 2 == q2:  # existing = double of new
                c.axiom(z3.And(s2 == 2 * s * co, c2 == co * co - s * s))
        pairs[q] = (s, co)
    s, co = pairs[q]
    return (s if sign > 0 else -s), co


def register_angle(theta, s, co):
    """declare that angle term theta has sine s and cosine co (used by atan2 & co)"""
    c = ctx()
    reg = c.memo.setdefault("trig", {})
    ent = reg.setdefault(_key(theta), {"base": theta, "pairs": {}})
    ent["pairs"][Fraction(1)] = (s, co)


def sym_sin(x):
    if not isinstance(x, SNum):
        return math.sin(x)
    return SNum(_trig_pair(x.real().t)[0])


def sym_cos(x):
    if not isinstance(x, SNum):
        return math.cos(x)
    return SNum(_trig_pair(x.real().t)[1])


def sym_tan(x):
    if not isinstance(x, SNum):
        return math.tan(x)
    s, c = _trig_pair(x.real().t)
    return SNum(s / c)


def sym_pi():
    c = ctx()
    if "pi" not in c.memo:
        p = z3.Real("PI")
        c.memo["pi"] = p
        c.axiom(z3.And(p > z3.Q(314159265, 100000000), p < z3.Q(314159266, 100000000)))
    return c.memo["pi"]


def sym_arctan2(y, x):
    if not is_sym(y) and not is_sym(x):
        return math.atan2(y, x)
    c = ctx()
    y = SNum.lift(y).real().t
    x = SNum.lift(x).real().t
    th = c.fresh(_REAL, "atan2")
    s = c.fresh(_REAL, "sin")
    co = c.fresh(_REAL, "cos")
    r = c.fresh(_REAL, "hyp")
    pi = sym_pi()
    c.axiom(z3.And(r >= 0, r * r == x * x + y * y, s * s + co * co == 1, th >= -pi, th <= pi))
    c.axiom(z3.If(r == 0, z3.And(th == 0, s == 0, co == 1), z3.And(r * s == y, r * co == x)))
    c.axiom(z3.Implies(y > 0, th > 0))
    c.axiom(z3.Implies(y < 0, th < 0))
    c.axiom(z3.Implies(z3.And(y == 0, x >= 0), th == 0))
    c.axiom(z3.Implies(z3.And(y == 0, x < 0), th == pi))
    register_angle(th, s, co)
    return SNum(th)


def sym_arccos(x):
    if not is_sym(x):
        return math.acos(x)
    c = ctx()
    x = SNum.lift(x).real().t
    th = c.fresh(_REAL, "acos")
    s = c.fresh(_REAL, "sin")
    pi = sym_pi()
    c.axiom(z3.Implies(z3.And(x >= -1, x <= 1), z3.And(s >= 0, s * s + x * x == 1, th >= 0, th <= pi)))
    c.axiom(z3.Implies(x == 1, th == 0))
    register_angle(th, s, x)
    return SNum(th)


def sym_arcsin(x):
    if not is_sym(x):
        return math.asin(x)
    c = ctx()
    x = SNum.lift(x).real().t
    th = c.fresh(_REAL, "asin")
    co = c.fresh(_REAL, "cos")
    pi = sym_pi()
    c.axiom(z3.Implies(z3.And(x >= -1, x <= 1), z3.And(co >= 0, co * co + x * x == 1, 2 * th >= -pi, 2 * th <= pi)))
    register_angle(th, x, co)
    return SNum(th)


def sym_floor(x):
    if not isinstance(x, SNum):
        return math.floor(x)
    if x.is_int:
        return x
    return SNum(z3.ToInt(x.t))


def sym_ceil(x):
    if not isinstance(x, SNum):
        return math.ceil(x)
    if x.is_int:
        return x
    return SNum(-z3.ToInt(-x.t))


def sym_trunc(x):
    """float -> int conversion (toward zero)"""
    if not isinstance(x, SNum):
        return int(x)
    if x.is_int:
        return x
    return SNum(z3.If(x.t >= 0, z3.ToInt(x.t), -z3.ToInt(-x.t)))


def sym_round(x):
    """round half to even, as numpy/python; returns an Int-sorted SNum"""
    if not isinstance(x, SNum):
        return round(x)
    if x.is_int:
        return x
    t = x.t
    f = z3.ToInt(t)
    frac = t - z3.ToReal(f)
    half = z3.Q(1, 2)
    return SNum(z3.If(frac < half, f, z3.If(frac > half, f + 1, z3.If(f % 2 == 0, f, f + 1))))


def sym_sign(x):
    if not isinstance(x, SNum):
        return (x > 0) - (x < 0)
    one = z3.IntVal(1) if x.is_int else z3.RealVal(1)
    return SNum(z3.If(x.t > 0, one, z3.If(x.t < 0, -one, one - one)))


def sym_max(a, b):
    if not is_sym(a) and not is_sym(b):
        return a if a >= b else b
    return ite(SNum.lift(a) >= b, a, b)


def sym_min(a, b):
    if not is_sym(a) and not is_sym(b):
        return a if a <= b else b
    return ite(SNum.lift(a) <= b, a, b)


# ----------------------------------------------------------------------------- explorer


class Path:
    def __init__(self, c: Ctx, result=None, exc=None):
        self.ctx = c
        self.result = result
        self.exc = exc


def explore(fn, max_paths=4096):
    """run fn() along every feasible decision sequence; returns list[Path]"""
    global CUR
    work = [[]]
    paths = []
    pruned = 0
    while work:
        forced = work.pop()
        c = Ctx(forced)
        CUR = c
        try:
            try:
                res = fn()
                paths.append(Path(c, result=res))
            except Infeasible:
                pruned += 1
            except (Unsupported, PathLimit):
                raise
            except RecursionError:
                raise
            except Exception as e:
                # an ordinary exception raised by repository code is a path outcome; one
                # raised from inside the verifier (shim / contract text) is a tool limit
                import traceback as _tb

                frames = _tb.extract_tb(e.__traceback__)
                inner = frames[-1].filename if frames else ""
                if getattr(e, "_pyvc_modelled", False):
                    pass
                elif "/pyvc/" in inner or "/contracts/" in inner or "site-packages/numpy" in inner or isinstance(e, ImportError):
                    where = " | ".join("%s:%d %s" % (f.filename.rsplit("/", 1)[-1], f.lineno, f.name) for f in frames[-5:])
                    raise Unsupported("%s: %s [%s]" % (type(e).__name__, e, where)) from e
                paths.append(Path(c, exc=e))
        finally:
            CUR = None
            for mod, attr, old in reversed(c.memo.get("stub_undo", [])):
                setattr(mod, attr, old)
        work.extend(c.alternatives)
        if len(paths) > max_paths:
            raise PathLimit("more than %d paths" % max_paths)
    return paths, pruned


# ----------------------------------------------------------------------------- 64-bit machine integers


class SBV:
    """numpy int64 / uint64 element with wrap-around semantics (z3 BitVec(64))"""

    __slots__ = ("t", "signed")
    W = 64

    def __init__(self, t, signed=True):
        self.t = t
        self.signed = signed

    @staticmethod
    def _fits(k, signed):
        return (-(2**63) <= k < 2**63) if signed else (0 <= k < 2**64)

    def _lift(self, o, for_cmp=False):
        if isinstance(o, SBV):
            return o.t
        if isinstance(o, (bool, _np.bool_)):
            o = int(o)
        if isinstance(o, (int, _np.integer)):
            k = int(o)
            if not SBV._fits(k, self.signed):
                # NEP 50: a Python int that does not fit the array dtype
                raise modelled(OverflowError("Python integer %d out of bounds for %s" % (k, "int64" if self.signed else "uint64")))
            return z3.BitVecVal(k, 64)
        raise TypeError("SBV with %r" % type(o))

    def _bin(self, o, f):
        try:
            b = self._lift(o)
        except TypeError:
            return NotImplemented
        sg = self.signed and (o.signed if isinstance(o, SBV) else True)
        return SBV(f(self.t, b), sg)

    def __add__(self, o):
        return self._bin(o, lambda a, b: a + b)

    __radd__ = __add__

    def __sub__(self, o):
        return self._bin(o, lambda a, b: a - b)

    def __rsub__(self, o):
        return self._bin(o, lambda a, b: b - a)

    def __mul__(self, o):
        return self._bin(o, lambda a, b: a * b)

    __rmul__ = __mul__

    def __neg__(self):
        return SBV(-self.t, self.signed)

    def __xor__(self, o):
        return self._bin(o, lambda a, b: a ^ b)

    __rxor__ = __xor__

    def __and__(self, o):
        return self._bin(o, lambda a, b: a & b)

    __rand__ = __and__

    def __or__(self, o):
        return self._bin(o, lambda a, b: a | b)

    __ror__ = __or__

    def __invert__(self):
        return SBV(~self.t, self.signed)

    def __lshift__(self, k):
        if isinstance(k, SBV):
            raise Unsupported("symbolic shift amount")
        k = int(k)
        if k < 0:
            raise Unsupported("negative shift")
        if k >= 64:
            return SBV(z3.BitVecVal(0, 64), self.signed)
        return SBV(self.t << k, self.signed)

    def __rshift__(self, k):
        k = int(k)
        if k >= 64:
            k = 63 if self.signed else 64
        if self.signed:
            return SBV(self.t >> k, True)
        return SBV(z3.LShR(self.t, k), False)

    def _cmp(self, o, sf, uf, big_true, small_true):
        """compare with numpy semantics; python ints outside the dtype range compare exactly"""
        if isinstance(o, (int, _np.integer)) and not isinstance(o, bool):
            k = int(o)
            if not SBV._fits(k, self.signed):
                hi = k >= (2**63 if self.signed else 2**64)
                return big_true if hi else small_true
        try:
            b = self._lift(o)
        except TypeError:
            return NotImplemented
        if isinstance(o, SBV) and o.signed != self.signed:
            raise Unsupported("mixed signed/unsigned comparison")
        return _mkbool(sf(self.t, b) if self.signed else uf(self.t, b))

    def __lt__(self, o):
        return self._cmp(o, lambda a, b: a < b, z3.ULT, True, False)

    def __le__(self, o):
        return self._cmp(o, lambda a, b: a <= b, z3.ULE, True, False)

    def __gt__(self, o):
        return self._cmp(o, lambda a, b: a > b, z3.UGT, False, True)

    def __ge__(self, o):
        return self._cmp(o, lambda a, b: a >= b, z3.UGE, False, True)

    def __eq__(self, o):
        if o is None:
            return False
        return self._cmp(o, lambda a, b: a == b, lambda a, b: a == b, False, False)

    def __ne__(self, o):
        if o is None:
            return True
        return self._cmp(o, lambda a, b: a != b, lambda a, b: a != b, True, True)

    def __hash__(self):
        return id(self)

    def __bool__(self):
        return decide(self.t != 0)

    def __index__(self):
        v = z3.simplify(self.t)
        if z3.is_bv_value(v):
            return v.as_signed_long() if self.signed else v.as_long()
        raise Unsupported("symbolic machine integer used as a Python index")

    __int__ = __index__

    def astype(self, dt, **kw):
        return cast_scalar(self, dt)

    def __repr__(self):
        return "SBV(%s,%s)" % (str(self.t)[:60], "i64" if self.signed else "u64")


class SVoid:
    """one element of a np.void view over a row of integers: equal iff all bytes equal"""

    __slots__ = ("items",)

    def __init__(self, items):
        self.items = tuple(items)

    def __eq__(self, o):
        if not isinstance(o, SVoid) or len(o.items) != len(self.items):
            return False
        return sand(*[a == b for a, b in zip(self.items, o.items)])

    def __ne__(self, o):
        return snot(self.__eq__(o))

    def __hash__(self):
        return id(self)


_old_cast_scalar = cast_scalar


def cast_scalar(x, dt):  # noqa: F811
    if isinstance(x, SBV):
        if dt is None:
            return x
        dt = _np.dtype(dt)
        if dt == _np.dtype("int64"):
            return SBV(x.t, True)
        if dt == _np.dtype("uint64"):
            return SBV(x.t, False)
        if dt.kind == "O":
            return x
        raise Unsupported("cast of a 64-bit machine integer to %s" % dt)
    return _old_cast_scalar(x, dt)


_old_ite = ite


def ite(c, a, b):  # noqa: F811
    if isinstance(a, SBV) or isinstance(b, SBV):
        if isinstance(c, (bool, _np.bool_)):
            return a if c else b
        ref = a if isinstance(a, SBV) else b
        return SBV(z3.If(tobool(c), ref._lift(a), ref._lift(b)), ref.signed)
    return _old_ite(c, a, b)


def sym_max(a, b):  # noqa: F811
    if not is_sym(a) and not is_sym(b):
        return a if a >= b else b
    return ite(a >= b, a, b)


def sym_min(a, b):  # noqa: F811
    if not is_sym(a) and not is_sym(b):
        return a if a <= b else b
    return ite(a <= b, a, b)


def is_sym(x):  # noqa: F811
    return isinstance(x, (SNum, SBool, SBV))
