"""witness: Trimesh.invert() after face_normals was read (exit 1 = stale normals)"""
import sys
import numpy as np
import trimesh

m = trimesh.creation.box()
_ = m.face_normals
m.invert()
f = trimesh.Trimesh(m.vertices.copy(), m.faces.copy(), process=False)
if not np.allclose(m.face_normals, f.face_normals):
    print("face_normals after invert() differ from a freshly built mesh")
    sys.exit(1)
print("ok")
