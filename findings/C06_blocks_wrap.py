"""witness: grouping.blocks(wrap=True) ignores max_len for the run that wraps around (exit 1 = reproduces)"""
import sys

import numpy as np
from trimesh import grouping

bad = []
got = [b.tolist() for b in grouping.blocks(np.array([0, 0, 0, 1, 0]), min_len=1, max_len=3, wrap=True)]
if any(len(b) > 3 for b in got):
    bad.append("blocks([0,0,0,1,0], min_len=1, max_len=3, wrap=True) returns %s: a block longer than max_len" % got)
got = [b.tolist() for b in grouping.blocks(np.array([1, 0, 1, 1, 1, 1]), min_len=1, max_len=3, wrap=True)]
if [0] in got:
    bad.append("blocks([1,0,1,1,1,1], max_len=3, wrap=True) returns %s: index 0 belongs to a ring run of length 5" % got)
if bad:
    print("reproduces:", "; ".join(bad))
    sys.exit(1)
print("ok")
