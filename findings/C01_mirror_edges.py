"""witness: apply_transform(mirror) after edges were read (exit 1 = stale per-edge values)"""
import sys
import numpy as np
import trimesh

bad = []
for mk in (trimesh.creation.box, lambda: trimesh.Trimesh([[0, 0, 0], [1, 0, 0], [1, 1, 0], [0, 1, 0.2]], [[0, 1, 2], [0, 2, 3]], process=False)):
    m = mk()
    _ = (m.edges, m.edges_sorted, m.edges_unique, m.edges_unique_inverse, m.faces_unique_edges, m.edges_sparse)
    m.apply_transform(np.diag([-1.0, 1, 1, 1]))
    f = trimesh.Trimesh(m.vertices.copy(), m.faces.copy(), process=False)
    for k in ("edges", "edges_sorted", "edges_unique", "edges_unique_inverse", "faces_unique_edges"):
        if not np.array_equal(getattr(m, k), getattr(f, k)):
            bad.append(k)
    if abs(m.edges_sparse - f.edges_sparse).sum() != 0:
        bad.append("edges_sparse")
if bad:
    print("stale after mirror transform:", sorted(set(bad)))
    sys.exit(1)
print("ok")
