"""witnesses for the C08 findings; usage: C08_witness.py <finding id>  (exit 1 = reproduces)"""
import io
import sys
import warnings

warnings.simplefilter("ignore")
import numpy as np
import trimesh
import trimesh.transformations as tf

which = sys.argv[1]
bad = []
if which == "C08-ply-ascii-face-colours":
    m = trimesh.creation.box()
    c = np.zeros((12, 4), dtype=np.uint8)
    c[:, 0] = np.arange(12) * 20
    c[:, 3] = 255
    m.visual.face_colors = c
    r = trimesh.load(io.BytesIO(m.export(file_type="ply", encoding="ascii")), file_type="ply", process=False)
    if r.visual.kind != "face" or not np.array_equal(r.visual.face_colors, c):
        bad.append("ascii PLY export drops the face colours the binary export keeps (visual kind after reload: %r)" % (r.visual.kind,))
elif which == "C08-3mf-flat-instances":
    s = trimesh.Scene()
    s.add_geometry(trimesh.creation.box(), node_name="b0", geom_name="box", transform=tf.translation_matrix([1.0, 0, 0]))
    s.graph.update(frame_to="b1", matrix=tf.translation_matrix([0, 3.0, 0]), geometry="box")
    r = trimesh.load(io.BytesIO(s.export(file_type="3mf")), file_type="3mf", force="scene", process=False)
    if len(r.graph.nodes_geometry) != 2:
        bad.append("3MF export of a scene with two instances on the base frame reloads with %d instances" % len(r.graph.nodes_geometry))
elif which == "C08-3mf-node-with-children":
    s = trimesh.Scene()
    s.add_geometry(trimesh.creation.box(), node_name="a", geom_name="box", transform=tf.rotation_matrix(0.7, [1, 2, 3]))
    s.add_geometry(trimesh.creation.icosphere(subdivisions=0), node_name="b", geom_name="ico", parent_node_name="a", transform=tf.translation_matrix([2.0, 0, 0]))
    r = trimesh.load(io.BytesIO(s.export(file_type="3mf")), file_type="3mf", force="scene", process=False)
    got = sorted(r.graph[n][1] for n in r.graph.nodes_geometry)
    if got != ["box", "ico"]:
        bad.append("3MF export loses the geometry of a node that has children: instances after reload %r" % (got,))
elif which == "C08-ply-ascii-empty":
    try:
        trimesh.Trimesh().export(file_type="ply", encoding="ascii")
    except ValueError as ex:
        bad.append("ascii PLY export of an empty mesh raises %r (binary works)" % (ex,))
elif which == "C08-gltf-merge-buffers-empty":
    from trimesh import resolvers

    d = trimesh.Trimesh().export(file_type="gltf", merge_buffers=True)

    class _R(resolvers.Resolver):
        def __init__(self):
            pass

        def get(self, name):
            return d[name]

        def namespaced(self, ns):
            return self

        def keys(self):
            return d.keys()

        def write(self, name, data):
            d[name] = data

    try:
        trimesh.load(io.BytesIO(d["model.gltf"]), file_type="gltf", resolver=_R())
    except KeyError as ex:
        bad.append("glTF export with merge_buffers of an empty scene writes a zero-length buffer that the loader rejects with KeyError %s" % ex)
else:
    print("unknown finding", which)
    sys.exit(3)
if bad:
    print("reproduces:", "; ".join(bad))
    sys.exit(1)
print("ok")
