"""witness for the C02 findings: replays the listed (route, alias configuration) histories on
the real TrackedArray; exit 1 when at least one still returns a stale hash.
usage: C02_stale_routes.py <finding id>"""
import json
import os
import sys

V = os.path.dirname(os.path.dirname(os.path.abspath(__file__)))
sys.path.insert(0, V)
if os.environ.get("VERIF_REPO"):
    sys.path.insert(0, os.environ["VERIF_REPO"])
from contracts import C02  # noqa: E402

fid = sys.argv[1]
entry = next(f for f in json.load(open(os.path.join(V, "known_findings.json")))["findings"] if f["id"] == fid)
stale = []
for ob in entry["obligations"]:
    route, config = ob[len("C02/route/") :].rstrip("]").split("[")
    try:
        bad, _ = C02.run_real(route, config)
    except Exception:
        bad = False
    if bad:
        stale.append(ob)
print("%d of %d listed histories still return a stale hash, e.g. %s" % (len(stale), len(entry["obligations"]), stale[:2]))
sys.exit(1 if stale else 0)
