"""witnesses for the C04 findings; usage: C04_witness.py <finding id>  (exit 1 = reproduces)"""
import sys
import warnings

warnings.simplefilter("ignore")
import numpy as np
import trimesh

which = sys.argv[1]
bad = []
if which == "C04-inertia-with-overridden-centre":
    m = trimesh.creation.box(extents=[1.0, 2.0, 3.0])
    m.center_mass = [0.25, -0.5, 1.0]
    I0 = m.moment_inertia.copy()
    m.apply_translation([3.0, -2.0, 0.5])
    d = float(np.abs(m.moment_inertia - I0).max())
    if d > 1e-9:
        bad.append("moment_inertia about an overridden centre of mass changes by %.3g under a pure translation" % d)
else:
    print("unknown finding", which)
    sys.exit(3)
if bad:
    print("reproduces:", "; ".join(bad))
    sys.exit(1)
print("ok")
