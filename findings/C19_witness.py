"""witnesses for the C19 findings; usage: C19_witness.py <finding id>  (exit 1 = reproduces)"""
import sys
import warnings

warnings.simplefilter("ignore")
import numpy as np
import trimesh.transformations as tf

which = sys.argv[1]
bad = []
if which == "C19-decompose-gimbal-lock":
    s = [2.1009058498752826, 1.4710218526651504, 2.5794321697587907]
    sh = [0.7040321803921579, -0.13896008801657334, -0.7416814275020245]
    an = [2.0791255737408036, -np.pi / 2, 0.35597580453393096]
    M = tf.compose_matrix(scale=s, shear=sh, angles=an)
    s2, sh2, an2, t2, p2 = tf.decompose_matrix(M)
    M2 = tf.compose_matrix(scale=s2, shear=sh2, angles=an2, translate=t2, perspective=p2)
    d = float(np.abs(M2 - M).max())
    if d > 1e-8:
        bad.append("decompose_matrix at pitch -pi/2 with shear: recomposed matrix differs by %.3g (angles %s)" % (d, [round(float(a), 6) for a in an2]))
else:
    print("unknown finding", which)
    sys.exit(3)
if bad:
    print("reproduces:", "; ".join(bad))
    sys.exit(1)
print("ok")
