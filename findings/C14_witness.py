"""witnesses for the C14 findings; usage: C14_witness.py <finding id>  (exit 1 = reproduces)"""
import math
import sys
import warnings
import numpy as np
import trimesh
from trimesh.path.entities import Arc

warnings.simplefilter("ignore")
which = sys.argv[1]
bad = []
if which == "C14-arc-length-doubled":
    v = np.array([[2, 0], [0, 2], [-2, 0], [0, -2]], float)
    p = trimesh.path.Path2D(entities=[Arc([0, 1, 2]), Arc([2, 3, 0])], vertices=v)
    if abs(p.length - 4 * math.pi) > 1e-6:
        bad.append("a circle of radius 2 drawn as two arcs has length %.4f, expected %.4f" % (p.length, 4 * math.pi))
elif which == "C14-dict-roundtrip":
    sq = trimesh.load_path(np.array([[0, 0], [1, 0], [1, 1], [0, 0]], float))
    try:
        q = trimesh.load_path(sq.to_dict())
        if abs(q.area - sq.area) > 1e-12:
            bad.append("dict round trip changes the area")
    except Exception as ex:  # noqa: BLE001
        bad.append("load_path(path.to_dict()) raises %s: %s" % (type(ex).__name__, ex))
else:
    print("unknown finding", which)
    sys.exit(3)
if bad:
    print("reproduces:", "; ".join(bad))
    sys.exit(1)
print("ok")
