"""witness: revolved shapes placed with a mirroring transform must stay positive-volume solids (exit 1 = reproduces)"""
import sys
import numpy as np
import trimesh

M = np.diag([-1.0, 1, 1, 1])
bad = []
for name, f in (("cylinder", lambda T: trimesh.creation.cylinder(radius=1, height=2, transform=T)), ("torus", lambda T: trimesh.creation.torus(2, 0.5, transform=T)), ("capsule", lambda T: trimesh.creation.capsule(transform=T)), ("cone", lambda T: trimesh.creation.cone(1, 2, transform=T)), ("primitives.Cylinder", lambda T: trimesh.primitives.Cylinder(transform=T))):
    m = f(M)
    if not (m.volume > 0 and m.is_volume):
        bad.append("%s volume %.3f" % (name, m.volume))
if bad:
    print("mirrored placement gives inside-out meshes:", "; ".join(bad))
    sys.exit(1)
print("ok")
