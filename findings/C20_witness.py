"""witnesses for the C20 findings; usage: C20_witness.py <finding id>  (exit 1 = reproduces)"""
import io
import os
import struct
import sys
import tempfile
import warnings

warnings.simplefilter("ignore")
import numpy as np
import trimesh

which = sys.argv[1]
bad = []
if which == "C20-stl-count-wraparound":
    from trimesh.exchange import stl

    data = b"\x00" * 80 + struct.pack("<I", 2**31 + 1) + b"\x00" * 50
    real = stl.np.arange
    seen = {}

    class _NP:
        def __getattr__(self, name):
            if name == "arange":
                def guarded(*a, **k):
                    seen["n"] = int(a[0])
                    raise RuntimeError("allocation sized by the header field: %d" % seen["n"])
                return guarded
            return getattr(np, name)

    stl.np = _NP()
    try:
        try:
            stl.load_stl_binary(io.BytesIO(data))
        except stl.HeaderError:
            pass
        except RuntimeError as ex:
            bad.append("binary STL with count 2**31+1 and 50 data bytes passes the length check (uint32 wrap-around): %s" % ex)
    finally:
        stl.np = np
elif which == "C20-load-path-handle":
    d = tempfile.mkdtemp()
    fp = os.path.join(d, "a.svg")
    p = trimesh.load_path(np.array([[0, 0], [1, 0], [1, 1], [0, 0]], float))
    open(fp, "w").write(p.export(file_type="svg"))
    q = trimesh.load_path(fp)
    fobj = getattr(q._source, "file_obj", None)
    if fobj is not None and not fobj.closed:
        bad.append("trimesh.load_path(path) leaves the file it opened open (%r)" % (fobj,))
else:
    print("unknown finding", which)
    sys.exit(3)
if bad:
    print("reproduces:", "; ".join(bad))
    sys.exit(1)
print("ok")
