"""witness: r-tree ray back end with a non-unit direction must not lose the hit next to the origin (exit 1 = reproduces)"""
import sys
import numpy as np
import trimesh
from trimesh.ray import ray_triangle

m = trimesh.creation.box()
r = ray_triangle.RayMeshIntersector(m)
loc = r.intersects_location([[0, 0, -0.505]], [[0, 0, 1000.0]])[0]
z = sorted(np.round(loc[:, 2], 6).tolist())
if z != [-0.5, 0.5]:
    print("ray from z=-0.505 along (0,0,1000) through the unit box: hits at z=%s, expected [-0.5, 0.5]" % z)
    sys.exit(1)
print("ok")
