"""witnesses for the C10 findings; usage: C10_witness.py <finding id>  (exit 1 = reproduces)"""
import sys
import warnings
import numpy as np
import trimesh
import trimesh.transformations as tf

warnings.simplefilter("ignore")
which = sys.argv[1]
bad = []


def baked(s):
    return s.to_mesh()


if which == "C10-scene-measures-ignore-scale":
    s = trimesh.Scene()
    b = trimesh.creation.box()
    s.add_geometry(b, transform=np.diag([2.0, 2, 2, 1]))
    s.add_geometry(b, transform=tf.translation_matrix([5.0, 0, 0]))
    m = baked(s)
    if not np.isclose(s.volume, m.volume) or not np.isclose(s.area, m.area) or not np.allclose(s.center_mass, m.center_mass):
        bad.append("Scene.volume/area/center_mass %s %s %s vs baked %s %s %s" % (s.volume, s.area, s.center_mass, m.volume, m.area, m.center_mass))
elif which == "C10-center-mass-nonmesh":
    s = trimesh.Scene()
    s.add_geometry(trimesh.creation.box())
    s.add_geometry(trimesh.PointCloud(np.random.default_rng(0).random((4, 3))))
    try:
        s.center_mass
    except KeyError as e:
        bad.append("Scene.center_mass raises KeyError %s when a point cloud is in the scene" % e)
elif which == "C10-triangles-mirror-winding":
    s = trimesh.Scene()
    s.add_geometry(trimesh.creation.box(), transform=np.diag([-1.0, 1, 1, 1]))
    t = s.triangles
    n = np.cross(t[:, 1] - t[:, 0], t[:, 2] - t[:, 0])
    outward = (n * (t.mean(axis=1) - t.reshape(-1, 3).mean(axis=0))).sum(axis=1)
    if (outward < 0).any():
        bad.append("Scene.triangles of a mirrored instance are wound inwards (the dumped mesh is not)")
elif which == "C10-inertia-scaled-nodes":
    s = trimesh.Scene()
    s.add_geometry(trimesh.creation.box(extents=[1, 2, 3]), transform=tf.scale_matrix(2.0))
    m = baked(s)
    if not np.allclose(s.moment_inertia, m.moment_inertia, rtol=1e-6):
        bad.append("Scene.moment_inertia ignores the s^5 scale law of a scaled node: %s vs baked %s" % (np.diag(s.moment_inertia).round(3), np.diag(m.moment_inertia).round(3)))
elif which == "C10-scaled-per-axis-nested":
    s = trimesh.Scene()
    s.add_geometry(trimesh.creation.box(extents=[1, 2, 3]), node_name="a", geom_name="box", transform=tf.rotation_matrix(0.7, [1, 2, 3], [0.5, 0, 0]))
    s.add_geometry(trimesh.creation.icosphere(subdivisions=1), node_name="b", geom_name="ico", parent_node_name="a", transform=tf.translation_matrix([2.0, -1.0, 0.5]))
    want = s.to_mesh().vertices * [2.0, 1.0, 1.0]
    got = s.scaled([2.0, 1.0, 1.0]).to_mesh().vertices
    a = np.array(sorted(map(tuple, want.round(6).tolist())))
    b = np.array(sorted(map(tuple, got.round(6).tolist())))
    if a.shape != b.shape or np.abs(a - b).max() > 1e-5:
        bad.append("Scene.scaled([2,1,1]) under a rotated parent with a translated child misplaces the child")
elif which == "C10-subscene-drops-own-geometry":
    s = trimesh.Scene()
    s.add_geometry(trimesh.creation.box(), node_name="a", geom_name="box")
    s.add_geometry(trimesh.creation.icosphere(subdivisions=1), node_name="b", geom_name="ico", parent_node_name="a", transform=tf.translation_matrix([3.0, 0, 0]))
    sub = s.subscene("a")
    if "box" not in sub.geometry or "a" not in sub.graph.nodes_geometry:
        bad.append("Scene.subscene('a') drops the geometry referenced by node 'a' itself: nodes_geometry=%s" % list(sub.graph.nodes_geometry))
else:
    print("unknown finding", which)
    sys.exit(3)
if bad:
    print("reproduces:", "; ".join(bad))
    sys.exit(1)
print("ok")
