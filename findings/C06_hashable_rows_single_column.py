"""witness: grouping.hashable_rows on an (n,1) int64 array (exit 1 = defect reproduces)"""
import sys
import numpy as np
from trimesh import grouping

d = np.array([[3], [1], [3]], dtype=np.int64)
try:
    u, inv = grouping.unique_rows(d)
    ok = sorted(d[u].ravel().tolist()) == [1, 3] and (d[u][inv] == d).all()
except OverflowError as e:
    print("unique_rows on (n,1) int64 raises OverflowError:", e)
    sys.exit(1)
if not ok:
    print("unique_rows on (n,1) int64 wrong:", u, inv)
    sys.exit(1)
print("ok")
