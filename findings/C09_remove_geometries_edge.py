"""witness: after remove_geometries the edge list export must not re-attach the geometry (exit 1 = defect reproduces)"""
import sys
import numpy as np
from trimesh.scene.transforms import SceneGraph

g = SceneGraph()
g.update("a", matrix=np.eye(4), geometry="ga")
g.remove_geometries("ga")
g2 = SceneGraph()
g2.from_edgelist(g.to_edgelist())
if g2.nodes_geometry != [] or g.nodes_geometry != []:
    print("geometry 'ga' re-attached by to_edgelist/from_edgelist after remove_geometries:", g2.nodes_geometry)
    sys.exit(1)
print("ok")
