"""witness: apply_transform(non-uniform scale / shear) after normals were read"""
import sys
import numpy as np
import trimesh

bad = []
for M in (np.diag([2.0, 1.0, 0.5, 1.0]), np.array([[1, 0.5, 0, 0], [0, 1, 0.25, 0], [0, 0, 1, 0], [0, 0, 0, 1.0]])):
    m = trimesh.creation.icosphere(subdivisions=1)
    _ = (m.face_normals, m.vertex_normals)
    m.apply_transform(M)
    f = trimesh.Trimesh(m.vertices.copy(), m.faces.copy(), process=False)
    if not np.allclose(m.face_normals, f.face_normals, atol=1e-8):
        bad.append("face_normals")
    if not np.allclose(m.vertex_normals, f.vertex_normals, atol=1e-8):
        bad.append("vertex_normals")
if bad:
    print("normals stale after non-similar transform:", sorted(set(bad)))
    sys.exit(1)
print("ok")
