"""witnesses for the C13 findings; usage: C13_witness.py <finding id>   (exit 1 = defect reproduces, 0 = gone)"""
import sys
import numpy as np
from trimesh.voxel import encoding as E
from trimesh.voxel import runlength as rl

which = sys.argv[1]
d3 = np.zeros((2, 2, 2), dtype=bool)
d3[1, 0, 1] = d3[0, 1, 1] = True
d2 = np.array([[0, 1, 1], [0, 0, 1]], dtype=bool)


def fails(f):
    try:
        return not bool(f())
    except Exception as ex:  # noqa: BLE001
        print("   raises %s: %s" % (type(ex).__name__, str(ex)[:100]))
        return True


bad = []
if which == "C13-brle-reverse":
    for runs in ([2, 3], [2, 3, 0], [1, 0]):
        a = np.array(runs)
        if fails(lambda: np.array_equal(rl.brle_to_dense(rl.brle_reverse(a)), rl.brle_to_dense(a)[::-1])):
            bad.append("brle_reverse(%s)" % runs)
elif which == "C13-list-input":
    if fails(lambda: np.array_equal(rl.rle_gather_1d([5, 2, 7, 3], [4, 0, 1]), [7, 5, 5])):
        bad.append("rle_gather_1d with list indices")
    if fails(lambda: np.array_equal(rl.brle_gather_1d([2, 3, 1], [4, 0, 1]), [True, False, False])):
        bad.append("brle_gather_1d with list indices")
    if fails(lambda: np.array_equal(rl.rle_reverse([5, 2, 7, 3]), [7, 3, 5, 2])):
        bad.append("rle_reverse of a list")
elif which == "C13-flipped-index-map":
    e = E.FlippedEncoding(E.DenseEncoding(d2), (0,))
    idx = np.array(list(np.ndindex(2, 3)))
    if fails(lambda: np.array_equal(e.gather_nd(idx), np.flip(d2, 0)[tuple(idx.T)])):
        bad.append("FlippedEncoding(2x3, axis 0).gather_nd")
    r = E.RunLengthEncoding.from_dense(np.arange(4)).flip(0) if False else E.FlippedEncoding(E.DenseEncoding(np.arange(4)), (0,))
    if fails(lambda: np.array_equal(r.gather_nd(np.array([[0], [3]])), [3, 0])):
        bad.append("FlippedEncoding(1-D).gather_nd off by one")
elif which == "C13-transposed-index-map":
    d = np.arange(24).reshape(2, 3, 4)
    e = E.RunLengthEncoding.from_dense(d.reshape(-1)).reshape(d.shape).transpose((1, 2, 0))
    idx = np.array(list(np.ndindex(3, 4, 2)))
    if fails(lambda: np.array_equal(e.gather_nd(idx), d.transpose((1, 2, 0))[tuple(idx.T)])):
        bad.append("TransposedEncoding with a 3-cycle: gather_nd")
elif which == "C13-brle-stripped":
    d = np.array([0, 0, 1, 1, 0, 1, 0], dtype=bool)
    b = E.BinaryRunLengthEncoding.from_dense(d)
    if fails(lambda: np.array_equal(b.stripped[0].dense, d[2:6]) and np.asarray(b.stripped[1]).tolist() == [[2, 1]]):
        bad.append("BinaryRunLengthEncoding.stripped")
elif which == "C13-dense-sparse-values":
    if fails(lambda: np.array_equal(E.DenseEncoding(d2).sparse_values, d2[d2])):
        bad.append("DenseEncoding(2-D).sparse_values")
elif which == "C13-merge-narrow-dtype":
    for dt in (np.uint8, np.int8):
        mx = int(np.iinfo(dt).max)
        if fails(lambda: rl.merge_brle_lengths(rl.split_long_brle_lengths([mx + 1], dtype=dt)) == [mx + 1]):
            bad.append("merge_brle_lengths(split_long_brle_lengths([%d], %s))" % (mx + 1, np.dtype(dt).name))
    if fails(lambda: rl.merge_rle_lengths(*rl.split_long_rle_lengths([7], [300], dtype=np.uint8)) == ([7], [300])):
        bad.append("merge_rle_lengths(split_long_rle_lengths)")
elif which == "C13-empty-sparse":
    if fails(lambda: len(rl.brle_to_sparse(np.array([3]))) == 0):
        bad.append("brle_to_sparse of an all-False encoding")
    z = np.zeros((2, 3), dtype=np.int64)
    e = E.RunLengthEncoding.from_dense(z.reshape(-1)).reshape(z.shape)
    if fails(lambda: len(e.sparse_indices) == 0 and len(e.transpose((1, 0)).sparse_indices) == 0):
        bad.append("sparse_indices of an all-zero reshaped run-length encoding")
elif which == "C13-get-value":
    for name, e in (("RunLengthEncoding", E.RunLengthEncoding.from_dense(np.array([0, 2, 2]))), ("BinaryRunLengthEncoding", E.BinaryRunLengthEncoding.from_dense(np.array([0, 1, 1], bool))), ("SparseEncoding", E.SparseEncoding.from_dense(d3)), ("TransposedEncoding", E.RunLengthEncoding.from_dense(d2.reshape(-1).astype(int)).reshape((2, 3)).transpose((1, 0))), ("FlippedEncoding", E.FlippedEncoding(E.DenseEncoding(d2), (0,))), ("ShapedEncoding", E.RunLengthEncoding.from_dense(d2.reshape(-1).astype(int)).reshape((2, 3))), ("FlattenedEncoding", E.SparseEncoding.from_dense(d3).flat)):
        idx = tuple(s - 1 for s in e.shape)
        if fails(lambda: e.get_value(idx) == np.asarray(e.dense)[idx]):
            bad.append("%s.get_value" % name)
elif which == "C13-lazy-mask":
    m2 = np.array([[1, 0, 1], [0, 1, 1]], dtype=bool)
    base = E.RunLengthEncoding.from_dense(d2.reshape(-1).astype(int)).reshape((2, 3))
    for name, e, ref, m in (("FlippedEncoding", E.FlippedEncoding(E.DenseEncoding(d2), (0,)), np.flip(d2, 0), m2), ("TransposedEncoding", base.transpose((1, 0)), d2.T.astype(int), m2.T), ("ShapedEncoding", E.SparseEncoding.from_dense(d3).reshape((2, 4)), d3.reshape((2, 4)), np.arange(8).reshape(2, 4) % 3 == 0), ("FlattenedEncoding", E.SparseEncoding.from_dense(d3).flat, d3.reshape(-1), np.arange(8) % 3 == 0), ("SparseEncoding", E.SparseEncoding.from_dense(d3), d3, np.arange(8).reshape(2, 2, 2) % 3 != 0)):
        if fails(lambda: np.array_equal(np.asarray(e.mask(m)).reshape(-1), ref[m])):
            bad.append("%s.mask" % name)
elif which == "C13-sparse-stripped":
    e = E.SparseEncoding.from_dense(d3)
    if fails(lambda: np.asarray(e.stripped[1]).tolist() == [[0, 0], [0, 0], [1, 0]]):
        bad.append("SparseEncoding.stripped trailing padding (shape - max instead of shape - 1 - max; pinned by tests/test_encoding.py::test_sparse_stripped)")
elif which == "C13-sparse-rank":
    if fails(lambda: np.array_equal(E.SparseEncoding.from_dense(d2).dense, d2)):
        bad.append("SparseEncoding of a 2-D array: dense")
else:
    print("unknown finding", which)
    sys.exit(3)
if bad:
    print("reproduces:", "; ".join(bad))
    sys.exit(1)
print("ok")
