"""witness: re-parenting a frame must drop the edge from its old parent (exit 1 = defect reproduces)"""
import sys
import numpy as np
from trimesh.scene.transforms import SceneGraph
import trimesh.transformations as tf

g = SceneGraph()
A = tf.translation_matrix([1, 0, 0])
B = tf.translation_matrix([0, 2, 0])
C = tf.translation_matrix([0, 0, 3])
g.update("u1", matrix=A)
g.update("u2", matrix=B)
g.update("v", frame_from="u1", matrix=C)
g.update("v", frame_from="u2", matrix=C)  # re-parent v under u2
keys = set(g.transforms.edge_data.keys())
want = np.linalg.inv(C) @ np.linalg.inv(B) @ A  # v -> u2 -> world -> u1
got, _ = g.get(frame_to="u1", frame_from="v")
if ("u1", "v") in keys or not np.allclose(got, want):
    print("stale edge (u1,v) survives re-parenting:", sorted(keys), got.round(3).tolist())
    sys.exit(1)
print("ok")
