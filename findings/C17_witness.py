"""witnesses for the C17 findings; usage: C17_witness.py <finding id>  (exit 1 = reproduces)"""
import copy
import sys
import warnings
import numpy as np
import trimesh

warnings.simplefilter("ignore")
which = sys.argv[1]
bad = []
if which == "C17-primitive-copy":
    c = trimesh.primitives.Cylinder(radius=1, height=2, sections=7)
    if len(c.copy().vertices) != len(c.vertices):
        bad.append("Cylinder(sections=7).copy() has %d vertices, the original %d" % (len(c.copy().vertices), len(c.vertices)))
    s = trimesh.primitives.Sphere(subdivisions=1)
    if len(s.copy().vertices) != len(s.vertices):
        bad.append("Sphere(subdivisions=1).copy() loses the subdivision count")
    b = trimesh.primitives.Box()
    b.center_mass = [0.1, 0, 0]
    b.metadata["k"] = {"d": [1]}
    c2 = b.copy()
    c2._data.data["center_mass"][0] = 5.0
    c2.metadata["k"]["d"].append(2)
    if not np.allclose(b.center_mass, [0.1, 0, 0]) or b.metadata["k"]["d"] != [1]:
        bad.append("Primitive.copy shares the center_mass override array / nested metadata")
elif which == "C17-copy-protocol":
    for name, g in (("Box", trimesh.primitives.Box()), ("PointCloud", trimesh.PointCloud(np.random.default_rng(0).random((4, 3)))), ("Path2D", trimesh.load_path(np.array([[0, 0], [1, 0], [1, 1], [0, 0]], float))), ("Scene", trimesh.Scene([trimesh.creation.box()])), ("VoxelGrid", trimesh.voxel.VoxelGrid(np.ones((2, 2, 2), bool)))):
        c = copy.copy(g)
        shared = [k for k, v in vars(g).items() if isinstance(v, (dict, list, np.ndarray)) or type(v).__module__.startswith("trimesh")]
        if any(vars(c).get(k) is vars(g)[k] for k in shared if k in vars(c) and not isinstance(vars(g)[k], (str, int, float, type(None)))):
            bad.append("copy.copy(%s) shares attributes with the original" % name)
elif which == "C17-scene-metadata":
    s = trimesh.Scene([trimesh.creation.box()])
    s.metadata["m"] = {"x": [1]}
    s.copy().metadata["m"]["x"].append(2)
    if s.metadata["m"]["x"] != [1]:
        bad.append("Scene.copy shares nested metadata")
elif which == "C17-trimesh-attributes":
    m = trimesh.creation.box()
    m.face_attributes["a"] = np.arange(12)
    m.vertex_attributes["b"] = np.arange(8)
    c = m.copy()
    if "a" not in c.face_attributes or "b" not in c.vertex_attributes:
        bad.append("Trimesh.copy drops face_attributes / vertex_attributes")
elif which == "C17-voxel-copy":
    v = trimesh.voxel.VoxelGrid(np.ones((2, 2, 2), bool))
    v.metadata["a"] = [1]
    if v.copy().metadata.get("a") != [1]:
        bad.append("VoxelGrid.copy drops metadata")
    t = v._transform
    if np.shares_memory(np.asarray(t.copy().matrix), np.asarray(t.matrix)):
        bad.append("voxel Transform.copy shares the matrix array")
elif which == "C17-cache-shared":
    m = trimesh.creation.icosphere(subdivisions=1)
    m.convex_hull, m.vertex_neighbors
    c = copy.copy(m)
    c.convex_hull.vertices *= 3.0
    c.vertex_neighbors[0].append(12345)
    if m.convex_hull.volume > 10 or 12345 in m.vertex_neighbors[0]:
        bad.append("copy.copy(mesh) / mesh.copy(include_cache=True) shares the cached convex_hull mesh and vertex_neighbors lists: editing the copy's changes the original's")
else:
    print("unknown finding", which)
    sys.exit(3)
if bad:
    print("reproduces:", "; ".join(bad))
    sys.exit(1)
print("ok")
