"""witness: remove_infinite_values must not keep a face whose corner was non-finite (exit 1 = defect reproduces)"""
import sys
import numpy as np
import trimesh

m = trimesh.creation.box()
v = np.array(m.vertices)
v[3, 1] = np.nan
f = np.array(m.faces)
m = trimesh.Trimesh(v, f, process=False)
orig = v[f]
m.face_attributes["fid"] = np.arange(len(f))
m.remove_infinite_values()
bad = []
for j, o in enumerate(m.face_attributes["fid"]):
    if not np.allclose(m.vertices[m.faces[j]], orig[o], equal_nan=False):
        bad.append(int(o))
if bad or not np.isfinite(m.vertices).all():
    print("faces that used the NaN vertex survive with a corner moved to another vertex:", bad)
    sys.exit(1)
print("ok")
