"""witnesses for the C16 findings; usage: C16_witness.py <finding id>  (exit 1 = reproduces)"""
import sys
import warnings
import numpy as np
import trimesh

warnings.simplefilter("ignore")
which = sys.argv[1]
bad = []
if which == "C16-nsphere-not-minimal":
    P = np.array([[0, 0, 0], [1, 0, 0], [0, 1, 0], [0, 0, 1.0]])
    C, R = trimesh.nsphere.minimum_nsphere(P)
    best = np.sqrt(2.0 / 3.0)  # circle through the three unit points; the origin is inside
    if R > best * (1 + 1e-6):
        bad.append("minimum_nsphere of the unit right tetrahedron has radius %.6f; the minimal enclosing sphere has %.6f" % (R, best))
elif which == "C16-nsphere-axis-flat":
    seg = np.column_stack([np.linspace(0, 1, 7), np.full(7, 0.5)])
    try:
        C, R = trimesh.nsphere.minimum_nsphere(seg)
        if not np.isfinite(R) or np.linalg.norm(seg - C, axis=1).max() > R * (1 + 1e-7):
            bad.append("minimum_nsphere of an axis-aligned segment does not contain it")
    except Exception as ex:  # noqa: BLE001
        bad.append("minimum_nsphere of points with zero extent along an axis raises %s (division by ptp.min() == 0)" % type(ex).__name__)
else:
    print("unknown finding", which)
    sys.exit(3)
if bad:
    print("reproduces:", "; ".join(bad))
    sys.exit(1)
print("ok")
