"""witnesses for the C16 findings; usage: C16_witness.py <finding id>  (exit 1 = reproduces)"""
import sys
import warnings
import numpy as np
import trimesh

warnings.simplefilter("ignore")
which = sys.argv[1]
bad = []
if which == "C16-nsphere-not-minimal":
    P = np.array([[0, 0, 0], [1, 0, 0], [0, 1, 0], [0, 0, 1.0]])
    C, R = trimesh.nsphere.minimum_nsphere(P)
    best = np.sqrt(2.0 / 3.0)  # circle through the three unit points; the origin is inside
    if R > best * (1 + 1e-6):
        bad.append("minimum_nsphere of the unit right tetrahedron has radius %.6f; the minimal enclosing sphere has %.6f" % (R, best))
elif which == "C16-nsphere-axis-flat":
    seg = np.column_stack([np.linspace(0, 1, 7), np.full(7, 0.5)])
    try:
        C, R = trimesh.nsphere.minimum_nsphere(seg)
        if not np.isfinite(R) or np.linalg.norm(seg - C, axis=1).max() > R * (1 + 1e-7):
            bad.append("minimum_nsphere of an axis-aligned segment does not contain it")
    except Exception as ex:  # noqa: BLE001
        bad.append("minimum_nsphere of points with zero extent along an axis raises %s (division by ptp.min() == 0)" % type(ex).__name__)
elif which == "C16-hull-rotated-lattice-open":
    import itertools

    import trimesh.transformations as tf

    g = np.array(list(itertools.product(range(3), repeat=3)), dtype=float)
    P = g * 0.37 + [100.0, -50.0, 25.0]
    Q = tf.transform_points(P, tf.rotation_matrix(0.8, [1, 2, 3], [0.1, 0.2, 0.3]))
    h = trimesh.convex.convex_hull(Q)
    if not h.is_watertight:
        bad.append("convex_hull of a rotated 3x3x3 lattice far from the origin is not watertight (%d faces, %d vertices; the cube has 12 and 8): qhull (QbB) keeps nearly-coplanar lattice points as vertices and the zero-area stitching triangles are removed" % (len(h.faces), len(h.vertices)))
else:
    print("unknown finding", which)
    sys.exit(3)
if bad:
    print("reproduces:", "; ".join(bad))
    sys.exit(1)
print("ok")
