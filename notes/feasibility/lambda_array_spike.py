"""
Throw-away spike (NOT framework code): "unbounded mode".

Run the unmodified source of trimesh/triangles.py (`cross`, `mass_properties`) on an
array whose leading length is a *symbolic* integer N.  Arrays are (shape, element
function) pairs; the row index is a z3 Int.  The builtin `len` of the mirror module is
replaced (the mirror's builtins dict is ours), because Python insists that `__len__`
returns a concrete int.

Outcome wanted: for a universally quantified row i, the i-th summand of each of the ten
integrals (as built by the REAL code) equals the generated flux-integral spec, and the
scalar part is expressed over opaque sums.

Run: PYTHONPATH=/repo python3-vt lambda_array_spike.py
"""
import ast, builtins, types, itertools, time
from fractions import Fraction
from math import factorial
import numpy as real_np
import z3


# ---------------------------------------------------------------- symbolic scalars
class S:
    def __init__(s, t):
        s.t = t if z3.is_expr(t) else z3.RealVal(str(t))
    @staticmethod
    def lift(x):
        if isinstance(x, S): return x
        if isinstance(x, (float, real_np.floating)): return S(Fraction(float(x)))
        if isinstance(x, (int, real_np.integer)): return S(int(x))
        raise TypeError(type(x))
    def _b(s, o, f): return S(f(s.t, S.lift(o).t))
    def __add__(s, o): return s._b(o, lambda a, b: a + b)
    __radd__ = __add__
    def __sub__(s, o): return s._b(o, lambda a, b: a - b)
    def __rsub__(s, o): return S.lift(o) - s
    def __mul__(s, o): return s._b(o, lambda a, b: a * b)
    __rmul__ = __mul__
    def __truediv__(s, o): return s._b(o, lambda a, b: a / b)
    def __rtruediv__(s, o): return S.lift(o) / s
    def __neg__(s): return S(-s.t)
    def __pow__(s, k):
        r = S(1)
        for _ in range(int(k)): r = r * s
        return r
    def __abs__(s): return S(z3.If(s.t >= 0, s.t, -s.t))
    def __lt__(s, o): return B(s.t < S.lift(o).t)
    def __gt__(s, o): return B(s.t > S.lift(o).t)

class B:
    def __init__(s, t): s.t = t
    def __bool__(s):
        d = DECISIONS.pop(0); PC.append(s.t if d else z3.Not(s.t)); return d
DECISIONS = []; PC = []

class SymLen:                       # symbolic non-negative int used as a dimension
    def __init__(s, t): s.t = t
    def __eq__(s, o): return isinstance(o, SymLen) and z3.eq(s.t, o.t)
    def __hash__(s): return hash(str(s.t))
    def __repr__(s): return str(s.t)

# ---------------------------------------------------------------- lambda arrays
def dims_equal(a, b): return a == b
class LA:
    """shape: tuple of int | SymLen ; fn: index tuple (int | z3 Int expr) -> S | number"""
    def __init__(s, shape, fn): s.shape, s.fn = tuple(shape), fn
    ndim = property(lambda s: len(s.shape))
    @property
    def T(s):
        return LA(s.shape[::-1], lambda idx, f=s.fn: f(idx[::-1]))
    # ---- indexing with ints / slices on concrete axes, ':' on symbolic axes
    def _norm(s, key):
        if not isinstance(key, tuple): key = (key,)
        key = list(key) + [slice(None)] * (s.ndim - len(key))
        return key
    def __getitem__(s, key):
        key = s._norm(key); new_shape = []; plan = []
        for k, d in zip(key, s.shape):
            if isinstance(k, (int, real_np.integer)):
                plan.append(("fix", int(k) % d if isinstance(d, int) else int(k)))
            elif isinstance(k, slice):
                if isinstance(d, SymLen):
                    assert k == slice(None), "only ':' on the symbolic axis in this spike"
                    plan.append(("keep", 0, 1)); new_shape.append(d)
                else:
                    r = range(*k.indices(d)); plan.append(("keep", r.start, r.step)); new_shape.append(len(r))
            else:
                raise NotImplementedError(type(k))
        def fn(idx, f=s.fn, plan=plan):
            it = iter(idx); full = []
            for p in plan:
                full.append(p[1] if p[0] == "fix" else p[1] + p[2] * next(it))
            return f(tuple(full))
        return LA(new_shape, fn)
    def __setitem__(s, key, value):
        key = s._norm(key); old = s.fn
        value = value if isinstance(value, LA) else LA((), lambda idx, v=value: v)
        # region test + index map, concrete leading axes only (what mass_properties does)
        tests = []
        for k, d in zip(key, s.shape):
            if isinstance(k, (int, real_np.integer)): tests.append(("eq", int(k)))
            elif k == slice(None): tests.append(("all",))
            else:
                r = range(*k.indices(d)); assert r.step == 1; tests.append(("rng", r.start, r.stop))
        def fn(idx, old=old, tests=tests, value=value):
            vidx = []; inside = True
            for i, t in zip(idx, tests):
                if t[0] == "eq":
                    assert isinstance(i, int); inside &= (i == t[1])
                elif t[0] == "rng":
                    assert isinstance(i, int); inside &= (t[1] <= i < t[2]); vidx.append(i - t[1])
                else: vidx.append(i)
            if not inside: return old(idx)
            vidx = vidx[len(vidx) - value.ndim:] if value.ndim else []
            return value.fn(tuple(vidx))
        s.fn = fn
    # ---- elementwise with right-aligned broadcasting
    @staticmethod
    def _bc(a, b, op):
        a = a if isinstance(a, LA) else const(a); b = b if isinstance(b, LA) else const(b)
        n = max(a.ndim, b.ndim); sa = (1,) * (n - a.ndim) + a.shape; sb = (1,) * (n - b.ndim) + b.shape
        shape = []
        for x, y in zip(sa, sb):
            if x == 1: shape.append(y)
            elif y == 1 or dims_equal(x, y): shape.append(x)
            else: raise ValueError(f"broadcast {sa} {sb}")
        def fn(idx, a=a, b=b, sa=sa, sb=sb, n=n):
            ia = tuple(0 if d == 1 else i for i, d in zip(idx, sa))[n - a.ndim:]
            ib = tuple(0 if d == 1 else i for i, d in zip(idx, sb))[n - b.ndim:]
            return op(S.lift(a.fn(ia)), S.lift(b.fn(ib)))
        return LA(shape, fn)
    def __add__(s, o): return LA._bc(s, o, lambda x, y: x + y)
    __radd__ = __add__
    def __sub__(s, o): return LA._bc(s, o, lambda x, y: x - y)
    def __mul__(s, o): return LA._bc(s, o, lambda x, y: x * y)
    __rmul__ = __mul__
    def __truediv__(s, o): return LA._bc(s, o, lambda x, y: x / y)
    def __pow__(s, k): return LA(s.shape, lambda idx, f=s.fn: S.lift(f(idx)) ** k)
    # ---- reduction over the symbolic axis -> opaque sums with recorded summands
    def sum(s, axis):
        assert isinstance(s.shape[axis], SymLen)
        rest = s.shape[:axis] + s.shape[axis + 1:]
        out = real_np.empty(rest, dtype=object)
        for idx in itertools.product(*[range(d) for d in rest]):
            name = "SUM_%d_%s" % (len(SUMMANDS), "_".join(map(str, idx)))
            SUMMANDS[name] = (lambda i, idx=idx, f=s.fn, axis=axis: S.lift(f(idx[:axis] + (i,) + idx[axis:])))
            out[idx] = S(z3.Real(name))
        return out
SUMMANDS = {}
def const(v):
    if isinstance(v, real_np.ndarray):
        return LA(v.shape, lambda idx, v=v: v[idx])
    return LA((), lambda idx, v=v: v)

# ---------------------------------------------------------------- numpy shim + builtins
class ShimNP(types.ModuleType):
    def __getattr__(self, name): return getattr(real_np, name)
    def asanyarray(self, a, dtype=None, **kw):
        if isinstance(a, LA) or (isinstance(a, real_np.ndarray) and a.dtype == object): return a
        return real_np.asanyarray(a, dtype=dtype, **kw)
    def zeros(self, shape, dtype=None, **kw):
        shape = shape if isinstance(shape, tuple) else (shape,)
        if any(isinstance(d, SymLen) for d in shape): return LA(shape, lambda idx: 0)
        z = real_np.empty(shape, dtype=object); z[...] = S(0); return z
    def cross(self, a, b):
        assert a.shape[-1] == 3 and b.shape[-1] == 3
        def fn(idx, a=a, b=b):
            *r, k = idx; r = tuple(r); g = lambda x, j: S.lift(x.fn(r + (j,)))
            j, l = (k + 1) % 3, (k + 2) % 3
            return g(a, j) * g(b, l) - g(a, l) * g(b, j)
        return LA(a.shape, fn)
    def mod(self, a, b): return a % b
    def abs(self, x): return abs(x)
    def prod(self, a):
        r = S(1)
        for v in a: r = r * v
        return r
    def array(self, a, dtype=None, **kw):
        try: return real_np.array(a, dtype=dtype, **kw)
        except TypeError: return real_np.array(a, dtype=object)
shim = ShimNP("numpy")

def mirror(path, modname, package):
    src = open(path).read()
    mod = types.ModuleType(modname); mod.__package__ = package; mod.__file__ = path
    real_import = builtins.__import__
    def imp(name, globals=None, locals=None, fromlist=(), level=0):
        if name == "numpy" and level == 0: return shim
        return real_import(name, globals, locals, fromlist, level)
    def sym_len(x): return x.shape[0] if isinstance(x, LA) else len(x)
    b = dict(vars(builtins)); b["__import__"] = imp; b["len"] = sym_len
    mod.__dict__["__builtins__"] = b
    exec(compile(ast.parse(src), path, "exec"), mod.__dict__)
    return mod

import trimesh
tri_mod = mirror("/repo/trimesh/triangles.py", "trimesh.triangles", "trimesh")
# util.is_shape is called on the array: give the real util a duck-typed answer for LA
import trimesh.util as real_util
_orig_is_shape = real_util.is_shape
real_util.is_shape = lambda obj, shape, allow_zeros=False: (True if isinstance(obj, LA) else _orig_is_shape(obj, shape, allow_zeros))

N = SymLen(z3.Int("N"))
TRI = z3.Function("TRI", z3.IntSort(), z3.IntSort(), z3.IntSort(), z3.RealSort())
def tri_fn(idx):
    i, j, k = [x if z3.is_expr(x) else z3.IntVal(x) for x in idx]
    return S(TRI(i, j, k))
T = LA((N, 3, 3), tri_fn)

DECISIONS[:] = [False]
t0 = time.time()
res = tri_mod.mass_properties(T, density=S(z3.Real("rho")))
print("real mass_properties executed on a symbolic-length array in %.3fs" % (time.time() - t0))
print("sums registered:", len(SUMMANDS), "| volume term:", res.volume.t, "| path:", [str(p)[:50] for p in PC])

# ---- per-row obligations: summand_k(i)/den_k == flux spec, i universally quantified
i = z3.Int("i")
a, b, c = [[TRI(i, z3.IntVal(v), z3.IntVal(d)) for d in range(3)] for v in range(3)]
def flux(factors, comp):
    lin = lambda d: (a[d], b[d] - a[d], c[d] - a[d]); tot = 0
    for ch in itertools.product(range(3), repeat=len(factors)):
        nu, nv = ch.count(1), ch.count(2)
        w = Fraction(factorial(nu) * factorial(nv), factorial(nu + nv + 2))
        term = z3.RealVal(w.numerator) / z3.RealVal(w.denominator)
        for f, cc in zip(factors, ch): term = term * lin(f)[cc]
        tot = tot + term
    e1 = [b[d] - a[d] for d in range(3)]; e2 = [c[d] - b[d] for d in range(3)]
    cr = [e1[1]*e2[2]-e1[2]*e2[1], e1[2]*e2[0]-e1[0]*e2[2], e1[0]*e2[1]-e1[1]*e2[0]]
    return cr[comp] * tot
spec = [flux([0], 0)] + [flux([d, d], d) / 2 for d in range(3)] + [flux([d, d, d], d) / 3 for d in range(3)] \
     + [flux([d, d, (d + 1) % 3], d) / 2 for d in range(3)]
den = [6, 24, 24, 24, 60, 60, 60, 120, 120, 120]
names = sorted(SUMMANDS, key=lambda n: int(n.split("_")[2]))
ok = 0
for k, name in enumerate(names):
    s = z3.Solver(); s.set("timeout", 60000)
    s.add(i >= 0, i < N.t)
    s.add(SUMMANDS[name](i).t / den[k] != spec[k])
    r = s.check(); ok += (r == z3.unsat); print("summand", k, name, r)
print("per-row obligations discharged for ALL N:", ok, "/ 10")
# ---- scalar part over opaque sums: volume == SUM_0/6 ; inertia symmetric; com = I/V
s = z3.Solver(); s.add(PC); s.add(res.volume.t != z3.Real(names[0]) / 6); print("volume = Σ/6 :", s.check())
s = z3.Solver(); s.add(PC); s.add(res.inertia[0, 1].t != res.inertia[1, 0].t); print("inertia symmetric :", s.check())
V = z3.Real(names[0]) / 6; Ixy = z3.Real(names[7]) / 120; Ix = z3.Real(names[1]) / 24; Iy = z3.Real(names[2]) / 24
s = z3.Solver(); s.add(PC); s.add(res.inertia[0, 1].t != -z3.Real("rho") * (Ixy - V * (Ix / V) * (Iy / V))); print("inertia[0,1] = -rho(∫xy - V cx cy) :", s.check())
