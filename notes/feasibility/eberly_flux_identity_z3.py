import z3, time, itertools
from math import factorial
from fractions import Fraction
R=z3.Real
a=[R(f'a{i}') for i in range(3)]; b=[R(f'b{i}') for i in range(3)]; c=[R(f'c{i}') for i in range(3)]
e1=[b[i]-a[i] for i in range(3)]; e2=[c[i]-b[i] for i in range(3)]
cr=[e1[1]*e2[2]-e1[2]*e2[1], e1[2]*e2[0]-e1[0]*e2[2], e1[0]*e2[1]-e1[1]*e2[0]]
f1=[a[i]+b[i]+c[i] for i in range(3)]
f2=[a[i]**2+b[i]**2+a[i]*b[i]+c[i]*f1[i] for i in range(3)]
f3=[a[i]**3+a[i]**2*b[i]+a[i]*b[i]**2+b[i]**3+c[i]*f2[i] for i in range(3)]
g0=[f2[i]+(a[i]+f1[i])*a[i] for i in range(3)]
g1=[f2[i]+(b[i]+f1[i])*b[i] for i in range(3)]
g2=[f2[i]+(c[i]+f1[i])*c[i] for i in range(3)]
integ=[None]*10
integ[0]=cr[0]*f1[0]
for i in range(3): integ[1+i]=cr[i]*f2[i]
for i in range(3): integ[4+i]=cr[i]*f3[i]
for i in range(3):
    j=(i+1)%3
    integ[7+i]=cr[i]*(a[j]*g0[i]+b[j]*g1[i]+c[j]*g2[i])
den=[6,24,24,24,60,60,60,120,120,120]
# spec: monomial list (exps over x0,x1,x2, coefficient), component
# integrate product of linear forms over simplex: x_i = a_i + u p_i + v q_i ; expand by multinomial manually
def lin(i): return (a[i], b[i]-a[i], c[i]-a[i])  # const, u coeff, v coeff
def integrate(factors):
    # factors: list of coordinate indices; integrand = prod x_i ; returns z3 expr of ∫ simplex
    tot=0
    for choice in itertools.product(range(3), repeat=len(factors)):
        nu=sum(1 for ch in choice if ch==1); nv=sum(1 for ch in choice if ch==2)
        w=Fraction(factorial(nu)*factorial(nv), factorial(nu+nv+2))
        term=z3.RealVal(w.numerator)/z3.RealVal(w.denominator)
        for f,ch in zip(factors,choice): term=term*lin(f)[ch]
        tot=tot+term
    return tot
specs=[cr[0]*integrate([0])]
specs+=[cr[i]*integrate([i,i])/2 for i in range(3)]
specs+=[cr[i]*integrate([i,i,i])/3 for i in range(3)]
specs+=[cr[i]*integrate([i,i,(i+1)%3])/2 for i in range(3)]
for k in range(10):
    for name,mk in (('z3',lambda: z3.Solver()),('qfnra',lambda: z3.SolverFor('QF_NRA'))):
        s=mk(); s.set('timeout',120000)
        s.add(integ[k]/den[k]!=specs[k])
        t=time.time(); r=s.check(); print(k,name,r,round(time.time()-t,2))
