"""
Throw-away spike (NOT framework code): can the *unmodified source text* of
trimesh/triangles.py be executed by CPython with `numpy` replaced by a thin shim so
that `mass_properties` runs on symbolic reals and yields z3 terms?

Concrete-shape mode only: numpy object arrays holding a SymReal wrapper around z3.
Run: PYTHONPATH=/repo python3-vt mirror_spike.py
"""
import ast, builtins, sys, types, time, itertools
from fractions import Fraction
from math import factorial
import numpy as real_np
import z3

class S:                                    # symbolic real wrapper
    def __init__(s, t): s.t = t if z3.is_expr(t) else z3.RealVal(str(t))
    @staticmethod
    def lift(x):
        if isinstance(x, S): return x
        if isinstance(x, (float, real_np.floating)): return S(Fraction(float(x)))
        if isinstance(x, (int, real_np.integer)): return S(int(x))
        raise TypeError(type(x))
    def _b(s, o, f): return S(f(s.t, S.lift(o).t))
    def __add__(s,o): return s._b(o, lambda a,b:a+b)
    __radd__ = __add__
    def __sub__(s,o): return s._b(o, lambda a,b:a-b)
    def __rsub__(s,o): return S.lift(o)-s
    def __mul__(s,o): return s._b(o, lambda a,b:a*b)
    __rmul__ = __mul__
    def __truediv__(s,o): return s._b(o, lambda a,b:a/b)
    def __rtruediv__(s,o): return S.lift(o)/s
    def __neg__(s): return S(-s.t)
    def __pow__(s,k):
        assert isinstance(k,int) and k>=0
        r=S(1)
        for _ in range(k): r=r*s
        return r
    def __abs__(s): return S(z3.If(s.t>=0, s.t, -s.t))
    def __lt__(s,o): return B(s.t < S.lift(o).t)
    def __gt__(s,o): return B(s.t > S.lift(o).t)
class B:
    def __init__(s,t): s.t=t
    def __bool__(s):                        # spike: fixed decision list instead of an explorer
        d = DECISIONS.pop(0); PC.append(s.t if d else z3.Not(s.t)); return d
DECISIONS=[]; PC=[]

class ShimNP(types.ModuleType):
    """delegates to real numpy, except for the dtype-coercing entry points"""
    def __getattr__(self, name): return getattr(real_np, name)
    def asanyarray(self, a, dtype=None, **kw):
        if isinstance(a, real_np.ndarray) and a.dtype == object: return a
        return real_np.asanyarray(a, dtype=dtype, **kw)
    def zeros(self, shape, dtype=None, **kw):
        z = real_np.empty(shape, dtype=object); z[...] = S(0); return z
    def abs(self, x): return abs(x)
    def prod(self, a): 
        r=S(1)
        for v in a: r=r*v
        return r
    def array(self, a, dtype=None, **kw):
        try: return real_np.array(a, dtype=dtype, **kw)
        except TypeError: return real_np.array(a, dtype=object)
shim = ShimNP("numpy")

def mirror(path, modname, package):
    src = open(path).read()
    mod = types.ModuleType(modname); mod.__package__ = package; mod.__file__ = path
    real_import = builtins.__import__
    def imp(name, globals=None, locals=None, fromlist=(), level=0):
        if name == "numpy" and level == 0: return shim
        return real_import(name, globals, locals, fromlist, level)
    b = dict(vars(builtins)); b["__import__"] = imp
    mod.__dict__["__builtins__"] = b
    exec(compile(ast.parse(src), path, "exec"), mod.__dict__)
    return mod

import trimesh  # real package provides util/constants/points for the relative imports
tri_mod = mirror("/repo/trimesh/triangles.py", "trimesh.triangles", "trimesh")

n = 2                                        # two symbolic triangles, 18 reals
T = real_np.empty((n,3,3), dtype=object)
for i,j,k in itertools.product(range(n),range(3),range(3)): T[i,j,k]=S(z3.Real(f"t{i}{j}{k}"))
DECISIONS[:] = [False]                       # |volume| < tol.zero ?  -> take the regular branch
t0=time.time()
res = tri_mod.mass_properties(T, density=S(z3.Real("rho")))
print("executed real source in %.2fs; path condition: %s" % (time.time()-t0, [str(p)[:60] for p in PC]))

# spec: sum over triangles of generated flux integrals (volume and one product moment)
def flux(i, factors, comp):
    a,b,c = [[T[i,v,d].t for d in range(3)] for v in range(3)]
    lin = lambda d: (a[d], b[d]-a[d], c[d]-a[d])
    tot = 0
    for ch in itertools.product(range(3), repeat=len(factors)):
        nu, nv = ch.count(1), ch.count(2)
        w = Fraction(factorial(nu)*factorial(nv), factorial(nu+nv+2))
        term = z3.RealVal(w.numerator)/z3.RealVal(w.denominator)
        for f,cc in zip(factors,ch): term = term*lin(f)[cc]
        tot = tot+term
    e1=[b[d]-a[d] for d in range(3)]; e2=[c[d]-b[d] for d in range(3)]
    cr=[e1[1]*e2[2]-e1[2]*e2[1], e1[2]*e2[0]-e1[0]*e2[2], e1[0]*e2[1]-e1[1]*e2[0]]
    return cr[comp]*tot
vol_spec = sum(flux(i,[0],0) for i in range(n))
s=z3.Solver(); s.add(PC); s.add(res.volume.t != vol_spec); print("volume == spec:", s.check())
# inertia[0,1] = -rho*(∫xy - V*cx*cy) with c = ∫x/V
Ixy = sum(flux(i,[0,0,1],0)/2 for i in range(n)); Ix=sum(flux(i,[0,0],0)/2 for i in range(n)); Iy=sum(flux(i,[1,1],1)/2 for i in range(n))
V = vol_spec; spec01 = -z3.Real("rho")*(Ixy - V*(Ix/V)*(Iy/V))
s=z3.Solver(); s.set("timeout",60000); s.add(PC); s.add(res.inertia[0,1].t != spec01); t0=time.time(); print("inertia[0,1] == spec:", s.check(), "%.2fs"%(time.time()-t0))
