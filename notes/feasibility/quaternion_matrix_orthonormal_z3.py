# quaternion_matrix (trimesh.transformations) entries, scaled outer product Q = q q^T * 2/n, n=|q|^2>eps
import z3, time, itertools
q=[z3.Real(f'q{i}') for i in range(4)]
n=sum(x*x for x in q)
Q=[[q[i]*q[j]*2/n for j in range(4)] for i in range(4)]
R=[[1.0 - Q[2][2] - Q[3][3], Q[1][2] - Q[3][0], Q[1][3] + Q[2][0]],
   [Q[1][2] + Q[3][0], 1.0 - Q[1][1] - Q[3][3], Q[2][3] - Q[1][0]],
   [Q[1][3] - Q[2][0], Q[2][3] + Q[1][0], 1.0 - Q[1][1] - Q[2][2]]]
tot=time.time()
for i,j in itertools.product(range(3),repeat=2):
    e=sum(R[k][i]*R[k][j] for k in range(3))
    s=z3.SolverFor('QF_NRA'); s.set('timeout',60000); s.add(n>z3.RealVal('1e-15')); s.add(e!=(1 if i==j else 0))
    t=time.time(); r=s.check(); print(i,j,r,round(time.time()-t,2),flush=True)
det=(R[0][0]*(R[1][1]*R[2][2]-R[1][2]*R[2][1])-R[0][1]*(R[1][0]*R[2][2]-R[1][2]*R[2][0])+R[0][2]*(R[1][0]*R[2][1]-R[1][1]*R[2][0]))
s=z3.SolverFor('QF_NRA'); s.set('timeout',120000); s.add(n>z3.RealVal('1e-15')); s.add(det!=1); t=time.time(); print('det',s.check(),round(time.time()-t,2))
print('total',round(time.time()-tot,2))
