import z3, time
R=z3.Real
si,ci,sj,cj,sk,ck=[R(n) for n in 'si ci sj cj sk ck'.split()]
cons=[si*si+ci*ci==1, sj*sj+cj*cj==1, sk*sk+ck*ck==1]
def euler_matrix(si,ci,sj,cj,sk,ck):
    cc, cs = ci * ck, ci * sk
    sc, ss = si * ck, si * sk
    M=[[None]*3 for _ in range(3)]
    i,j,k=0,1,2
    M[i][i] = cj * ck
    M[i][j] = sj * sc - cs
    M[i][k] = sj * cc + ss
    M[j][i] = cj * sk
    M[j][j] = sj * ss + cc
    M[j][k] = sj * cs - sc
    M[k][i] = -sj
    M[k][j] = cj * si
    M[k][k] = cj * ci
    return M
M=euler_matrix(si,ci,sj,cj,sk,ck)
fresh=[0]
def sqrt(e):
    fresh[0]+=1; r=R(f'sq{fresh[0]}'); cons.extend([r>=0, r*r==e]); return r
def atan2_sc(y,x):
    r=sqrt(x*x+y*y)
    s=R(f's_at{fresh[0]}'); c=R(f'c_at{fresh[0]}')
    cons.append(z3.Implies(r>0, z3.And(s*r==y, c*r==x)))
    return s,c,r
i,j,k=0,1,2
EPS=z3.RealVal('8.881784197001252e-16')
cy=sqrt(M[i][i]*M[i][i]+M[j][i]*M[j][i])
sax,cax,rax=atan2_sc(M[k][j],M[k][k])
say,cay,ray=atan2_sc(-M[k][i],cy)
saz,caz,raz=atan2_sc(M[j][i],M[i][i])
M1=euler_matrix(sax,cax,say,cay,saz,caz)
tot=time.time()
for p in range(3):
  for q in range(3):
    for name,mk in (('qfnra',lambda: z3.SolverFor('QF_NRA')),):
        s=mk(); s.set('timeout',120000)
        s.add(cons); s.add(cy>EPS); s.add(M1[p][q]!=M[p][q])
        t=time.time(); r=s.check(); print(p,q,name,r,round(time.time()-t,2),flush=True)
print('total',time.time()-tot)
s=z3.SolverFor('QF_NRA'); s.add(cons); s.add(cy>EPS); print('vacuity check (must be sat):', s.check())
