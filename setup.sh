#!/bin/sh
# builds /verif/.venv offline: python 3.12 venv on top of /venv's site-packages + solver wheels
set -e
DIR="$(cd "$(dirname "$0")" && pwd)"
cd "$DIR"
if [ ! -x .venv/bin/python ] || ! .venv/bin/python -c "import z3, numpy, trimesh, jsonschema" 2>/dev/null; then
  rm -rf .venv
  /venv/bin/python -m venv .venv
  PIP_NO_INDEX=1 .venv/bin/pip install -q --no-index --find-links /opt/veriftools/wheels z3-solver cvc5 jsonschema
  .venv/bin/python -c 'import sympy' 2>/dev/null || PIP_NO_INDEX=1 .venv/bin/pip install -q --no-index --find-links /opt/veriftools/wheels sympy mpmath
  echo "import site; site.addsitedir('/venv/lib/python3.12/site-packages')" > .venv/lib/python3.12/site-packages/_venv_overlay.pth
fi
mkdir -p scratch evidence replay
.venv/bin/python -c "import z3, numpy, trimesh; print('pyvc env ok: z3', z3.get_version_string(), 'numpy', numpy.__version__)"
